#!/usr/bin/env python3
"""seeded_table.py [letters] : markdown table of the seeded changes under /verif/seeded (from their meta.json): where, caught by, first violation key."""
import json, glob, os, re, sys
letters = sys.argv[1] if len(sys.argv) > 1 else 'ABCDEF'
print('| seeded change | where | caught by (quick tier) | first violation key |\n|---|---|---|---|')
for d in sorted(glob.glob('/verif/seeded/C*-[%s]' % letters)):
    name = os.path.basename(d)
    try: m = json.load(open(d + '/meta.json'))
    except Exception: m = {}
    patch = open(d + '/patch.diff').read(); files = sorted(set(re.findall(r'^\+\+\+ b/(\S+)', patch, re.M)))
    det = m.get('detected_by') or []
    key = ''
    for k, v in (m.get('runs') or {}).items():
        if v.get('exit') == 1 and v.get('keys'):
            ks = [re.sub(r'^key=', '', x).split(' ')[0] for x in v['keys']]
            ks = [x for x in ks if ':crash:signal' not in x and ':hang' not in x] or ks
            key = ks[0]; break
    print('| %s | %s | %s | %s |' % (name, ', '.join(files), ', '.join(det) if det else '**not caught**', '`%s`' % key if key else ''))
