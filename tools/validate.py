#!/usr/bin/env python3-vt
"""Validate MANIFEST.json and every evidence file against the schemas in /root/.vp (run with python3-vt: needs jsonschema)."""
import json, glob, sys, jsonschema
ok = True
try:
    jsonschema.validate(json.load(open('/verif/MANIFEST.json')), json.load(open('/root/.vp/MANIFEST.schema.json'))); print('MANIFEST valid')
except Exception as e:
    ok = False; print('MANIFEST INVALID:', str(e)[:600])
es = json.load(open('/root/.vp/EVIDENCE.schema.json'))
for f in sorted(glob.glob('/verif/evidence/*.json')):
    try:
        jsonschema.validate(json.load(open(f)), es); print(f, 'valid')
    except Exception as e:
        ok = False; print(f, 'INVALID:', str(e)[:400])
sys.exit(0 if ok else 1)
