/* C07 -- repacketizer, pad and unpad preserve frames and always emit valid packets.
 * A shadow repacketizer (list of ground-truth frames) is advanced only on accepted cat calls; every output of the
 * real repacketizer is re-parsed with the independent RFC model and compared with the shadow byte for byte.
 * Modes:
 *   seq     random cat / out / out_range / init sequences over valid and invalid packets
 *   pad     opus_packet_pad / opus_packet_unpad on single packets, decode equivalence on twin decoders
 *   mspad   opus_multistream_packet_pad / unpad, 1..8 streams
 */
#include "vpacket.h"

/* ---------------------------------------------------------------- canonical encoding (the model's code choice) */
static int canon(int config6,int M,const int *sz,const unsigned char *const *fr,int sd,unsigned char *out){
  int pos=0; int equal=1; for(int i=1;i<M;i++) if(sz[i]!=sz[0]) equal=0;
  if(M==1) out[pos++]=(unsigned char)(config6<<2);
  else if(M==2&&equal) out[pos++]=(unsigned char)((config6<<2)|1);
  else if(M==2){ out[pos++]=(unsigned char)((config6<<2)|2); pos+=vk_put_len(out+pos,sz[0]); }
  else { out[pos++]=(unsigned char)((config6<<2)|3); out[pos++]=(unsigned char)(M|(equal?0:0x80)); if(!equal) for(int i=0;i<M-1;i++) pos+=vk_put_len(out+pos,sz[i]); }
  if(sd) pos+=vk_put_len(out+pos,sz[M-1]);
  for(int i=0;i<M;i++){ memcpy(out+pos,fr[i],sz[i]); pos+=sz[i]; }
  return pos; }

/* does buf[0..len) parse (RFC model) to exactly the frames fr/sz with config6?  returns 0 ok, else reason code */
static int same_frames(const unsigned char *buf,int len,int sd,int config6,int M,const int *sz,const unsigned char *const *fr,rfc_pkt *m){
  rfc_parse(buf,len,sd,m); if(!m->valid) return 1; if(m->consumed!=len) return 2; if((buf[0]>>2)!=config6) return 3; if(m->count!=M) return 4;
  for(int i=0;i<M;i++){ if(m->sizes[i]!=sz[i]) return 5; if(sz[i]&&memcmp(buf+m->offsets[i],fr[i],sz[i])) return 6; }
  return 0; }

/* ---------------------------------------------------------------- seq mode */
#define MAXPK 64
typedef struct { int config6, n; const unsigned char *fr[48]; int sz[48]; int pk[48]; int hasext_or_unknown[48]; } shadow_t;

static void check_out_range(OpusRepacketizer *rp,const shadow_t *sh,vc_rng *r,int begin,int end,const char *hist){
  int n=sh->n; int bad=(begin<0||begin>=end||end>n);
  if(bad){ vc_gbuf g=vc_galloc(64); memset(g.p,0xA7,64); int ret=opus_repacketizer_out_range(rp,begin,end,g.p,64);
    if(ret!=OPUS_BAD_ARG) vc_viol("out_range:bad-range-accepted","out_range(%d,%d) with %d frames returned %d",begin,end,n,ret);
    for(int i=0;i<64;i++) if(g.p[i]!=0xA7){ vc_viol("out_range:wrote-on-error","bad range wrote to the output buffer"); break; }
    if(vc_gcheck(&g)) vc_viol("write:outside-buffer","out_range bad range damaged canary"); vc_gfree(&g); vc_count("out_bad_range",1); return; }
  int M=end-begin; long payload=0; int exts=0; for(int i=begin;i<end;i++){ payload+=sh->sz[i]; }
  /* extension bytes may be carried from any packet overlapping the range */
  for(int i=0;i<n;i++) if(sh->hasext_or_unknown[i]) exts=1;
  int exts_in_range=0; for(int i=begin;i<end;i++) if(sh->hasext_or_unknown[i]) exts_in_range=1;
  int big=1277*M+70000; vc_gbuf g=vc_galloc(big);
  int S=opus_repacketizer_out_range(rp,begin,end,g.p,big); vc_count("out_range_calls",1);
  if(vc_gcheck(&g)) vc_viol("write:outside-buffer","out_range damaged canary (generous buffer)");
  if(S<=0){ vc_viol(S==OPUS_INTERNAL_ERROR?"out_range:internal-error":"out_range:failed","out_range(%d,%d) of %d frames with a %d-byte buffer returned %d (exts=%d) hist=%s",begin,end,n,big,S,exts,hist); vc_gfree(&g); return; }
  if(S>big){ vc_viol("out_range:exceeds-maxlen","returned %d > maxlen %d",S,big); vc_gfree(&g); return; }
  rfc_pkt m; int why=same_frames(g.p,S,0,sh->config6,M,sh->sz+begin,sh->fr+begin,&m);
  if(why){ char hx[80]; vc_hex(hx,sizeof hx,g.p,S<36?S:36); vc_viol("out_range:frames-differ","out_range(%d,%d)/%d output does not parse back to the selected frames (reason %d, len %d head=%s) hist=%s",begin,end,n,why,S,hx,hist); vc_gfree(&g); return; }
  if(!exts){ /* no extensions anywhere: output must be the canonical encoding, byte for byte */
    static unsigned char cn[48*1277+8]; int cl=canon(sh->config6,M,sh->sz+begin,sh->fr+begin,0,cn);
    if(cl!=S||memcmp(cn,g.p,S)) vc_viol("out_range:not-canonical","out_range(%d,%d) differs from the canonical encoding (len %d vs %d)",begin,end,S,cl); else vc_count("out_canonical_exact",1); }
  /* 1277 bytes per selected frame always suffice */
  { int ml=1277*M; vc_gbuf h=vc_galloc(ml); int s2=opus_repacketizer_out_range(rp,begin,end,h.p,ml);
    if(vc_gcheck(&h)) vc_viol("write:outside-buffer","out_range damaged canary (1277*n buffer)");
    if(s2!=S||(s2>0&&memcmp(h.p,g.p,S))){ if(s2==OPUS_BUFFER_TOO_SMALL&&S>ml&&exts_in_range) vc_viol("out_range:1277-insufficient:carried-extensions","1277*%d=%d bytes refused: output needs %d bytes because %ld payload bytes + carried extensions",M,ml,S,payload); else vc_viol("out_range:1277-insufficient","maxlen=1277*%d returned %d, generous buffer returned %d hist=%s",M,s2,S,hist); }
    else vc_count("out_1277_ok",1); vc_gfree(&h); }
  /* maxlen around the exact need */
  for(int t=0;t<3;t++){ int ml= t==0?S-1: t==1?S: (vc_chance(r,1,2)?(int)vc_below(r,S):S+1+(int)vc_below(r,40)); if(ml<0) ml=0;
    vc_gbuf h=vc_galloc(ml); memset(h.p,0x3C,ml); int s2=opus_repacketizer_out_range(rp,begin,end,h.p,ml);
    if(vc_gcheck(&h)) vc_viol("write:outside-buffer","out_range maxlen=%d (need %d) damaged canary",ml,S);
    if(ml<S){ if(s2!=OPUS_BUFFER_TOO_SMALL) vc_viol("out_range:small-buffer-not-refused","maxlen=%d need=%d returned %d",ml,S,s2); else vc_count("out_refused_small",1); }
    else { if(s2!=S||memcmp(h.p,g.p,S)) vc_viol("out_range:maxlen-dependent","maxlen=%d need=%d returned %d or different bytes",ml,S,s2); }
    vc_gfree(&h); }
  vc_sig3((uint64_t)M|((uint64_t)(g.p[0]&3)<<6)|((uint64_t)exts<<8)|((uint64_t)(begin>0)<<9)|((uint64_t)(end<n)<<10),(uint64_t)(m.cbr)|((uint64_t)(m.pad>0)<<1)|((uint64_t)(sh->sz[begin]>=252)<<2)|((uint64_t)(sh->sz[end-1]>=252)<<3)|((uint64_t)(sh->sz[begin]==0)<<4),(uint64_t)(sh->config6>>1));
  vc_gfree(&g); }

static void mode_seq(void){
  vc_rng r; vc_case_rng(&r,7); OpusRepacketizer *rp=opus_repacketizer_create(); shadow_t sh; memset(&sh,0,sizeof sh);
  vp_pkt pk[MAXPK]; int npk=0; int config6=vc_below(&r,64); int nops=vc_range(&r,1,40); char hist[400]; int ho=0; hist[0]=0;
  int dur=rfc_dur48((unsigned char)(config6<<2)); int maxfr=5760/dur;
  if(vc_chance(&r,1,8)){ /* stale state: use a recycled, dirtied object */ memset(rp,0xDB,opus_repacketizer_get_size()); opus_repacketizer_init(rp); }
  for(int op=0;op<nops;op++){
    int k=vc_below(&r,10);
    if(k<5&&npk<MAXPK){ /* cat a built (framing-valid) packet */
      int c6=vc_chance(&r,1,8)?(config6^(1+(int)vc_below(&r,63))):config6; c6&=63;
      int M=vc_chance(&r,1,3)?1:vc_range(&r,1,vc_chance(&r,1,3)?(maxfr<48?maxfr:48):4); { int mx=5760/rfc_dur48((unsigned char)(c6<<2)); if(M>mx) M=mx; }
      int sizes[48]; vp_rand_sizes(&r,M,sizes,vc_chance(&r,1,6)?48*1275:3000);
      int padkind=vc_chance(&r,1,2)?VP_PAD_NONE:(int)vc_below(&r,VP_PAD_NKINDS);
      vp_pkt *p=&pk[npk]; vp_build(&r,p,c6,M,sizes,vc_chance(&r,1,4),vc_below(&r,2),padkind,NULL,0);
      int expect=(sh.n==0||c6==sh.config6)&&((M+sh.n)*rfc_dur48(p->buf[0])<=5760);
      { rfc_pkt m; rfc_parse(p->buf,p->len,0,&m); if(!m.valid||m.count!=M){ fprintf(stderr,"h_c07: builder produced an invalid packet\n"); exit(3); } }
      int ret=opus_repacketizer_cat(rp,p->buf,p->len); vc_count("cat_calls",1);
      if(ho<360) ho+=snprintf(hist+ho,sizeof hist-ho,"cat(M%d,c%d,p%d)=%d ",M,p->buf[0]&3,padkind,ret);
      if(expect){ if(ret!=OPUS_OK) vc_viol("cat:valid-rejected","valid compatible packet (M=%d, have %d, dur48=%d) rejected with %d hist=%s",M,sh.n,dur,ret,hist);
        else { if(sh.n==0) sh.config6=c6; for(int i=0;i<M;i++){ sh.fr[sh.n]=p->buf+p->off[i]; sh.sz[sh.n]=p->sizes[i]; sh.pk[sh.n]=npk; sh.hasext_or_unknown[sh.n]=(padkind==VP_PAD_RANDOM&&p->padbytes>0)||p->next>0; sh.n++; } npk++; vc_count("cat_accepted",1); continue; } }
      else { if(ret==OPUS_OK){ vc_viol(c6!=sh.config6&&sh.n?"cat:incompatible-accepted":"cat:over-120ms-accepted","packet accepted although %s (M=%d have=%d dur48=%d) hist=%s",c6!=sh.config6&&sh.n?"its configuration differs":"the total exceeds 120 ms",M,sh.n,rfc_dur48(p->buf[0]),hist); vp_free(p); break; }
        if(ret!=OPUS_INVALID_PACKET) vc_viol("cat:wrong-error","rejected with %d, documented error is OPUS_INVALID_PACKET",ret); vc_count("cat_rejected_incompatible",1); }
      vp_free(p); /* rejected: the repacketizer must not keep a reference (freed now; ASan sees any later use) */
    } else if(k<7){ /* cat a hostile / invalid packet */
      static unsigned char hb[4200]; int len=vk_hostile(&r,hb,4000,0); if(vc_chance(&r,1,10)) len=0;
      if(len>0&&vc_chance(&r,2,3)) hb[0]=(unsigned char)((sh.n?sh.config6:config6)<<2|(hb[0]&3));
      unsigned char *b=vc_exact_copy(hb,len); rfc_pkt m; rfc_parse(b,len,0,&m);
      int c6=len>0?b[0]>>2:-1; int expect=m.valid&&(sh.n==0||c6==sh.config6)&&((m.count+sh.n)*rfc_dur48(b[0])<=5760);
      int ret=opus_repacketizer_cat(rp,b,len); vc_count("cat_calls",1);
      if(ho<360) ho+=snprintf(hist+ho,sizeof hist-ho,"hcat(len%d,v%d)=%d ",len,m.valid,ret);
      if(expect){ if(ret!=OPUS_OK){ vc_viol("cat:valid-rejected","hostile-generator packet valid per RFC model (count=%d have=%d) rejected with %d",m.count,sh.n,ret); free(b); }
        else if(npk<MAXPK){ vp_pkt *p=&pk[npk]; memset(p,0,sizeof *p); p->buf=b; p->len=len; if(sh.n==0) sh.config6=c6; for(int i=0;i<m.count;i++){ sh.fr[sh.n]=b+m.offsets[i]; sh.sz[sh.n]=m.sizes[i]; sh.pk[sh.n]=npk; sh.hasext_or_unknown[sh.n]=m.pad>0; sh.n++; } npk++; vc_count("cat_accepted",1); }
        else { free(b); break; } }
      else { if(ret==OPUS_OK){ vc_viol(!m.valid?"cat:invalid-accepted":"cat:incompatible-accepted","packet the model %s was accepted (len=%d have=%d) hist=%s",m.valid?"finds incompatible/too long":"rejects",len,sh.n,hist); free(b); break; }
        if(ret!=OPUS_INVALID_PACKET&&ret!=OPUS_BAD_ARG) vc_viol("cat:wrong-error","invalid packet rejected with undocumented %d",ret);
        vc_count("cat_rejected_invalid",1); free(b); }
    } else if(k==7){ int ret=0; vc_gbuf g=vc_galloc(1277*48+70000); if(sh.n==0){ ret=opus_repacketizer_out(rp,g.p,(opus_int32)g.n); if(ret!=OPUS_BAD_ARG) vc_viol("out:empty-accepted","out() on an empty repacketizer returned %d",ret); } vc_gfree(&g);
      if(sh.n) check_out_range(rp,&sh,&r,0,sh.n,hist); if(ho<360) ho+=snprintf(hist+ho,sizeof hist-ho,"out "); }
    else if(k==8){ int b,e; if(vc_chance(&r,1,6)){ b=vc_range(&r,-2,sh.n+1); e=vc_range(&r,-2,sh.n+2); } else if(sh.n){ b=vc_below(&r,sh.n); e=b+1+vc_below(&r,sh.n-b); } else { b=0; e=vc_range(&r,0,1); }
      if(ho<360) ho+=snprintf(hist+ho,sizeof hist-ho,"range(%d,%d) ",b,e); check_out_range(rp,&sh,&r,b,e,hist); }
    else { opus_repacketizer_init(rp); for(int i=0;i<npk;i++) vp_free(&pk[i]); npk=0; sh.n=0; if(ho<360) ho+=snprintf(hist+ho,sizeof hist-ho,"init "); }
    int nf=opus_repacketizer_get_nb_frames(rp); if(nf!=sh.n){ vc_viol("state:nb_frames","get_nb_frames=%d, shadow holds %d hist=%s",nf,sh.n,hist); break; }
  }
  /* final: every single frame and the whole content must still come out intact (detects state damage by rejected calls) */
  if(sh.n){ check_out_range(rp,&sh,&r,0,sh.n,hist); int b=vc_below(&r,sh.n); check_out_range(rp,&sh,&r,b,b+1,hist); }
  if(vc_want_sample()) vc_sample("{\"mode\":\"seq\",\"config6\":%d,\"frames_held\":%d,\"history\":\"%s\"}",config6,sh.n,hist);
  for(int i=0;i<npk;i++) vp_free(&pk[i]); opus_repacketizer_destroy(rp);
}

/* ---------------------------------------------------------------- pad mode */
static int decode_pair(OpusDecoder *a,OpusDecoder *b,const unsigned char *pa,int la,const unsigned char *pb,int lb,int ch,const char *what){
  static float oa[5760*2], ob[5760*2]; int ra=opus_decode_float(a,pa,la,oa,5760,0), rb=opus_decode_float(b,pb,lb,ob,5760,0); opus_uint32 fa=0,fb=0; opus_decoder_ctl(a,OPUS_GET_FINAL_RANGE(&fa)); opus_decoder_ctl(b,OPUS_GET_FINAL_RANGE(&fb));
  if(ra!=rb){ vc_viol("decode:count-differs","%s: decode returned %d vs %d",what,ra,rb); return 1; }
  if(ra>0){ if(fa!=fb){ vc_viol("decode:range-differs","%s: final range %08x vs %08x",what,fa,fb); return 1; } if(memcmp(oa,ob,sizeof(float)*ra*ch)){ vc_viol("decode:pcm-differs","%s: decoded audio differs",what); return 1; } vc_count("decode_pairs_equal",1); }
  return 0; }

static void check_unpad(const unsigned char *src,int len,int config6,int M,const int *sz,const unsigned char *const *fr,const char *what){
  unsigned char *w=vc_exact_copy(src,len); int n=opus_packet_unpad(w,len); vc_count("unpad_calls",1);
  if(n<=0||n>len){ vc_viol(n==OPUS_INTERNAL_ERROR?"unpad:internal-error":"unpad:failed","%s: unpad of a valid %d-byte packet returned %d",what,len,n); free(w); return; }
  rfc_pkt m; int why=same_frames(w,n,0,config6,M,sz,fr,&m); if(why){ vc_viol("unpad:frames-differ","%s: unpadded packet does not hold the same frames (reason %d)",what,why); free(w); return; }
  if(m.pad!=0||((w[0]&3)==3&&(w[1]&0x40))) vc_viol("unpad:padding-left","%s: unpadded packet still has padding",what);
  static unsigned char cn[48*1277+8]; int cl=canon(config6,M,sz,fr,0,cn); if(cl!=n||memcmp(cn,w,n)) vc_viol("unpad:not-canonical","%s: unpad result (%d bytes) is not the canonical encoding (%d bytes)",what,n,cl);
  unsigned char *w2=vc_exact_copy(w,n); int n2=opus_packet_unpad(w2,n); if(n2!=n||memcmp(w2,w,n)) vc_viol("unpad:not-idempotent","%s: unpad(unpad(x)) != unpad(x) (%d vs %d)",what,n2,n); else vc_count("unpad_idempotent",1);
  free(w2); free(w); }

static const char *hex16(const unsigned char *b,int n){ static char t[80]; t[0]=0; for(int i=0;i<n&&i<24;i++) sprintf(t+3*i,"%02x ",b[i]); return t; }
static void mode_pad(void){
  vc_rng r; vc_case_rng(&r,8); vk_pool_init(); int err;
  int useReal=vc_chance(&r,1,8);
  if(useReal){ /* a real stream: decoder A gets the originals, decoder B the padded (then unpadded) packets */
    vk_stream *st=&vk_pool[vc_below(&r,vk_pool_n)]; int Fs=VC_PICK(&r,vk_rates), ch=1+vc_below(&r,2); OpusDecoder *a=opus_decoder_create(Fs,ch,&err), *b=opus_decoder_create(Fs,ch,&err), *c=opus_decoder_create(Fs,ch,&err);
    for(int k=0;k<st->n;k++){ int len=st->len[k]; rfc_pkt m; rfc_parse(st->pkt[k],len,0,&m); if(!m.valid) continue;
      int add= vc_chance(&r,1,3)?vc_range(&r,1,4):vc_chance(&r,1,2)?vc_range(&r,250,520):vc_range(&r,1,1500); int nl=len+add;
      vc_gbuf g=vc_galloc(nl); memcpy(g.p,st->pkt[k],len); memset(g.p+len,0x99,add);
      int ret=opus_packet_pad(g.p,len,nl); vc_count("pad_calls",1);
      if(vc_gcheck(&g)) vc_viol("write:outside-buffer","pad(%d->%d) damaged canary",len,nl);
      if(ret!=OPUS_OK){ vc_viol(ret==OPUS_INTERNAL_ERROR?"pad:internal-error":"pad:failed","pad(%d->%d) of an encoder packet returned %d",len,nl,ret); vc_gfree(&g); continue; }
      const unsigned char *fr[48]; int sz[48]; for(int i=0;i<m.count;i++){ fr[i]=st->pkt[k]+m.offsets[i]; sz[i]=m.sizes[i]; }
      rfc_pkt m2; int why=same_frames(g.p,nl,0,st->pkt[k][0]>>2,m.count,sz,fr,&m2); if(why) vc_viol("pad:frames-differ","padded packet (%d->%d) does not hold the same frames (reason %d)",len,nl,why);
      decode_pair(a,b,st->pkt[k],len,g.p,nl,ch,"padded vs original");
      /* unpad the padded packet in a third decoder's stream */
      unsigned char *u=vc_exact_copy(g.p,nl); int un=opus_packet_unpad(u,nl); if(un>0){ static float o1[5760*2]; int rc=opus_decode_float(c,u,un,o1,5760,0); opus_uint32 f1=0,f2=0; opus_decoder_ctl(c,OPUS_GET_FINAL_RANGE(&f1)); opus_decoder_ctl(a,OPUS_GET_FINAL_RANGE(&f2)); if(rc<=0||f1!=f2) vc_viol("decode:range-differs","unpadded packet decodes with ret %d range %08x vs %08x",rc,f1,f2); if(un>len) vc_viol("unpad:longer","unpad of a padded %d-byte packet gives %d bytes",len,un); } else vc_viol("unpad:failed","unpad of a padded packet returned %d",un);
      free(u);
      check_unpad(g.p,nl,st->pkt[k][0]>>2,m.count,sz,fr,"padded encoder packet");
      vc_sig3((uint64_t)(st->pkt[k][0])|((uint64_t)(g.p[0]&3)<<8),(uint64_t)(add<3?add:add<255?3:add<510?4:5),(uint64_t)m.count);
      vc_gfree(&g); }
    opus_decoder_destroy(a); opus_decoder_destroy(b); opus_decoder_destroy(c); return; }
  /* built packets: all codes, paddings of every kind, all (len,new_len) relations */
  int config6=vc_below(&r,64); int maxfr=5760/rfc_dur48((unsigned char)(config6<<2)); int M=vc_chance(&r,1,3)?1:vc_range(&r,1,vc_chance(&r,1,3)?(maxfr<48?maxfr:48):4); if(M>maxfr) M=maxfr;
  int sizes[48]; vp_rand_sizes(&r,M,sizes,vc_chance(&r,1,6)?48*1275:2500); int padkind=vc_below(&r,VP_PAD_NKINDS);
  vp_pkt p; vp_build(&r,&p,config6,M,sizes,vc_chance(&r,1,3),vc_below(&r,2),padkind,NULL,0);
  const unsigned char *fr[48]; for(int i=0;i<M;i++) fr[i]=p.buf+p.off[i];
  int len=p.len; int rel=vc_below(&r,10); int nl= rel==0?len: rel==1?len-1-(int)vc_below(&r,len): rel==2?len+1: rel==3?len+2: rel==4?len+3: rel==5?len+vc_range(&r,250,260): rel==6?len+vc_range(&r,505,515):len+vc_range(&r,1,2500);
  int cap=nl>len?nl:len; vc_gbuf g=vc_galloc(cap); memcpy(g.p,p.buf,len); memset(g.p+len,0x99,cap-len);
  int ret=opus_packet_pad(g.p,len,nl); vc_count("pad_calls",1);
  if(vc_gcheck(&g)) vc_viol("write:outside-buffer","pad(%d->%d) damaged canary",len,nl);
  if(nl<len){ if(ret!=OPUS_BAD_ARG) vc_viol("pad:shrink-accepted","pad(%d->%d) returned %d",len,nl,ret); if(memcmp(g.p,p.buf,len)) vc_viol("pad:wrote-on-error","rejected pad modified the packet"); }
  else if(ret!=OPUS_OK){ int unk=(padkind==VP_PAD_RANDOM&&p.padbytes>0); vc_viol(ret==OPUS_INTERNAL_ERROR?(unk?"pad:internal-error:padding-not-extensions":"pad:internal-error"):"pad:failed","pad(%d->%d) of a valid packet (M=%d code=%d padkind=%d padbytes=%d next=%d) returned %d; padding bytes %s",len,nl,M,p.buf[0]&3,padkind,p.padbytes,p.next,ret,hex16(p.buf+len-p.padbytes,p.padbytes)); }
  else { rfc_pkt m2; int why=same_frames(g.p,nl,0,config6,M,sizes,fr,&m2); if(why) vc_viol("pad:frames-differ","padded packet (%d->%d, M=%d code %d->%d) does not hold the same frames (reason %d)",len,nl,M,p.buf[0]&3,g.p[0]&3,why);
    else { OpusDecoder *a=opus_decoder_create(48000,2,&err), *b=opus_decoder_create(48000,2,&err); decode_pair(a,b,p.buf,len,g.p,nl,2,"padded vs original (built packet)"); opus_decoder_destroy(a); opus_decoder_destroy(b);
      check_unpad(g.p,nl,config6,M,sizes,fr,"padded built packet"); vc_count("pad_ok",1); } }
  check_unpad(p.buf,len,config6,M,sizes,fr,"built packet");
  /* degenerate arguments */
  { unsigned char one[4]={0,0,0,0}; int e1=opus_packet_pad(one,0,4), e2=opus_packet_unpad(one,0); if(e1!=OPUS_BAD_ARG||e2!=OPUS_BAD_ARG) vc_viol("pad:len0-accepted","pad/unpad with len 0 returned %d/%d",e1,e2); }
  /* invalid packet: refused, never an internal error */
  { static unsigned char hb[4200]; int hl=vk_hostile(&r,hb,3000,0); if(hl>0){ rfc_pkt m; rfc_parse(hb,hl,0,&m); if(!m.valid){ unsigned char *w=(unsigned char*)malloc(hl+64); memcpy(w,hb,hl); int e1=opus_packet_pad(w,hl,hl+vc_range(&r,1,64)); memcpy(w,hb,hl); int e2=opus_packet_unpad(w,hl); if(e1>=0||e2>=0||e1==OPUS_INTERNAL_ERROR||e2==OPUS_INTERNAL_ERROR) vc_viol("pad:invalid-accepted","pad/unpad of an invalid packet returned %d/%d",e1,e2); else vc_count("pad_invalid_refused",1); free(w); } } }
  vc_sig3((uint64_t)(p.buf[0]&3)|((uint64_t)padkind<<2)|((uint64_t)rel<<5),(uint64_t)(M>3?3:M)|((uint64_t)p.vbr<<2)|((uint64_t)(sizes[0]>=252)<<3),(uint64_t)(ret==OPUS_OK));
  if(vc_want_sample()) vc_sample("{\"mode\":\"pad\",\"config6\":%d,\"frames\":%d,\"code\":%d,\"padkind\":%d,\"len\":%d,\"new_len\":%d,\"ret\":%d}",config6,M,p.buf[0]&3,padkind,len,nl,ret);
  vc_gfree(&g); vp_free(&p);
}

/* ---------------------------------------------------------------- mspad mode */
static void mode_mspad(void){
  vc_rng r; vc_case_rng(&r,9); int ns=vc_range(&r,1,8); int config6=vc_below(&r,64)&~1; /* mono streams */ int maxfr=5760/rfc_dur48((unsigned char)(config6<<2)); int M=vc_range(&r,1,maxfr<6?maxfr:6);
  vp_pkt sp[8]; int tot=0; for(int s=0;s<ns;s++){ int sizes[48]; vp_rand_sizes(&r,M,sizes,900); vp_build(&r,&sp[s],config6,M,sizes,vc_chance(&r,1,3),vc_below(&r,2),vc_chance(&r,1,2)?VP_PAD_NONE:(int)vc_below(&r,VP_PAD_NKINDS),NULL,s!=ns-1); tot+=sp[s].len; }
  int add=vc_chance(&r,1,8)?0:vc_chance(&r,1,2)?vc_range(&r,1,4):vc_range(&r,1,700); int nl=tot+add; vc_gbuf g=vc_galloc(nl); int o=0; for(int s=0;s<ns;s++){ memcpy(g.p+o,sp[s].buf,sp[s].len); o+=sp[s].len; } memset(g.p+tot,0x99,add);
  unsigned char *orig=vc_exact_copy(g.p,tot);
  int ret=opus_multistream_packet_pad(g.p,tot,nl,ns); vc_count("mspad_calls",1);
  if(vc_gcheck(&g)) vc_viol("write:outside-buffer","multistream pad damaged canary");
  int unk=0; for(int s=0;s<ns;s++) if(sp[s].padkind==VP_PAD_RANDOM&&sp[s].padbytes>0) unk=1;
  if(ret!=OPUS_OK) vc_viol(ret==OPUS_INTERNAL_ERROR?(unk?"mspad:internal-error:padding-not-extensions":"mspad:internal-error"):"mspad:failed","multistream pad(%d->%d, %d streams) returned %d",tot,nl,ns,ret);
  else { int off=0; for(int s=0;s<ns;s++){ int last=s==ns-1; const unsigned char *fr[48]; for(int i=0;i<M;i++) fr[i]=sp[s].buf+sp[s].off[i]; rfc_pkt m;
      if(!last){ if(memcmp(g.p+off,sp[s].buf,sp[s].len)) vc_viol("mspad:other-stream-modified","stream %d of %d changed by multistream pad",s,ns); off+=sp[s].len; }
      else { int why=same_frames(g.p+off,nl-off,0,config6,M,sp[s].sizes,fr,&m); if(why) vc_viol("mspad:frames-differ","last stream after pad does not hold the same frames (reason %d)",why); } }
    /* decode equivalence through the multistream decoder (one mono stream per channel) */
    { int err; unsigned char map[8]; for(int i=0;i<ns;i++) map[i]=i; OpusMSDecoder *a=opus_multistream_decoder_create(48000,ns,ns,0,map,&err), *b=opus_multistream_decoder_create(48000,ns,ns,0,map,&err); static float oa[5760*8], ob[5760*8];
      int ra=opus_multistream_decode_float(a,orig,tot,oa,5760,0), rb=opus_multistream_decode_float(b,g.p,nl,ob,5760,0); opus_uint32 fa=0,fb=0; opus_multistream_decoder_ctl(a,OPUS_GET_FINAL_RANGE(&fa)); opus_multistream_decoder_ctl(b,OPUS_GET_FINAL_RANGE(&fb));
      if(ra!=rb||ra<=0||fa!=fb||memcmp(oa,ob,sizeof(float)*ra*ns)) vc_viol("mspad:decode-differs","multistream decode of padded vs original: ret %d/%d range %08x/%08x",ra,rb,fa,fb); else vc_count("ms_decode_pairs_equal",1);
      opus_multistream_decoder_destroy(a); opus_multistream_decoder_destroy(b); } }
  /* unpad: per stream canonical, idempotent, never longer */
  { unsigned char *w=vc_exact_copy(ret==OPUS_OK?g.p:orig,ret==OPUS_OK?nl:tot); int wl=ret==OPUS_OK?nl:tot; int n=opus_multistream_packet_unpad(w,wl,ns); vc_count("msunpad_calls",1);
    if(n<=0||n>wl) vc_viol(n==OPUS_INTERNAL_ERROR?"msunpad:internal-error":"msunpad:failed","multistream unpad(%d bytes, %d streams) returned %d",wl,ns,n);
    else { static unsigned char cn[8*(6*1277+16)]; int cl=0; for(int s=0;s<ns;s++){ const unsigned char *fr[48]; for(int i=0;i<M;i++) fr[i]=sp[s].buf+sp[s].off[i]; cl+=canon(config6,M,sp[s].sizes,fr,s!=ns-1,cn+cl); }
      if(cl!=n||memcmp(cn,w,n)) vc_viol("msunpad:not-canonical","multistream unpad gives %d bytes, per-stream canonical encoding is %d bytes (or bytes differ)",n,cl);
      unsigned char *w2=vc_exact_copy(w,n); int n2=opus_multistream_packet_unpad(w2,n,ns); if(n2!=n||memcmp(w,w2,n)) vc_viol("msunpad:not-idempotent","second multistream unpad changed the packet (%d vs %d)",n2,n); else vc_count("msunpad_idempotent",1); free(w2); }
    free(w); }
  vc_sig3((uint64_t)ns|((uint64_t)M<<4),(uint64_t)(add<3?add:add<255?3:4),(uint64_t)(sp[ns-1].buf[0]&3)|((uint64_t)sp[ns-1].padkind<<2)|((uint64_t)(ns>1?sp[0].padkind:7)<<5));
  if(vc_want_sample()) vc_sample("{\"mode\":\"mspad\",\"streams\":%d,\"frames\":%d,\"len\":%d,\"new_len\":%d,\"ret\":%d}",ns,M,tot,nl,ret);
  free(orig); vc_gfree(&g); for(int s=0;s<ns;s++) vp_free(&sp[s]);
}

int main(int argc,char **argv){
  static const vc_mode_t modes[]={{"seq",mode_seq},{"pad",mode_pad},{"mspad",mode_mspad},{0,0}};
  return vc_main(argc,argv,"C07",modes);
}
