#!/bin/sh
# rerun_seeded.sh [names...] : run every seeded change (or the named ones) against the check of its property in scratch worktrees,
# four at a time, replacing the results recorded in each meta.json (log: /tmp/rerun_seeded.log)
cd /verif
names="$@"; [ -z "$names" ] && names=$(ls seeded | grep -v README)
echo $names | tr ' ' '\n' | xargs -P 4 -I{} sh -c 'python3 tools/run_wt.py --fresh seeded/{} 2>&1 | grep -v "^WARNING" | cut -c1-300 >> /tmp/rerun_seeded.log'
echo done >> /tmp/rerun_seeded.log
