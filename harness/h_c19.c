/* C19 -- soft clipping and decoder gain obey their contracts.
 * Modes:
 *   clip    opus_pcm_soft_clip on generated float buffers: range, sign, pass-through, per-channel independence (interleaved call ==
 *           C mono calls with that channel's memory, bit exact, over consecutive frames), degenerate arguments
 *   gain    twin decoders fed identical call sequences (normal / PLC / FEC, mode transitions, losses at transitions), one with
 *           OPUS_SET_GAIN(g): same count / final range / duration, float output = gain-free output x one constant G ~ 10^(g/5120),
 *           16/24-bit output follow the exact relations of vrel.h (saturate, never wrap)
 *   msgain  the same through a multistream decoder (gain reaches every stream)
 */
#include "vcodec.h"
#include "vrel.h"
#ifdef FIXED_POINT
#define IS_FIXED 1
#else
#define IS_FIXED 0
#endif

/* ---------------------------------------------------------------- clip */
static void gen_clip_frame(vc_rng *r,float *x,int N,int C,int style,double *ph,float amp){
  for(int c=0;c<C;c++){ int st=style==7?(int)vc_below(r,7):style; float a=amp*(style==7?(float)(0.2+1.5*vc_unit(r)):1.f); double f=0.001+0.05*vc_unit(r);
    for(int i=0;i<N;i++){ float v;
      switch(st){ case 0: v=a*(float)sin(ph[c]); ph[c]+=6.2831853*f; break;
        case 1: v=a*(float)(2*vc_unit(r)-1); break;
        case 2: v=(vc_below(r,40)==0)?a*(vc_chance(r,1,2)?3.f:-3.f):0.3f*(float)sin(ph[c]+=0.05); break;     /* isolated peaks */
        case 3: v=((i/ (N/4+1))&1)?a*1.7f:-0.2f; break;                                                  /* plateaus above range */
        case 4: v=a*(float)sin(ph[c])*(1.f+(float)i/(N+1)); ph[c]+=6.2831853*f; break;                     /* growing: peak near the frame edge */
        case 5: v=a*((i<3||i>N-4)?1.6f:0.1f)*((c&1)?-1.f:1.f); break;                                     /* peaks straddling frame edges */
        default: v=a*(float)(vc_gauss(r)*0.7); break; }
      x[i*C+c]=v; } } }

static void mode_clip(void){
  vc_rng r; vc_case_rng(&r,19); int C=vc_chance(&r,1,12)?0:vc_range(&r,1,8); int nframes=vc_range(&r,1,6); int style=vc_below(&r,8);
  float amp= vc_chance(&r,1,4)?(float)(0.1+0.9*vc_unit(&r)): vc_chance(&r,1,2)?(float)(1.0+2.0*vc_unit(&r)): (float)pow(10.0,6*vc_unit(&r));
  float memA[8]={0,0,0,0,0,0,0,0}, memB[8]={0,0,0,0,0,0,0,0}; double ph[8]={0,1,2,3,4,5,6,7}; long nv0=vc_nviol;
  for(int k=0;k<nframes;k++){
    int N= vc_chance(&r,1,10)?0: vc_chance(&r,1,3)?vc_range(&r,1,20): vc_chance(&r,1,6)?5760: vc_range(&r,20,1000);
    int CC=C; if(CC*N==0){ /* degenerate arguments: nothing may be written */
      vc_gbuf g=vc_galloc(sizeof(float)*64); float *x=(float*)g.p; for(int i=0;i<64;i++) x[i]=3.0f; float m[8]; for(int i=0;i<8;i++) m[i]=0.125f;
      opus_pcm_soft_clip(x,N,CC,m); opus_pcm_soft_clip(x,-1,2,m); opus_pcm_soft_clip(x,8,-1,m); opus_pcm_soft_clip(NULL,8,2,m); opus_pcm_soft_clip(x,8,2,NULL);
      for(int i=0;i<64;i++) if(x[i]!=3.0f){ vc_viol("clip:degenerate-wrote","N=%d C=%d (or N<1, C<1, NULL) modified the buffer",N,CC); break; }
      for(int i=0;i<8;i++) if(m[i]!=0.125f){ vc_viol("clip:degenerate-wrote","degenerate call modified the memory"); break; }
      if(vc_gcheck(&g)) vc_viol("write:outside-buffer","degenerate soft clip damaged a canary"); vc_gfree(&g); vc_count("clip_degenerate",1); continue; }
    vc_gbuf gi=vc_galloc(sizeof(float)*N*C), ga=vc_galloc(sizeof(float)*N*C), gm=vc_galloc(sizeof(float)*N); float *in=(float*)gi.p, *A=(float*)ga.p, *mono=(float*)gm.p;
    gen_clip_frame(&r,in,N,C,style,ph,amp);
    if(vc_chance(&r,1,3)&&k>0){ /* sign change / same lobe right at the frame edge: first samples continue the previous frame's sign */ }
    memcpy(A,in,sizeof(float)*N*C); float memBefore[8]; memcpy(memBefore,memA,sizeof memA);
    opus_pcm_soft_clip(A,N,C,memA); vc_count("clip_frames",1);
    if(vc_gcheck(&ga)) vc_viol("write:outside-buffer","soft clip N=%d C=%d damaged a canary",N,C);
    int anyover=0;
    for(int c=0;c<C;c++){ int inrange=1; for(int i=0;i<N;i++){ float v=in[i*C+c]; if(v>1.f||v<-1.f) inrange=0; }
      if(!inrange) anyover=1;
      for(int i=0;i<N;i++){ float o=A[i*C+c], v=in[i*C+c];
        if(!(o>=-1.f&&o<=1.f)){ vc_viol("clip:out-of-range","output %.9g from input %.9g (N=%d C=%d ch=%d i=%d frame %d style %d amp %g)",o,v,N,C,c,i,k,style,amp); goto next; }
        if((o>0&&v<0)||(o<0&&v>0)){ vc_viol("clip:sign-flip","input %.9g became %.9g (N=%d C=%d ch=%d i=%d frame %d)",v,o,N,C,c,i,k); goto next; } }
      if(inrange&&memBefore[c]==0){ for(int i=0;i<N;i++) if(memcmp(&A[i*C+c],&in[i*C+c],4)){ vc_viol("clip:in-range-modified","in-range channel with cleared memory changed: %.9g -> %.9g (ch=%d i=%d)",in[i*C+c],A[i*C+c],c,i); goto next; } vc_count("clip_passthrough_channels",1); }
      if(inrange&&memA[c]!=0){ vc_viol("clip:memory-not-cleared","memory %.9g after a fully in-range frame (ch %d)",memA[c],c); goto next; }
      /* independence: the same channel alone, with its own memory */
      for(int i=0;i<N;i++) mono[i]=in[i*C+c]; opus_pcm_soft_clip(mono,N,1,&memB[c]);
      for(int i=0;i<N;i++) if(memcmp(&mono[i],&A[i*C+c],4)){ vc_viol("clip:channel-dependence","interleaved %d-channel call differs from the mono call on channel %d at sample %d frame %d: %.9g vs %.9g (N=%d style %d amp %g)",C,c,i,k,A[i*C+c],mono[i],N,style,amp); goto next; }
      if(memcmp(&memA[c],&memB[c],4)){ vc_viol("clip:channel-dependence","memory of channel %d differs between interleaved and mono call: %.9g vs %.9g (frame %d)",c,memA[c],memB[c],k); goto next; }
      if(memBefore[c]!=0) vc_count("clip_continued_from_memory",1); }
    vc_sig3((uint64_t)C|((uint64_t)(N<20?N:(N<1000?20:21))<<4),(uint64_t)style|((uint64_t)(amp<1?0:amp<3?1:2)<<4)|((uint64_t)anyover<<6),(uint64_t)k|((uint64_t)(memBefore[0]!=0)<<3));
    if(k==0&&vc_want_sample()) vc_sample("{\"mode\":\"clip\",\"N\":%d,\"C\":%d,\"style\":%d,\"amp\":%g,\"frames\":%d,\"any_above_range\":%d}",N,C,style,amp,nframes,anyover);
  next:
    vc_gfree(&gi); vc_gfree(&ga); vc_gfree(&gm); if(vc_nviol>nv0) break; }
  /* non-finite input: no crash, no claim on values */
  if(vc_chance(&r,1,8)){ float x[64]; float m[2]={0,0}; for(int i=0;i<64;i++) x[i]=(float)(2*vc_unit(&r)-1)*3; x[vc_below(&r,64)]=NAN; x[vc_below(&r,64)]=INFINITY; x[vc_below(&r,64)]=-INFINITY; opus_pcm_soft_clip(x,32,2,m); vc_count("clip_nonfinite_survived",1); }
}

/* ---------------------------------------------------------------- gain */
/* a stream with forced mode switches (so that transitions with and without redundancy, and losses at transitions, occur) */
typedef struct { int n; unsigned char *pkt[80]; int len[80]; } gstream;
static void make_stream(vc_rng *r,gstream *s,int *pFs,int *pch){ int err; int Fs=vc_chance(r,2,3)?48000:VC_PICK(r,vk_rates), ch=1+vc_below(r,2); *pFs=Fs; *pch=ch;
  OpusEncoder *e=opus_encoder_create(Fs,ch,OPUS_APPLICATION_AUDIO,&err); opus_encoder_ctl(e,OPUS_SET_BITRATE(vc_range(r,16000,96000)*ch));
  if(vc_chance(r,1,3)){ opus_encoder_ctl(e,OPUS_SET_INBAND_FEC(1)); opus_encoder_ctl(e,OPUS_SET_PACKET_LOSS_PERC(20)); }
  vc_siggen g; vs_init(&g,vc_chance(r,1,2)?VS_SPEECHLIKE:(int)vc_below(r,VS_NFINITE),Fs,ch,(float)(0.2+0.7*vc_unit(r)),vc_next(r));
  int mode=VK_MODE_SILK+(int)vc_below(r,3); int fidx=vc_chance(r,2,3)?3:vc_range(r,1,5); static float in[5760*2]; unsigned char buf[2000]; s->n=0; int nf=vc_range(r,12,60);
  for(int k=0;k<nf&&s->n<80;k++){ if(vc_chance(r,1,5)){ mode=VK_MODE_SILK+(int)vc_below(r,3); } if(vc_chance(r,1,10)) fidx=vc_range(r,1,5);
    opus_encoder_ctl(e,VK_SET_FORCE_MODE_REQUEST,mode); int fs=vk_frame_samples(Fs,fidx); vs_fill(&g,in,fs); int len=opus_encode_float(e,in,fs,buf,1500); if(len<=0) continue;
    s->pkt[s->n]=vc_exact_copy(buf,len); s->len[s->n]=len; s->n++; }
  opus_encoder_destroy(e); }
static void free_stream(gstream *s){ for(int i=0;i<s->n;i++) free(s->pkt[i]); }

static const int gain_grid[]={-32768,-32767,-20000,-5120,-2560,-1536,-768,-256,-1,1,2,100,256,768,1536,1541,2560,3840,5120,10000,15360,20000,25600,32766,32767};

static void mode_gain(void){
  vc_rng r; vc_case_rng(&r,20); int err; gstream s; int eFs,ech; make_stream(&r,&s,&eFs,&ech);
  int Fs=vc_chance(&r,1,2)?eFs:VC_PICK(&r,vk_rates), ch=vc_chance(&r,2,3)?ech:1+(int)vc_below(&r,2);
  int g= vc_chance(&r,1,2)?VC_PICK(&r,gain_grid): vc_chance(&r,2,3)?vc_range(&r,-3000,3000):vc_range(&r,-32768,32767);
  OpusDecoder *d0=opus_decoder_create(Fs,ch,&err), *dg=opus_decoder_create(Fs,ch,&err), *d16=opus_decoder_create(Fs,ch,&err), *d24=opus_decoder_create(Fs,ch,&err);
  /* out-of-range gains are rejected and leave the setting alone */
  { opus_int32 before=-7,after=-7; opus_decoder_ctl(dg,OPUS_SET_GAIN(vc_range(&r,-500,500))); opus_decoder_ctl(dg,OPUS_GET_GAIN(&before)); int bad=vc_chance(&r,1,2)?32768+(int)vc_below(&r,100000):-32769-(int)vc_below(&r,100000); int rc=opus_decoder_ctl(dg,OPUS_SET_GAIN(bad)); opus_decoder_ctl(dg,OPUS_GET_GAIN(&after)); if(rc!=OPUS_BAD_ARG||after!=before) vc_viol("gain:out-of-range-accepted","OPUS_SET_GAIN(%d) returned %d, gain %d -> %d",bad,rc,before,after); }
  if(opus_decoder_ctl(dg,OPUS_SET_GAIN(g))!=OPUS_OK||opus_decoder_ctl(d16,OPUS_SET_GAIN(g))!=OPUS_OK||opus_decoder_ctl(d24,OPUS_SET_GAIN(g))!=OPUS_OK){ vc_viol("gain:legal-rejected","OPUS_SET_GAIN(%d) rejected",g); goto out; }
  { opus_int32 rb=0; opus_decoder_ctl(dg,OPUS_GET_GAIN(&rb)); if(rb!=g) vc_viol("gain:readback","set %d read %d",g,rb); }
  {
  double Gnom=pow(10.0,g/5120.0); float Gf=0; int haveG=0; vr_clip clip; vr_clip_reset(&clip); static float o0[5760*2], og[5760*2]; static opus_int16 o16[5760*2], e16[5760*2]; static opus_int32 o24[5760*2];
  int lossy=vc_chance(&r,2,3); int cap=Fs/25*3; /* 120 ms */ long exact=0, total=0; int sat16seen=0, sat24seen=0;
  for(int k=0;k<s.n;k++){
    int kind= !lossy?0: vc_chance(&r,1,8)?1: vc_chance(&r,1,12)?2:0;   /* 0 normal, 1 lost (PLC), 2 FEC from this packet (previous one lost) */
    int fsz=opus_packet_get_nb_samples(s.pkt[k],s.len[k],Fs); if(fsz<=0||fsz>cap) continue;
    /* a reset (a player seeking) keeps the gain setting: the factor must be the same afterwards */
    if(vc_chance(&r,1,25)){ opus_decoder_ctl(d0,OPUS_RESET_STATE); opus_decoder_ctl(dg,OPUS_RESET_STATE); opus_decoder_ctl(d16,OPUS_RESET_STATE); opus_decoder_ctl(d24,OPUS_RESET_STATE); vr_clip_reset(&clip); opus_int32 rb=-1; opus_decoder_ctl(dg,OPUS_GET_GAIN(&rb)); if(rb!=g) vc_viol("gain:lost-on-reset","OPUS_GET_GAIN reports %d after OPUS_RESET_STATE, was %d",rb,g); vc_count("gain_resets",1); }
    for(int pass=(kind==2?0:1);pass<2;pass++){ int fec=(pass==0); int ckind=fec?2:(kind==1?1:0);
    const unsigned char *p=kind==1?NULL:s.pkt[k]; int l=kind==1?0:s.len[k];
    int r0=opus_decode_float(d0,p,l,o0,fsz,fec), rg=opus_decode_float(dg,p,l,og,fsz,fec), r16=opus_decode(d16,p,l,o16,fsz,fec), r24=opus_decode24(d24,p,l,o24,fsz,fec); vc_count("gain_calls",1);
    opus_uint32 f0=0,fg=0,f16=0,f24=0; opus_decoder_ctl(d0,OPUS_GET_FINAL_RANGE(&f0)); opus_decoder_ctl(dg,OPUS_GET_FINAL_RANGE(&fg)); opus_decoder_ctl(d16,OPUS_GET_FINAL_RANGE(&f16)); opus_decoder_ctl(d24,OPUS_GET_FINAL_RANGE(&f24));
    opus_int32 l0=0,lg=0; opus_decoder_ctl(d0,OPUS_GET_LAST_PACKET_DURATION(&l0)); opus_decoder_ctl(dg,OPUS_GET_LAST_PACKET_DURATION(&lg));
    if(r0!=rg||r0!=r16||r0!=r24){ vc_viol("gain:count-differs","call %d kind %d: returns %d (gain 0) %d (gain %d float) %d (int16) %d (int24)",k,ckind,r0,rg,g,r16,r24); goto done; }
    if(r0<=0){ vc_viol("gain:decode-failed","call %d kind %d returned %d on an encoder packet",k,ckind,r0); goto done; }
    if(f0!=fg||f0!=f16||f0!=f24){ vc_viol("gain:range-differs","call %d: final range %08x vs %08x/%08x/%08x with gain %d",k,f0,fg,f16,f24,g); goto done; }
    if(l0!=lg){ vc_viol("gain:duration-differs","call %d: last packet duration %d vs %d",k,l0,lg); goto done; }
    int n=r0*ch;
    if(!IS_FIXED){
      /* one constant G for every sample of every call */
      if(!haveG){ int im=0; for(int i=1;i<n;i++) if(fabsf(o0[i])>fabsf(o0[im])) im=i; if(fabsf(o0[im])>1e-4f&&isfinite(og[im])&&og[im]!=0){ float c0=(float)((double)og[im]/o0[im]); float cand[5]={c0,nextafterf(c0,INFINITY),nextafterf(c0,-INFINITY),nextafterf(nextafterf(c0,INFINITY),INFINITY),nextafterf(nextafterf(c0,-INFINITY),-INFINITY)}; int best=-1,bc=-1; for(int c=0;c<5;c++){ int cnt=0; for(int i=0;i<n;i++) if(o0[i]*cand[c]==og[i]) cnt++; if(cnt>bc){ bc=cnt; best=c; } } Gf=cand[best]; haveG=1;
          double dev=fabs((double)Gf/Gnom-1); vc_max("gain_G_relative_deviation_from_nominal",dev); if(dev>2e-5){ vc_viol("gain:wrong-factor","gain %d: measured factor %.9g, nominal 10^(g/5120)=%.9g (relative deviation %.3g)",g,(double)Gf,Gnom,dev); goto done; } } }
      if(haveG){ int bad=-1; for(int i=0;i<n;i++){ float e=o0[i]*Gf; total++; if(e==og[i]){ exact++; continue; } double tol=4e-7*fabs((double)e)+1e-30; if(!(fabs((double)og[i]-(double)e)<=tol)){ bad=i; break; } }
        if(bad>=0){ vc_viol(ckind==0?"gain:not-constant-factor":"gain:not-constant-factor:concealment","call %d kind %d gain %d: sample %d (of %d, ch %d): gain-free %.9g x G %.9g = %.9g but output is %.9g (ratio %.6g, G^2=%.6g); toc %02x prev toc %02x",k,ckind,g,bad/ch,r0,bad%ch,o0[bad],(double)Gf,o0[bad]*Gf,og[bad],o0[bad]!=0?og[bad]/o0[bad]:0.0,(double)Gf*Gf,s.pkt[k][0],k?s.pkt[k-1][0]:0); goto done; } }
      /* integer views of the gained output */
      vr_expect16(&clip,og,r0,ch,ckind==0,e16); for(int i=0;i<n;i++) if(o16[i]!=e16[i]){ vc_viol("gain:int16-relation","call %d kind %d gain %d: 16-bit sample %d is %d, expected %d from the float twin %.9g (soft clip, round, saturate)",k,ckind,g,i,o16[i],e16[i],og[i]); goto out; } else if(e16[i]==32767||e16[i]==-32768) sat16seen=1;
      for(int i=0;i<n;i++){ int c=vr_check24(og[i],o24[i]); if(c<0){ vc_viol(c==-1?"gain:int24-wraps":"gain:int24-relation","call %d gain %d: 24-bit sample %d is %d for float %.9g (x2^23 = %.9g)",k,g,i,o24[i],og[i],(double)og[i]*8388608.0); goto out; } if(c==1) sat24seen=1; }
    } else {
      /* fixed point: the float view is the 16-bit view / 32768; gained = sat16(round(in*G)) within 1 LSB (+ tolerance of the Q16 gain) */
      /* the fixed-point gain is a Q16 value in 32 bits: celt_exp2() tops out at 0x7f000000 = 32512.0 */
      /* (only from an exponent of 15 on, i.e. a nominal factor >= 32768; just below, the factor follows the nominal value up to ~32767; at the boundary itself either is accepted) */
      double Gfx=Gnom>=32768.0?32512.0:Gnom; int edge=(Gnom>32700.0&&Gnom<32840.0);
      for(int i=0;i<n;i++){ double e=(double)o0[i]*32768.0*Gfx; if(e>32767) e=32767; if(e<-32768) e=-32768; double got=(double)og[i]*32768.0; double tol=1.0+fabs(e)*2e-3; double e2=(double)o0[i]*32768.0*(Gfx==32512.0?32767.0:32512.0); if(e2>32767) e2=32767; if(e2<-32768) e2=-32768; if(fabs(got-e)>tol&&!(edge&&fabs(got-e2)<=1.0+fabs(e2)*2e-3)){ vc_viol("gain:fixed-relation","call %d kind %d gain %d: sample %d gain-free %.1f x %.6g -> expected %.1f got %.1f",k,ckind,g,i,o0[i]*32768.0,Gnom,e,got); goto out; } if(o16[i]!=(opus_int16)lrint(got)){ vc_viol("gain:int16-relation","fixed build: 16-bit %d vs float view %.1f",o16[i],got); goto out; } if(fabs(e)>=32767) sat16seen=1; }
      total+=n; }
    }
    if(k>0&&rfc_mode(s.pkt[k][0])!=rfc_mode(s.pkt[k-1][0])) vc_named("gain_transition:%d->%d:%s",rfc_mode(s.pkt[k-1][0]),rfc_mode(s.pkt[k][0]),kind==0?"received":"lost");
    vc_sig3((uint64_t)(s.pkt[k][0]>>3)|((uint64_t)kind<<5)|((uint64_t)(k>0&&rfc_mode(s.pkt[k][0])!=rfc_mode(s.pkt[k-1][0]))<<7),(uint64_t)(g<-5000?0:g<0?1:g<2000?2:g<10000?3:4)|((uint64_t)sat16seen<<3)|((uint64_t)sat24seen<<4),(uint64_t)(Fs/8000)|((uint64_t)ch<<3));
  }
done:
  vc_count("gain_samples_checked",total); vc_count("gain_samples_bit_exact",exact); if(sat16seen) vc_count("gain_streams_saturating_int16",1); if(sat24seen) vc_count("gain_streams_saturating_int24",1);
  if(vc_want_sample()) vc_sample("{\"mode\":\"gain\",\"gain_q8\":%d,\"nominal_factor\":%.6g,\"measured_factor\":%.9g,\"Fs\":%d,\"ch\":%d,\"packets\":%d,\"lossy\":%d}",g,Gnom,(double)Gf,Fs,ch,s.n,lossy);
  }
out:
  opus_decoder_destroy(d0); opus_decoder_destroy(dg); opus_decoder_destroy(d16); opus_decoder_destroy(d24); free_stream(&s);
}

/* ---------------------------------------------------------------- msgain */
static void mode_msgain(void){
  vc_rng r; vc_case_rng(&r,21); int err; int Fs=VC_PICK(&r,vk_rates); int ch=vc_range(&r,1,6); int streams=0,coupled=0; unsigned char map[8];
  OpusMSEncoder *me=opus_multistream_surround_encoder_create(Fs,ch,ch>2?1:0,&streams,&coupled,map,OPUS_APPLICATION_AUDIO,&err); if(!me){ vc_viol("msgain:create","surround encoder create failed %d",err); return; }
  OpusMSDecoder *d0=opus_multistream_decoder_create(Fs,ch,streams,coupled,map,&err), *dg=opus_multistream_decoder_create(Fs,ch,streams,coupled,map,&err);
  int g=vc_chance(&r,1,2)?VC_PICK(&r,gain_grid):vc_range(&r,-4000,4000); if(opus_multistream_decoder_ctl(dg,OPUS_SET_GAIN(g))!=OPUS_OK){ vc_viol("gain:legal-rejected","multistream OPUS_SET_GAIN(%d) rejected",g); goto out; }
  { for(int s=0;s<streams;s++){ OpusDecoder *sd=NULL; opus_int32 v=-1; opus_multistream_decoder_ctl(dg,OPUS_MULTISTREAM_GET_DECODER_STATE(s,&sd)); if(sd) opus_decoder_ctl(sd,OPUS_GET_GAIN(&v)); if(v!=g) vc_viol("msgain:not-forwarded","stream %d of %d has gain %d after multistream OPUS_SET_GAIN(%d)",s,streams,v,g); } }
  { double Gnom=pow(10.0,g/5120.0); vc_siggen sg; vs_init(&sg,vc_below(&r,VS_NFINITE),Fs,ch,0.5f,vc_next(&r)); float *in=(float*)malloc(sizeof(float)*960*ch*2), *o0=(float*)malloc(sizeof(float)*1920*ch), *og=(float*)malloc(sizeof(float)*1920*ch); unsigned char buf[4000]; int fs=Fs/50;
    opus_multistream_encoder_ctl(me,OPUS_SET_BITRATE(32000*ch));
    for(int k=0;k<12;k++){ vs_fill(&sg,in,fs); int len=opus_multistream_encode_float(me,in,fs,buf,4000); if(len<=0) break; int lost=vc_chance(&r,1,6);
      int r0=opus_multistream_decode_float(d0,lost?NULL:buf,lost?0:len,o0,fs,0), rg=opus_multistream_decode_float(dg,lost?NULL:buf,lost?0:len,og,fs,0);
      if(r0!=rg||r0!=fs){ vc_viol("gain:count-differs","multistream: %d vs %d",r0,rg); break; }
      opus_uint32 f0=0,fg=0; opus_multistream_decoder_ctl(d0,OPUS_GET_FINAL_RANGE(&f0)); opus_multistream_decoder_ctl(dg,OPUS_GET_FINAL_RANGE(&fg)); if(f0!=fg){ vc_viol("gain:range-differs","multistream final range %08x vs %08x",f0,fg); break; }
      int bad=-1; double Gm=(IS_FIXED&&Gnom>32512.0)?32512.0:Gnom; for(int i=0;i<fs*ch;i++){ double e=(double)o0[i]*Gm; double tol=IS_FIXED?(1.0/32768+fabs(e)*2e-3):(fabs(e)*3e-5+1e-30); if(!(fabs(og[i]-e)<=tol)&&!(IS_FIXED&&fabs(e)>=0.9999&&fabs(og[i])>=0.9999)){ bad=i; break; } }
      if(bad>=0){ vc_viol("msgain:channel-not-scaled","multistream gain %d: channel %d sample %d: %.9g -> %.9g expected %.9g",g,bad%ch,bad/ch,o0[bad],og[bad],o0[bad]*Gnom); break; }
      vc_count("msgain_frames",1); vc_sig3(ch,(uint64_t)streams|((uint64_t)lost<<4),g<0?0:g<2000?1:2); }
    free(in); free(o0); free(og); }
out:
  opus_multistream_encoder_destroy(me); opus_multistream_decoder_destroy(d0); opus_multistream_decoder_destroy(dg);
}

int main(int argc,char **argv){
  static const vc_mode_t modes[]={{"clip",mode_clip},{"gain",mode_gain},{"msgain",mode_msgain},{0,0}};
  return vc_main(argc,argv,"C19",modes);
}
