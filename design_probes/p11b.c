#include <stdio.h>
#include <stdlib.h>
#include <string.h>
#include <math.h>
#include "opus.h"
static unsigned long long rs=1; static unsigned rnd(void){ rs=rs*6364136223846793005ULL+1442695040888963407ULL; return (unsigned)(rs>>33); }
int main(int argc,char**argv){ int N=atoi(argv[1]); rs=atoi(argv[2]); int err; int verbose=argc>3;
 int rates[5]={8000,12000,16000,24000,48000}; int apps[3]={OPUS_APPLICATION_VOIP,OPUS_APPLICATION_AUDIO,OPUS_APPLICATION_RESTRICTED_LOWDELAY};
 long v_start_late=0,v_start_early=0,v_run=0,v_indtx=0,v_resume=0,v_nodtx=0, streams=0, dtxpk=0;
 for(int it=0;it<N;it++){
  int Fs=rates[rnd()%5], ch=1+rnd()%2, app=apps[rnd()%3]; int cx=rnd()%11; int dtx=rnd()%4!=0; int br=16000+rnd()%100000; int vbr=rnd()%2;
  int dursn[9]={Fs/400,Fs/200,Fs/100,Fs/50,Fs/25,3*Fs/50,4*Fs/50,5*Fs/50,6*Fs/50}; int fs=dursn[rnd()%9]; double fms=1000.0*fs/Fs;
  OpusEncoder*e=opus_encoder_create(Fs,ch,app,&err); opus_encoder_ctl(e,OPUS_SET_COMPLEXITY(cx)); opus_encoder_ctl(e,OPUS_SET_DTX(dtx)); opus_encoder_ctl(e,OPUS_SET_BITRATE(br)); opus_encoder_ctl(e,OPUS_SET_VBR(vbr));
  int analysis = cx>=7 && Fs>=16000; streams++;
  double t=0; int active_ms=300+rnd()%1500, silent_ms=500+rnd()%3000, active2=500; double tot=active_ms+silent_ms+active2;
  static short in[5760*2]; unsigned char pkt[1500]; double silence_start=-1; double run=0; int inrun=0; long n=0; double first_dtx=-1;
  while(t<tot){ int act = (t<active_ms)|| (t>=active_ms+silent_ms);
    for(int i=0;i<fs;i++){ double tt=(n+i)/(double)Fs; double envl=0.5+0.5*sin(2*M_PI*4*tt); double f0=120+40*sin(2*M_PI*1.3*tt); double sp=0; for(int h=1;h<=12;h++) sp+=sin(2*M_PI*f0*h*tt)/h; short v= act? (short)(5000*envl*sp + (int)(rnd()%200)-100):0; for(int c=0;c<ch;c++) in[i*ch+c]=v; }
    int len=opus_encode(e,in,fs,pkt,1500); opus_int32 indtx; opus_encoder_ctl(e,OPUS_GET_IN_DTX(&indtx));
    if(len<0){printf("encfail %d\n",len);break;}
    int isd = len<=2;
    if(!act && silence_start<0 && t>=active_ms) silence_start=t; /* frame boundary */
    if(isd){ dtxpk++; if(!dtx){ v_nodtx++; if(verbose) printf("NODTX small pkt len=%d Fs=%d fs=%d br=%d cx=%d\n",len,Fs,fs,br,cx);} if(!indtx){ v_indtx++; if(verbose) printf("INDTX0 an=%d ",analysis), printf("INDTX0 on dtx pkt Fs=%d ch=%d fs=%d cx=%d app=%d len=%d t=%.1f\n",Fs,ch,fs,cx,app,len,t);} if(act){ v_resume++; if(verbose) printf("an=%d act2=%d ",analysis,t>=active_ms+silent_ms), printf("DTX on active frame t=%.1f Fs=%d fs=%d cx=%d\n",t,Fs,fs,cx);} 
       if(first_dtx<0 && silence_start>=0) first_dtx=t; run+=fms; inrun=1; }
    else { if(inrun){ if(run>400+fms-1e-9){ v_run++; if(verbose) printf("RUN %.1f ms Fs=%d fs=%.1fms cx=%d app=%d\n",run,Fs,fms,cx,app);} } run=0; inrun=0; }
    t+=fms; n+=fs; }
  if(dtx && analysis && silence_start>=0){ /* first DTX packet covers [first_dtx, first_dtx+fms) ; silence_start = start of first silent frame */
     double mark=silence_start+200; if(first_dtx<0 || first_dtx > mark+fms+1e-9){ v_start_late++; if(verbose) printf("LATE first_dtx=%.1f sil=%.1f fms=%.1f Fs=%d ch=%d cx=%d app=%d br=%d vbr=%d\n",first_dtx,silence_start,fms,Fs,ch,cx,app,br,vbr);} 
     if(first_dtx>=0 && first_dtx+fms < mark-1e-9){ v_start_early++; if(verbose) printf("EARLY first_dtx=%.1f sil=%.1f fms=%.1f Fs=%d ch=%d cx=%d app=%d br=%d vbr=%d\n",first_dtx,silence_start,fms,Fs,ch,cx,app,br,vbr);} }
  opus_encoder_destroy(e);
 }
 printf("streams=%ld dtxpk=%ld late=%ld early=%ld run=%ld indtx0=%ld resume=%ld nodtx_small=%ld\n",streams,dtxpk,v_start_late,v_start_early,v_run,v_indtx,v_resume,v_nodtx); return 0; }
