/* C02 -- every encoded packet is valid and decodes in lock-step with the encoder.
 * Encoder under hostile configuration histories and signals (ASan/UBSan + assertions); every packet is
 * checked against the RFC framing model, decoded by tree decoders at the encoder's and at another
 * rate/channel count and by the frozen reference decoder; final ranges must all be equal.   Modes:
 *   single   OpusEncoder (float / int16 / int24 entry points)
 *   ms       surround (families 0/1/255), ambisonics (2) and projection (3) encoders
 */
#include "vcodec.h"
#include "refapi.h"
#ifdef FUZZING
#define IS_FUZZING 1
#else
#define IS_FUZZING 0
#endif

static const int maxb_set[]={1,2,3,4,5,6,7,8,9,10,12,14,16,20,24,28,32,40,60,100,200,500,1275,1276,1277,1500,4000};
static const char *mname(int toc){ int m=rfc_mode(toc); return m==0?"silk":m==1?"hybrid":"celt"; }

static void gen_input(vc_siggen *g,int api,float *f,opus_int16 *s16,opus_int32 *s24,int n,int ch){ vs_fill(g,f,n); if(api==1) for(int i=0;i<n*ch;i++) s16[i]=vc_f2s(f[i]); if(api==2) for(int i=0;i<n*ch;i++){ float x=f[i]; if(!(x==x)) x=0; x*=8388608.f; if(x>8388607.f) x=8388607.f; if(x<-8388608.f) x=-8388608.f; s24[i]=(opus_int32)lrintf(x); } }

static void mode_single(void){
  vc_rng r; vc_case_rng(&r,2); int err;
  if(IS_FUZZING) srand((unsigned)vc_u32(&r));
  int Fs=VC_PICK(&r,vk_rates), ch=1+vc_below(&r,2), app=VC_PICK(&r,vk_apps);
  /* one case in eight starves the layers: forced-stereo hybrid (or MDCT) at 10..26 kb/s, where the bit allocation works at its thresholds; the frozen reference decoder is the judge */
  int starve=vc_chance(&r,1,8); if(starve){ Fs=vc_chance(&r,3,4)?48000:24000; ch=vc_chance(&r,4,5)?2:1; app=vc_chance(&r,2,3)?OPUS_APPLICATION_VOIP:OPUS_APPLICATION_AUDIO; vc_count("starved_layer_streams",1); }
  OpusEncoder *e=opus_encoder_create(Fs,ch,app,&err); if(!e){ vc_viol("create:failed","opus_encoder_create(%d,%d,%d) err=%d",Fs,ch,app,err); return; }
  vk_encset set; vk_encset_default(&set,app);
  int Fs2=VC_PICK(&r,vk_rates), ch2=1+vc_below(&r,2), Fs3=VC_PICK(&r,vk_rates), ch3=1+vc_below(&r,2);
  OpusDecoder *dA=opus_decoder_create(Fs,ch,&err), *dB=opus_decoder_create(Fs2,ch2,&err), *dR=ref_opus_decoder_create(Fs3,ch3,&err);
  int nframes=vc_range(&r,8,40); int sigkind=vc_below(&r,vc_chance(&r,1,4)?VS_NALL:VS_NFINITE); float amp=vc_chance(&r,1,5)?1.5f:(float)(0.05+0.9*vc_unit(&r));
  vc_siggen g; vs_init(&g,sigkind,Fs,ch,amp,vc_next(&r)); int fidx=vc_below(&r,9); int maxb=1500; int prev_toc=-1;
  if(vc_verbose) fprintf(stderr,"case %ld: Fs=%d ch=%d app=%d sig=%s amp=%g\n",vc_case,Fs,ch,app,vs_names[sigkind],amp);
  static float f[5760*2]; static opus_int16 s16[5760*2]; static opus_int32 s24[5760*2]; static float out[5760*2]; char hist[500]; int ho=0; hist[0]=0;
  /* initial settings */
  for(int i=vc_below(&r,6);i>0;i--){ char w[40]; int rc=vk_enc_random_ctl(e,&set,&r,ch,w,sizeof w); if(rc!=OPUS_OK) vc_viol("ctl:legal-rejected","%s returned %d",w,rc); if(ho<440) ho+=snprintf(hist+ho,sizeof hist-ho,"%s ",w); }
  if(starve){ set.force_mode=vc_chance(&r,3,4)?VK_MODE_HYBRID:VK_MODE_CELT; opus_encoder_ctl(e,VK_SET_FORCE_MODE_REQUEST,set.force_mode); if(ch==2){ set.force_channels=2; opus_encoder_ctl(e,OPUS_SET_FORCE_CHANNELS(2)); } set.bandwidth= Fs==48000?(vc_chance(&r,2,3)?OPUS_BANDWIDTH_FULLBAND:OPUS_BANDWIDTH_SUPERWIDEBAND):OPUS_BANDWIDTH_SUPERWIDEBAND; opus_encoder_ctl(e,OPUS_SET_BANDWIDTH(set.bandwidth)); set.max_bandwidth=OPUS_BANDWIDTH_FULLBAND; opus_encoder_ctl(e,OPUS_SET_MAX_BANDWIDTH(OPUS_BANDWIDTH_FULLBAND)); set.bitrate=vc_range(&r,10000,26000); opus_encoder_ctl(e,OPUS_SET_BITRATE(set.bitrate)); fidx=2+(int)vc_below(&r,2); nframes=40; g.kind=sigkind=vc_chance(&r,1,2)?VS_VOICED:VS_SPEECHLIKE; if(ho<440) ho+=snprintf(hist+ho,sizeof hist-ho,"starved: mode=%d bw=%d bitrate=%d ",set.force_mode,set.bandwidth,set.bitrate); }
  for(int k=0;k<nframes;k++){
    if(!starve&&vc_chance(&r,1,3)) for(int i=vc_range(&r,1,3);i>0;i--){ char w[40]; int rc=vk_enc_random_ctl(e,&set,&r,ch,w,sizeof w); if(rc!=OPUS_OK) vc_viol("ctl:legal-rejected","%s returned %d",w,rc); if(ho<440) ho+=snprintf(hist+ho,sizeof hist-ho,"%s ",w); }
    if(!starve&&vc_chance(&r,1,4)) fidx=vc_below(&r,9);
    if(!starve&&vc_chance(&r,1,3)) maxb=vc_chance(&r,1,2)?VC_PICK(&r,maxb_set):vc_range(&r,1,1500);
    if(!starve&&vc_chance(&r,1,12)){ sigkind=vc_below(&r,VS_NFINITE); g.kind=sigkind; }
    int fs=vk_frame_samples(Fs,fidx); int api=(sigkind>=VS_NFINITE)?0:vc_below(&r,3);
    gen_input(&g,api,f,s16,s24,fs,ch);
    vc_gbuf pk=vc_galloc(maxb); memset(pk.p,0xEE,maxb);
    int len= api==0?opus_encode_float(e,f,fs,pk.p,maxb): api==1?opus_encode(e,s16,fs,pk.p,maxb): opus_encode24(e,s24,fs,pk.p,maxb);
    vc_count("encode_calls",1);
    int cz=vc_gcheck(&pk); if(cz) vc_viol("write:outside-buffer","canary %d damaged maxb=%d ret=%d",cz,maxb,len);
    if(ho<440) ho+=snprintf(hist+ho,sizeof hist-ho,"[f%d b%d>%d] ",fidx,maxb,len);
    if(len<0){ if(len==OPUS_BUFFER_TOO_SMALL&&maxb==1&&fidx==7) vc_count("refused_1byte_100ms",1); else vc_viol(len==OPUS_INTERNAL_ERROR?"encode:internal-error":"encode:failed","encode returned %d (Fs=%d ch=%d app=%d fs=%d maxb=%d api=%d sig=%s hist=%s)",len,Fs,ch,app,fs,maxb,api,vs_names[sigkind],hist); vc_gfree(&pk); continue; }
    if(len==0||len>maxb){ vc_viol("encode:length-out-of-range","returned %d with max_data_bytes=%d",len,maxb); vc_gfree(&pk); continue; }
    opus_uint32 er=0; opus_encoder_ctl(e,OPUS_GET_FINAL_RANGE(&er));
    unsigned char *p=vc_exact_copy(pk.p,len); rfc_pkt m; rfc_parse(p,len,0,&m);
    char hx[64]; vc_hex(hx,sizeof hx,p,len<20?len:20);
    if(!m.valid){ vc_viol("packet:invalid-framing","encoder emitted a packet the RFC model rejects: len=%d head=%s hist=%s",len,hx,hist); free(p); vc_gfree(&pk); continue; }
    int dur=m.count*rfc_spf(p[0],Fs); if(dur!=fs) vc_viol("packet:duration","announced %d samples, submitted %d (toc=%02x count=%d) hist=%s",dur,fs,p[0],m.count,hist);
    { unsigned char toc; opus_int16 sz[48]; int c=opus_packet_parse(p,len,&toc,NULL,sz,NULL); if(c!=m.count) vc_viol("packet:parse-disagrees","opus_packet_parse=%d model=%d",c,m.count);
      if(opus_packet_get_nb_channels(p)>ch) vc_viol("packet:channels","stereo TOC from a mono encoder"); }
    /* decoders */
    int rA=opus_decode_float(dA,p,len,out,5760,0); opus_uint32 drA=0; opus_decoder_ctl(dA,OPUS_GET_FINAL_RANGE(&drA));
    if(rA!=fs) vc_viol("decode:duration","tree decoder (same Fs) returned %d expected %d len=%d head=%s",rA,fs,len,hx); else if(drA!=er) vc_viol("range:tree-decoder","enc range %08x dec %08x (Fs=%d ch=%d len=%d toc=%02x frame %d hist=%s)",er,drA,Fs,ch,len,p[0],k,hist);
    int rB=opus_decode_float(dB,p,len,out,5760,0); opus_uint32 drB=0; opus_decoder_ctl(dB,OPUS_GET_FINAL_RANGE(&drB));
    if(rB!=(int)((long long)fs*Fs2/Fs)) vc_viol("decode:duration","tree decoder at %d Hz/%dch returned %d expected %lld",Fs2,ch2,rB,(long long)fs*Fs2/Fs); else if(drB!=er) vc_viol("range:tree-decoder-other-rate","enc %08x dec %08x (decoder %d Hz %dch, toc=%02x len=%d frame %d hist=%s)",er,drB,Fs2,ch2,p[0],len,k,hist);
    int rR=ref_opus_decode_float(dR,p,len,out,5760,0); opus_uint32 drR=0; ref_opus_decoder_ctl(dR,OPUS_GET_FINAL_RANGE(&drR));
    if(rR!=(int)((long long)fs*Fs3/Fs)) vc_viol("decode:duration-ref","reference decoder at %d Hz returned %d expected %lld (len=%d head=%s)",Fs3,rR,(long long)fs*Fs3/Fs,len,hx); else if(drR!=er) vc_viol("range:reference-decoder","enc %08x ref dec %08x (toc=%02x len=%d frame %d Fs=%d ch=%d hist=%s)",er,drR,p[0],len,k,Fs,ch,hist);
    if(er!=0) vc_count("packets_with_range",1); else vc_count("packets_range0",1);
    if(prev_toc>=0&&rfc_mode(prev_toc)!=rfc_mode(p[0])) vc_named("transition:%s->%s",mname(prev_toc),mname(p[0]));
    if(prev_toc>=0&&rfc_bandwidth(prev_toc)!=rfc_bandwidth(p[0])) vc_named("bandwidth-switch:%s",mname(p[0]));
    if(prev_toc>=0&&((prev_toc^p[0])&4)) vc_named("channel-switch:%s",(p[0]&4)?"to-stereo":"to-mono");
    if(m.count>1) vc_named("multiframe:code%d",p[0]&3);
    prev_toc=p[0];
    vc_sig3((uint64_t)(p[0]>>2)|((uint64_t)(p[0]&3)<<6)|((uint64_t)(m.count>3?3:m.count)<<8)|((uint64_t)api<<10)|((uint64_t)(er==0)<<12), (uint64_t)(Fs/4000)|((uint64_t)app<<5), (uint64_t)(len<3?len:(len<10?3:(len<100?4:(len<1275?5:6))))|((uint64_t)(len==maxb)<<3)|((uint64_t)sigkind<<4)|((uint64_t)set.vbr<<9)|((uint64_t)(set.fec>0)<<10)|((uint64_t)set.dtx<<11));
    free(p); vc_gfree(&pk);
  }
  if(vc_want_sample()) vc_sample("{\"mode\":\"single\",\"Fs\":%d,\"ch\":%d,\"app\":%d,\"signal\":\"%s\",\"decoders\":\"tree %d/%d, tree %d/%d, ref %d/%d\",\"history\":\"%s\"}",Fs,ch,app,vs_names[sigkind],Fs,ch,Fs2,ch2,Fs3,ch3,hist);
  opus_encoder_destroy(e); opus_decoder_destroy(dA); opus_decoder_destroy(dB); ref_opus_decoder_destroy(dR);
}

static void mode_ms(void){
  vc_rng r; vc_case_rng(&r,3); int err; if(IS_FUZZING) srand((unsigned)vc_u32(&r));
  int Fs=VC_PICK(&r,vk_rates); int app=VC_PICK(&r,vk_apps); static const int fams[5]={0,1,255,2,3}; int fam=VC_PICK(&r,fams); int ch;
  if(fam==0) ch=vc_range(&r,1,2); else if(fam==1) ch=vc_range(&r,1,8); else if(fam==255) ch=vc_range(&r,1,vc_chance(&r,1,6)?24:6); else { int o=vc_range(&r,fam==3?1:0,fam==3?3:4); ch=(o+1)*(o+1)+(vc_chance(&r,1,3)?2:0); }
  int streams=0,coupled=0; unsigned char mapping[255]; OpusMSEncoder *me=NULL; OpusProjectionEncoder *pe=NULL; OpusMSDecoder *md=NULL,*mr=NULL; OpusProjectionDecoder *pd=NULL;
  if(fam==3){ pe=opus_projection_ambisonics_encoder_create(Fs,ch,3,&streams,&coupled,app,&err); if(!pe){ vc_viol("create:projection-failed","ch=%d err=%d",ch,err); return; }
    opus_int32 msz=0; opus_projection_encoder_ctl(pe,OPUS_PROJECTION_GET_DEMIXING_MATRIX_SIZE(&msz)); unsigned char *mt=(unsigned char*)malloc(msz); opus_projection_encoder_ctl(pe,OPUS_PROJECTION_GET_DEMIXING_MATRIX(mt,msz)); pd=opus_projection_decoder_create(Fs,ch,streams,coupled,mt,msz,&err); free(mt); if(!pd){ vc_viol("create:projection-decoder-failed","err=%d",err); return; } }
  else { me=opus_multistream_surround_encoder_create(Fs,ch,fam,&streams,&coupled,mapping,app,&err); if(!me){ vc_viol("create:surround-failed","fam=%d ch=%d err=%d",fam,ch,err); return; }
    md=opus_multistream_decoder_create(Fs,ch,streams,coupled,mapping,&err); mr=ref_opus_multistream_decoder_create(Fs,ch,streams,coupled,mapping,&err); if(!md||!mr){ vc_viol("create:ms-decoder-failed","err=%d",err); return; } }
  int nframes=vc_range(&r,4,16); vc_siggen g; vs_init(&g,vc_below(&r,VS_NFINITE),Fs,ch,0.4f,vc_next(&r)); int fidx=vc_below(&r,9);
  float *in=(float*)malloc(sizeof(float)*5760*ch), *out=(float*)malloc(sizeof(float)*5760*ch); opus_int16 *s16=(opus_int16*)malloc(2*5760*ch); static unsigned char one[4000];
  for(int k=0;k<nframes;k++){
    if(vc_chance(&r,1,3)){ int br=vc_chance(&r,1,6)?OPUS_BITRATE_MAX:vc_chance(&r,1,8)?OPUS_AUTO:vc_chance(&r,1,5)?vc_range(&r,100000*ch,300000*ch):vc_range(&r,500,64000*ch); int vbr=vc_below(&r,2); int cx=vc_below(&r,11);
      if(me){ opus_multistream_encoder_ctl(me,OPUS_SET_BITRATE(br)); opus_multistream_encoder_ctl(me,OPUS_SET_VBR(vbr)); opus_multistream_encoder_ctl(me,OPUS_SET_COMPLEXITY(cx)); if(vc_chance(&r,1,3)) opus_multistream_encoder_ctl(me,OPUS_SET_INBAND_FEC(vc_below(&r,2))); }
      else { opus_projection_encoder_ctl(pe,OPUS_SET_BITRATE(br)); opus_projection_encoder_ctl(pe,OPUS_SET_VBR(vbr)); opus_projection_encoder_ctl(pe,OPUS_SET_COMPLEXITY(cx)); } }
    if(vc_chance(&r,1,4)) fidx=vc_below(&r,9); int fs=vk_frame_samples(Fs,fidx);
    int maxb= vc_chance(&r,1,3)?vc_range(&r,1,8*streams+24):(vc_chance(&r,1,2)?4000:vc_range(&r,100,2500));
    /* sizes at which a stream's share crosses the one-/two-byte self-delimiting length boundary (252..255 bytes per stream) */
    if(vc_chance(&r,1,3)){ int j=1+(int)vc_below(&r,streams<4?streams:4); maxb=254*j+(int)vc_below(&r,2*j+8)-2; }
    int api=vc_below(&r,2); vs_fill(&g,in,fs); if(api) for(int i=0;i<fs*ch;i++) s16[i]=vc_f2s(in[i]);
    vc_gbuf pk=vc_galloc(maxb);
    int len= me?(api?opus_multistream_encode(me,s16,fs,pk.p,maxb):opus_multistream_encode_float(me,in,fs,pk.p,maxb)):(api?opus_projection_encode(pe,s16,fs,pk.p,maxb):opus_projection_encode_float(pe,in,fs,pk.p,maxb));
    vc_count("ms_encode_calls",1);
    int cz=vc_gcheck(&pk); if(cz) vc_viol("write:outside-buffer","ms canary %d damaged maxb=%d ret=%d streams=%d",cz,maxb,len,streams);
    if(len<0){ if(len==OPUS_BUFFER_TOO_SMALL&&maxb<3*streams) vc_count("ms_refused_small",1); else vc_viol(len==OPUS_INTERNAL_ERROR?"encode:internal-error":"encode:failed","ms encode returned %d (fam=%d ch=%d streams=%d Fs=%d fs=%d maxb=%d)",len,fam,ch,streams,Fs,fs,maxb); vc_gfree(&pk); continue; }
    if(len==0||len>maxb){ vc_viol("encode:length-out-of-range","ms returned %d max=%d",len,maxb); vc_gfree(&pk); continue; }
    opus_uint32 er=0; if(me) opus_multistream_encoder_ctl(me,OPUS_GET_FINAL_RANGE(&er)); else opus_projection_encoder_ctl(pe,OPUS_GET_FINAL_RANGE(&er));
    unsigned char *p=vc_exact_copy(pk.p,len);
    /* split with the RFC model: streams-1 self-delimited + one standard, all valid, same duration */
    { int off=0, ok=1; for(int s=0;s<streams&&ok;s++){ rfc_pkt m; rfc_parse(p+off,len-off,s!=streams-1,&m); if(!m.valid){ vc_viol("packet:invalid-framing","ms stream %d/%d invalid (len=%d off=%d fam=%d)",s,streams,len,off,fam); ok=0; break; } int d=m.count*rfc_spf(p[off],Fs); if(d!=fs){ vc_viol("packet:duration","ms stream %d announces %d submitted %d",s,d,fs); ok=0; } if(s!=streams-1){ int c; int l=vk_from_selfdelim(p+off,len-off,one,&c); rfc_pkt m2; rfc_parse(one,l,0,&m2); if(l<0||!m2.valid||m2.count!=m.count) vc_viol("packet:split","stream %d does not convert to a valid standard packet",s); } off+=m.consumed; } if(ok&&off!=len) vc_viol("packet:trailing-bytes","ms packet has %d trailing bytes",len-off); }
    int rd= md?opus_multistream_decode_float(md,p,len,out,5760,0):opus_projection_decode_float(pd,p,len,out,5760,0); opus_uint32 dr=0; if(md) opus_multistream_decoder_ctl(md,OPUS_GET_FINAL_RANGE(&dr)); else opus_projection_decoder_ctl(pd,OPUS_GET_FINAL_RANGE(&dr));
    if(rd!=fs) vc_viol("decode:duration","ms decoder returned %d expected %d (fam=%d ch=%d streams=%d len=%d maxb=%d)",rd,fs,fam,ch,streams,len,maxb); else if(dr!=er) vc_viol("range:ms-decoder","enc %08x dec %08x fam=%d ch=%d streams=%d len=%d",er,dr,fam,ch,streams,len);
    if(mr){ int rr=ref_opus_multistream_decode_float(mr,p,len,out,5760,0); opus_uint32 d2=0; ref_opus_multistream_decoder_ctl(mr,OPUS_GET_FINAL_RANGE(&d2)); if(rr!=fs) vc_viol("decode:duration-ref","ref ms decoder returned %d expected %d",rr,fs); else if(d2!=er) vc_viol("range:reference-decoder","ms enc %08x ref dec %08x fam=%d ch=%d",er,d2,fam,ch); }
    vc_sig3((uint64_t)fam|((uint64_t)ch<<8),(uint64_t)streams|((uint64_t)coupled<<8)|((uint64_t)fidx<<16),(uint64_t)(len==maxb)|((uint64_t)(maxb<8*streams)<<1)|((uint64_t)(Fs/4000)<<2));
    if(k==0&&vc_want_sample()) vc_sample("{\"mode\":\"ms\",\"family\":%d,\"channels\":%d,\"streams\":%d,\"coupled\":%d,\"Fs\":%d,\"frame\":%d,\"maxb\":%d,\"len\":%d}",fam,ch,streams,coupled,Fs,fs,maxb,len);
    free(p); vc_gfree(&pk);
  }
  free(in); free(out); free(s16);
  if(me) opus_multistream_encoder_destroy(me); if(pe) opus_projection_encoder_destroy(pe); if(md) opus_multistream_decoder_destroy(md); if(mr) ref_opus_multistream_decoder_destroy(mr); if(pd) opus_projection_decoder_destroy(pd);
}

int main(int argc,char **argv){
  static const vc_mode_t modes[]={{"single",mode_single},{"ms",mode_ms},{0,0}};
  return vc_main(argc,argv,"C02",modes);
}
