#!/bin/bash
# usage: build.sh <outdir> <cc> "<cflags>" "<defs>" [fixed]
set -e
OUT=$1; CC=$2; CFLAGS=$3; DEFS=$4; FIXED=$5
R=/repo
mkdir -p $OUT/obj
getlist() { # file var
  awk -v v="$2" 'BEGIN{p=0} $1==v && $2=="=" {p=1; sub(/^[^=]*=/,""); } p{ l=$0; gsub(/\\/,"",l); print l; if ($0 !~ /\\$/) p=0 }' $R/$1 | tr -s ' \n' '\n' | grep -v '^$'
}
SRCS="$(getlist opus_sources.mk OPUS_SOURCES) $(getlist celt_sources.mk CELT_SOURCES) $(getlist silk_sources.mk SILK_SOURCES) $(getlist celt_sources.mk CELT_SOURCES_X86_RTCD) $(getlist silk_sources.mk SILK_SOURCES_X86_RTCD)"
if [ -z "$FIXED" ]; then
 SRCS="$SRCS $(getlist opus_sources.mk OPUS_SOURCES_FLOAT) $(getlist silk_sources.mk SILK_SOURCES_FLOAT)"
 INC="-I$R/silk/float"
else
 SRCS="$SRCS $(getlist opus_sources.mk OPUS_SOURCES_FLOAT) $(getlist silk_sources.mk SILK_SOURCES_FIXED)"
 INC="-I$R/silk/fixed"
 DEFS="$DEFS -DFIXED_POINT"
fi
SSE="$(getlist celt_sources.mk CELT_SOURCES_SSE)"
SSE2="$(getlist celt_sources.mk CELT_SOURCES_SSE2)"
SSE41="$(getlist celt_sources.mk CELT_SOURCES_SSE4_1) $(getlist silk_sources.mk SILK_SOURCES_SSE4_1)"
AVX2="$(getlist celt_sources.mk CELT_SOURCES_AVX2) $(getlist silk_sources.mk SILK_SOURCES_AVX2)"
if [ -z "$FIXED" ]; then AVX2="$AVX2 $(getlist silk_sources.mk SILK_SOURCES_FLOAT_AVX2)"; else SSE41="$SSE41 $(getlist silk_sources.mk SILK_SOURCES_FIXED_SSE4_1)"; fi
mkdir -p $OUT/inc; echo "/* empty */" > $OUT/inc/config.h
BASE="-DOPUS_BUILD -DHAVE_CONFIG_H -DVAR_ARRAYS -DHAVE_LRINT -DHAVE_LRINTF -DHAVE_ALLOCA_H -DOPUS_HAVE_RTCD -DCPU_INFO_BY_ASM -DOPUS_X86_MAY_HAVE_SSE -DOPUS_X86_MAY_HAVE_SSE2 -DOPUS_X86_MAY_HAVE_SSE4_1 -DOPUS_X86_MAY_HAVE_AVX2 $DEFS"
INCS="-I$OUT/inc -I$R/include -I$R -I$R/celt -I$R/silk -I$R/dnn $INC"
job() { f=$1; extra=$2; o=$OUT/obj/$(echo $f | tr '/' '_').o; echo "$CC $CFLAGS $extra $BASE $INCS -c $R/$f -o $o"; }
{
for f in $SRCS; do job $f ""; done
for f in $SSE; do job $f "-msse"; done
for f in $SSE2; do job $f "-msse2"; done
for f in $SSE41; do job $f "-msse4.1"; done
for f in $AVX2; do job $f "-mavx -mfma -mavx2"; done
} > $OUT/cmds.txt
xargs -P 16 -I{} sh -c "{}" < $OUT/cmds.txt
ar rcs $OUT/libopus.a $OUT/obj/*.o
