#include <stdio.h>
#include <stdlib.h>
#include <pthread.h>
#include <math.h>
#include "opus.h"
static void* worker(void*arg){ int id=(int)(long)arg; int err;
  OpusEncoder*e=opus_encoder_create(48000,2,OPUS_APPLICATION_AUDIO,&err);
  OpusDecoder*d=opus_decoder_create(48000,2,&err);
  opus_encoder_ctl(e,OPUS_SET_BITRATE(24000+id*8000));
  short in[960*2], out[960*2]; unsigned char pkt[1500]; unsigned h=0;
  for(int f=0;f<50;f++){ for(int i=0;i<960;i++){ in[2*i]=(short)(10000*sin((f*960+i)*0.01*(id+1))); in[2*i+1]=in[2*i]/2; }
    int len=opus_encode(e,in,960,pkt,1500); int r=opus_decode(d,pkt,len,out,960,0); for(int i=0;i<len;i++) h=h*31+pkt[i]; (void)r; }
  opus_encoder_destroy(e); opus_decoder_destroy(d); return (void*)(long)h; }
int main(){ pthread_t t[8]; for(int i=0;i<8;i++) pthread_create(&t[i],0,worker,(void*)(long)i);
  for(int i=0;i<8;i++){ void*r; pthread_join(t[i],&r); printf("%d:%lx\n",i,(long)r);} return 0; }
