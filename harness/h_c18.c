/* C18 -- SILK side information always dequantises to stable, in-range parameters.
 * Modes:
 *   nlsf    both codebooks: every first-stage vector x per-coefficient residual extremes (exhaustive patterns) + random residual grid;
 *           silk_NLSF_decode ordering/spacing, silk_NLSF2A stability (library inverse-gain test + an independent double-precision
 *           step-down), every interpolation factor with the previous vector, post-loss bandwidth expansion   [case = CB x stage-1 index]
 *   nlsfenc silk_NLSF_encode then silk_NLSF_decode reproduce the same quantised vector
 *   gains   all 64 x (64 + 41) (previous index, index, conditional) transitions chained over 2/4 sub-frames; quant/dequant agreement
 *   pitch   all 16-bit lag indices x all contour indices x {8,12,16} kHz x {2,4} sub-frames                  [case = fs x nb_subfr]
 *   hook    the same predicates on live decoder state (hook H2) during hostile and normal decoding
 */
#include "vcodec.h"
#include "main.h"
#include "tables.h"
#include "SigProc_FIX.h"
#include "pitch_est_defines.h"
#include "define.h"
#ifdef FIXED_POINT
#include "main_FIX.h"
#else
#include "main_FLP.h"
#endif

extern void (*opus_verif_silk_params_cb)(const silk_decoder_state *psDec,const silk_decoder_control *psDecCtrl,const opus_int16 *pNLSF_Q15) __attribute__((weak));

/* ---- independent stability test: double-precision step-down of x^[n] = sum a_i x[n-i] */
static int stable_double(const opus_int16 *a_Q12,int order,double *pgain){ double a[24],t[24]; for(int i=0;i<order;i++) a[i]=a_Q12[i]/4096.0; double invgain=1;
  for(int m=order;m>=1;m--){ double k=a[m-1]; if(!(fabs(k)<1.0)) return 0; double d=1-k*k; invgain*=d; for(int i=0;i<m-1;i++) t[i]=(a[i]+k*a[m-2-i])/d; for(int i=0;i<m-1;i++) a[i]=t[i]; }
  *pgain=1.0/invgain; return 1; }
static int check_lpc(const opus_int16 *a,int order,const char *what,const char *ctx){ double g=0; if(silk_LPC_inverse_pred_gain_c(a,order)==0){ vc_viol("lpc:unstable-library-test","%s: %s fails silk_LPC_inverse_pred_gain",ctx,what); return 1; }
  if(!stable_double(a,order,&g)){ vc_viol("lpc:unstable","%s: %s has a reflection coefficient of magnitude >= 1",ctx,what); return 1; } vc_max("lpc_max_prediction_gain",g); if(g>1.0e4*1.12 /* the library bounds the gain with its own fixed-point recursion on the Q17 coefficients; after rounding to Q12 (and for interpolated vectors) the exact gain was measured up to 1.0316e4 over 1e8 filters */){ vc_viol("lpc:gain-unbounded","%s: %s prediction gain %.1f exceeds 1e4",ctx,what,g); return 1; } return 0; }
static int check_nlsf(const opus_int16 *n,const silk_NLSF_CB_struct *cb,const char *ctx){ int L=cb->order; const opus_int16 *dm=cb->deltaMin_Q15;
  if(n[0]<dm[0]){ vc_viol("nlsf:below-minimum","%s: NLSF[0]=%d < deltaMin[0]=%d",ctx,n[0],dm[0]); return 1; }
  for(int i=1;i<L;i++) if(n[i]-n[i-1]<dm[i]){ vc_viol(n[i]<=n[i-1]?"nlsf:not-ordered":"nlsf:spacing","%s: NLSF[%d]=%d NLSF[%d]=%d spacing %d < deltaMin %d",ctx,i-1,n[i-1],i,n[i],n[i]-n[i-1],dm[i]); return 1; }
  if(n[L-1]>32768-dm[L]){ vc_viol("nlsf:above-maximum","%s: NLSF[%d]=%d > 32768-deltaMin[%d]=%d",ctx,L-1,n[L-1],L,32768-dm[L]); return 1; } return 0; }

static int nlsf_one(const silk_NLSF_CB_struct *cb,opus_int8 *idx,opus_int16 *prev,int have_prev,const char *ctx){ int L=cb->order; opus_int16 n[16], n0[16], a[16];
  for(int i=0;i<16;i++) n[i]=-31000; silk_NLSF_decode(n,idx,cb); vc_count("nlsf_vectors",1);
  if(check_nlsf(n,cb,ctx)) return 1;
  silk_NLSF2A(a,n,L,0); if(check_lpc(a,L,"LPC from decoded NLSF",ctx)) return 1;
  { opus_int16 b[16]; memcpy(b,a,sizeof b); silk_bwexpander(b,L,BWE_AFTER_LOSS_Q16); if(check_lpc(b,L,"LPC after post-loss bandwidth expansion",ctx)) return 1; }
  if(have_prev) for(int f=0;f<4;f++){ for(int i=0;i<L;i++) n0[i]=(opus_int16)(prev[i]+((f*(n[i]-prev[i]))>>2)); silk_NLSF2A(a,n0,L,0); char w[64]; snprintf(w,sizeof w,"LPC from NLSF interpolated with factor %d/4",f); if(check_lpc(a,L,w,ctx)) return 1; vc_count("nlsf_interpolations",1); }
  memcpy(prev,n,sizeof(opus_int16)*16); return 0; }

static void mode_nlsf(void){
  int cbi=(int)(vc_case&1); const silk_NLSF_CB_struct *cb=cbi?&silk_NLSF_CB_WB:&silk_NLSF_CB_NB_MB; int I1=(int)(vc_case>>1); if(I1>=cb->nVectors) return; int L=cb->order; vc_rng r; vc_case_rng(&r,18);
  opus_int8 idx[17]; opus_int16 prev[16]; int have=0; char ctx[120]; int A=NLSF_QUANT_MAX_AMPLITUDE_EXT; long nrand=vc_argl("random",2000);
  /* exhaustive patterns: all zero, each coefficient at each extreme alone, pairs of neighbours at opposite extremes, all +A, all -A, alternating */
  idx[0]=(opus_int8)I1; for(int i=1;i<=L;i++) idx[i]=0; snprintf(ctx,sizeof ctx,"%s stage1=%d residual 0",cbi?"WB":"NB/MB",I1); if(nlsf_one(cb,idx,prev,have,ctx)) return; have=1;
  for(int c=1;c<=L;c++) for(int v=-A;v<=A;v++){ for(int i=1;i<=L;i++) idx[i]=0; idx[c]=(opus_int8)v; snprintf(ctx,sizeof ctx,"%s stage1=%d residual[%d]=%d",cbi?"WB":"NB/MB",I1,c-1,v); if(nlsf_one(cb,idx,prev,have,ctx)) return; }
  for(int c=1;c<L;c++) for(int s=0;s<4;s++){ for(int i=1;i<=L;i++) idx[i]=0; idx[c]=(opus_int8)((s&1)?A:-A); idx[c+1]=(opus_int8)((s&2)?A:-A); snprintf(ctx,sizeof ctx,"%s stage1=%d residual[%d,%d]=%d,%d",cbi?"WB":"NB/MB",I1,c-1,c,idx[c],idx[c+1]); if(nlsf_one(cb,idx,prev,have,ctx)) return; }
  for(int p=0;p<6;p++){ for(int i=1;i<=L;i++) idx[i]=(opus_int8)(p==0?A:p==1?-A:p==2?((i&1)?A:-A):p==3?((i&1)?-A:A):p==4?(i<=L/2?A:-A):(i<=L/2?-A:A)); snprintf(ctx,sizeof ctx,"%s stage1=%d residual pattern %d",cbi?"WB":"NB/MB",I1,p); if(nlsf_one(cb,idx,prev,have,ctx)) return; }
  /* top coefficients high with mixed signs elsewhere (the stabiliser's fallback region) and the random grid */
  for(long t=0;t<nrand;t++){ int style=vc_below(&r,4); for(int i=1;i<=L;i++){ int v; if(style==0) v=vc_range(&r,-A,A); else if(style==1) v=VC_PICK(&r,((const int[]){-10,0,10})); else if(style==2) v=(i>L-4)?vc_range(&r,6,A):(vc_chance(&r,1,2)?vc_range(&r,5,A):-vc_range(&r,5,A)); else v=vc_range(&r,-4,4); idx[i]=(opus_int8)v; }
    if(vc_chance(&r,1,8)) idx[0]=(opus_int8)vc_below(&r,cb->nVectors); else idx[0]=(opus_int8)I1;
    snprintf(ctx,sizeof ctx,"%s stage1=%d random residual style %d #%ld (r1=%d rL=%d)",cbi?"WB":"NB/MB",idx[0],style,t,idx[1],idx[L]); if(nlsf_one(cb,idx,prev,have,ctx)) return; }
  vc_sig3(cbi,I1,0); if(vc_want_sample()) vc_sample("{\"mode\":\"nlsf\",\"codebook\":\"%s\",\"stage1\":%d,\"order\":%d,\"random\":%ld}",cbi?"WB":"NB_MB",I1,L,nrand);
}

/* encoder side, observed live: every call the real SILK encoder makes to silk_NLSF_encode / silk_gains_quant is interposed
   (-Wl,--wrap); the decoder functions must reconstruct exactly what the encoder keeps */
opus_int32 __real_silk_NLSF_encode(opus_int8 *NLSFIndices,opus_int16 *pNLSF_Q15,const silk_NLSF_CB_struct *psNLSF_CB,const opus_int16 *pW_QW,const opus_int NLSF_mu_Q20,const opus_int nSurvivors,const opus_int signalType);
opus_int32 __wrap_silk_NLSF_encode(opus_int8 *NLSFIndices,opus_int16 *pNLSF_Q15,const silk_NLSF_CB_struct *cb,const opus_int16 *pW_QW,const opus_int NLSF_mu_Q20,const opus_int nSurvivors,const opus_int signalType){
  opus_int32 rd=__real_silk_NLSF_encode(NLSFIndices,pNLSF_Q15,cb,pW_QW,NLSF_mu_Q20,nSurvivors,signalType); int L=cb->order; opus_int16 d[16]; vc_count("nlsf_encodes",1);
  for(int i=1;i<=L;i++) if(NLSFIndices[i]<-NLSF_QUANT_MAX_AMPLITUDE_EXT||NLSFIndices[i]>NLSF_QUANT_MAX_AMPLITUDE_EXT){ vc_viol("nlsfenc:index-range","residual index %d = %d outside +-%d",i-1,NLSFIndices[i],NLSF_QUANT_MAX_AMPLITUDE_EXT); return rd; }
  if(NLSFIndices[0]<0||NLSFIndices[0]>=cb->nVectors){ vc_viol("nlsfenc:index-range","stage-1 index %d",NLSFIndices[0]); return rd; }
  silk_NLSF_decode(d,NLSFIndices,cb); if(memcmp(d,pNLSF_Q15,sizeof(opus_int16)*L)) vc_viol("nlsfenc:decoder-differs","order %d: the encoder's quantised NLSF differs from what silk_NLSF_decode reconstructs from its indices (stage1 %d)",L,NLSFIndices[0]); else check_nlsf(d,cb,"encoder-side quantised vector");
  vc_sig3(L,NLSFIndices[0],signalType); return rd; }
void __real_silk_gains_quant(opus_int8 ind[],opus_int32 gain_Q16[],opus_int8 *prev_ind,const opus_int conditional,const opus_int nb_subfr);
void __wrap_silk_gains_quant(opus_int8 ind[],opus_int32 gain_Q16[],opus_int8 *prev_ind,const opus_int conditional,const opus_int nb_subfr){ opus_int8 p0=*prev_ind, pd=p0; opus_int32 gd[4];
  __real_silk_gains_quant(ind,gain_Q16,prev_ind,conditional,nb_subfr); silk_gains_dequant(gd,ind,&pd,conditional,nb_subfr); vc_count("live_gain_quants",1);
  if(pd!=*prev_ind||memcmp(gd,gain_Q16,sizeof(opus_int32)*nb_subfr)) vc_viol("gains:quant-dequant-differ","live encoder: prev=%d cond=%d nb=%d: encoder keeps index %d gains %d,%d; decoder reconstructs index %d gains %d,%d",p0,conditional,nb_subfr,*prev_ind,gain_Q16[0],gain_Q16[1],pd,gd[0],gd[1]); }
/* pitch: the lags the encoder goes on to use (LTP analysis, noise shaping, NSQ) must be the lags the decoder rebuilds from the transmitted lag and contour indices */
#ifdef FIXED_POINT
opus_int __real_silk_pitch_analysis_core(const opus_int16 *frame,opus_int *pitch_out,opus_int16 *lagIndex,opus_int8 *contourIndex,opus_int *LTPCorr_Q15,opus_int prevLag,const opus_int32 t1,const opus_int t2,const opus_int Fs_kHz,const opus_int complexity,const opus_int nb_subfr,int arch);
opus_int __wrap_silk_pitch_analysis_core(const opus_int16 *frame,opus_int *pitch_out,opus_int16 *lagIndex,opus_int8 *contourIndex,opus_int *LTPCorr_Q15,opus_int prevLag,const opus_int32 t1,const opus_int t2,const opus_int Fs_kHz,const opus_int complexity,const opus_int nb_subfr,int arch){
  opus_int rc=__real_silk_pitch_analysis_core(frame,pitch_out,lagIndex,contourIndex,LTPCorr_Q15,prevLag,t1,t2,Fs_kHz,complexity,nb_subfr,arch);
#else
opus_int __real_silk_pitch_analysis_core_FLP(const silk_float *frame,opus_int *pitch_out,opus_int16 *lagIndex,opus_int8 *contourIndex,silk_float *LTPCorr,opus_int prevLag,const silk_float t1,const silk_float t2,const opus_int Fs_kHz,const opus_int complexity,const opus_int nb_subfr,int arch);
opus_int __wrap_silk_pitch_analysis_core_FLP(const silk_float *frame,opus_int *pitch_out,opus_int16 *lagIndex,opus_int8 *contourIndex,silk_float *LTPCorr,opus_int prevLag,const silk_float t1,const silk_float t2,const opus_int Fs_kHz,const opus_int complexity,const opus_int nb_subfr,int arch){
  opus_int rc=__real_silk_pitch_analysis_core_FLP(frame,pitch_out,lagIndex,contourIndex,LTPCorr,prevLag,t1,t2,Fs_kHz,complexity,nb_subfr,arch);
#endif
  vc_count("live_pitch_analyses",1); if(rc!=0) return rc;   /* unvoiced: no lags are transmitted */
  opus_int d[MAX_NB_SUBFR]; silk_decode_pitch(*lagIndex,*contourIndex,d,Fs_kHz,nb_subfr); vc_count("live_pitch_voiced",1); int atmax=0;
  for(int k=0;k<nb_subfr;k++){ if(d[k]>=18*Fs_kHz-1||d[k]<=2*Fs_kHz+1) atmax=1; if(d[k]!=pitch_out[k]){ vc_viol("pitch:encoder-decoder-differ","live encoder, %d kHz, %d sub-frames: the pitch estimator keeps lags %d %d %d %d, silk_decode_pitch rebuilds %d %d %d %d from lagIndex %d contour %d",Fs_kHz,nb_subfr,pitch_out[0],pitch_out[1],nb_subfr>2?pitch_out[2]:0,nb_subfr>2?pitch_out[3]:0,d[0],d[1],nb_subfr>2?d[2]:0,nb_subfr>2?d[3]:0,*lagIndex,*contourIndex); break; } }
  if(atmax) vc_count("live_pitch_at_lag_limit",1); return rc; }
static void mode_nlsfenc(void){
  vc_rng r; vc_case_rng(&r,19); int err; int Fs=VC_PICK(&r,vk_rates), ch=1+vc_below(&r,2); OpusEncoder *e=opus_encoder_create(Fs,ch,vc_chance(&r,1,2)?OPUS_APPLICATION_VOIP:OPUS_APPLICATION_AUDIO,&err);
  opus_encoder_ctl(e,VK_SET_FORCE_MODE_REQUEST,vc_chance(&r,3,4)?VK_MODE_SILK:VK_MODE_HYBRID); opus_encoder_ctl(e,OPUS_SET_BITRATE(vc_range(&r,6000,60000)*ch)); opus_encoder_ctl(e,OPUS_SET_COMPLEXITY(vc_below(&r,11))); if(vc_chance(&r,1,3)){ opus_encoder_ctl(e,OPUS_SET_INBAND_FEC(1)); opus_encoder_ctl(e,OPUS_SET_PACKET_LOSS_PERC(vc_range(&r,5,40))); }
  if(vc_chance(&r,1,2)) opus_encoder_ctl(e,OPUS_SET_BANDWIDTH(OPUS_BANDWIDTH_NARROWBAND+(int)vc_below(&r,3)));
  vc_siggen g; vs_init(&g,vc_below(&r,VS_NFINITE),Fs,ch,vc_chance(&r,1,4)?1.0f:(float)(0.01+0.8*vc_unit(&r)),vc_next(&r)); static float in[5760*2]; unsigned char pk[1500]; int fidx=vc_range(&r,2,8);
  if(vc_chance(&r,1,4)){ g.kind=VS_VOICED; g.f0= vc_chance(&r,1,2)?50+vc_unit(&r)*12:420+vc_unit(&r)*120; g.amp=0.5f; }   /* pitch gliding across the 18 ms / 2 ms lag limits */
  for(int k=0;k<30;k++){ if(vc_chance(&r,1,8)&&g.f0>=80&&g.f0<=400){ g.kind=vc_below(&r,VS_NFINITE); g.amp=vc_chance(&r,1,3)?1.0f:(float)(0.001+0.5*vc_unit(&r)); } if(vc_chance(&r,1,10)) opus_encoder_ctl(e,OPUS_SET_BITRATE(vc_range(&r,5000,80000)*ch)); int fs=vk_frame_samples(Fs,fidx); vs_fill(&g,in,fs); if(getenv("C18_DEBUG")) fprintf(stderr,"frame %d: Fs %d ch %d fs %d signal %s amp %.3f f7 %.0f\n",k,Fs,ch,fs,vs_names[g.kind],g.amp,g.f[7]); opus_encode_float(e,in,fs,pk,1500); }
  opus_encoder_destroy(e);
}

/* ---------------------------------------------------------------- gains */
static void mode_gains(void){
  opus_int32 G[64]; for(int i=0;i<64;i++){ opus_int8 ind[4]={(opus_int8)i,0,0,0}; opus_int8 pv=0; opus_int32 g[4]; silk_gains_dequant(g,ind,&pv,0,1); G[i]=g[0]; if(pv!=i){ vc_viol("gains:absolute-index","absolute index %d with previous 0 leaves previous index %d",i,pv); return; } if(i&&G[i]<=G[i-1]){ vc_viol("gains:not-monotone","gain(%d)=%d <= gain(%d)=%d",i,G[i],i-1,G[i-1]); return; } }
  vc_rng r; vc_case_rng(&r,20); long checked=0;
  for(int prev=0;prev<64;prev++) for(int cond=0;cond<2;cond++){ int nfirst=cond?41:64; for(int first=0;first<nfirst;first++) for(int nb=2;nb<=4;nb+=2){
      /* the remaining sub-frames: every delta for the second, extremes and random for the others */
      for(int d2=0;d2<41;d2++){ int reps=(d2==0||d2==40)?3:1; for(int rep=0;rep<reps;rep++){ opus_int8 ind[4]; ind[0]=(opus_int8)first; ind[1]=(opus_int8)d2; for(int k=2;k<4;k++) ind[k]=(opus_int8)(rep==0?vc_range(&r,0,40):rep==1?40:0);
          opus_int8 pv=(opus_int8)prev; opus_int32 g[4]={-1,-1,-1,-1}; silk_gains_dequant(g,ind,&pv,cond,nb); checked++;
          if(pv<0||pv>63){ vc_viol("gains:index-out-of-range","prev=%d cond=%d indices %d,%d,%d,%d over %d sub-frames leave previous index %d",prev,cond,ind[0],ind[1],ind[2],ind[3],nb,pv); return; }
          for(int k=0;k<nb;k++){ if(g[k]<G[0]||g[k]>G[63]){ vc_viol("gains:out-of-range","prev=%d cond=%d sub-frame %d: gain_Q16=%d outside [%d,%d]",prev,cond,k,g[k],G[0],G[63]); return; } int found=0; for(int i=0;i<64;i++) if(G[i]==g[k]) found=1; if(!found){ vc_viol("gains:off-grid","gain_Q16=%d is not a quantiser level",g[k]); return; } }
          if(g[nb-1]!=G[pv]){ vc_viol("gains:state-mismatch","last gain %d is not the level of the stored index %d",g[nb-1],pv); return; } } } } }
  vc_count("gain_chains_checked",checked);
  /* encoder side: quantise then dequantise from the same previous index gives the same gains and the same state */
  long q=0; for(int prev=0;prev<64;prev++) for(int cond=0;cond<2;cond++) for(int lvl=0;lvl<64;lvl++) for(int rep=0;rep<6;rep++){ opus_int32 gin[4],gq[4],gd[4]; opus_int8 ind[4]; int nb=(rep&1)?2:4;
      for(int k=0;k<4;k++){ int l= k==0?lvl: rep<2?lvl:(rep<4?vc_range(&r,0,63):(vc_chance(&r,1,2)?63:0)); long long base=G[l]; long long v= base+(long long)(base*(vc_unit(&r)-0.5)*0.12); if(k==1&&rep>=4) v=G[63]+vc_range(&r,0,1000000); if(v<1) v=1; if(v>2147483647LL) v=2147483647LL; gin[k]=(opus_int32)v; }
      memcpy(gq,gin,sizeof gq); opus_int8 pe=(opus_int8)prev, pd=(opus_int8)prev; silk_gains_quant(ind,gq,&pe,cond,nb); silk_gains_dequant(gd,ind,&pd,cond,nb); q++;
      for(int k=0;k<nb;k++) if(ind[k]<0||ind[k]>(k==0&&!cond?63:40)){ vc_viol("gains:quant-index-range","prev=%d cond=%d sub-frame %d: index %d",prev,cond,k,ind[k]); return; }
      if(pe!=pd||memcmp(gq,gd,sizeof(opus_int32)*nb)){ vc_viol("gains:quant-dequant-differ","prev=%d cond=%d nb=%d gains in %d,%d,%d,%d: encoder keeps index %d gains %d,%d,%d,%d; decoder reconstructs index %d gains %d,%d,%d,%d",prev,cond,nb,gin[0],gin[1],gin[2],gin[3],pe,gq[0],gq[1],gq[2],gq[3],pd,gd[0],gd[1],gd[2],gd[3]); return; }
      if(pe<0||pe>63){ vc_viol("gains:index-out-of-range","encoder previous index %d",pe); return; } }
  vc_count("gain_quant_roundtrips",q); vc_sig3(1,2,3); vc_sig3(4,5,6);
}

/* ---------------------------------------------------------------- pitch */
static void mode_pitch(void){
  static const int fss[3]={8,12,16}; int fs=fss[vc_case%3]; int nb=(vc_case/3)%2?2:4; if(vc_case>=6) return; int ncont= fs==8?(nb==4?PE_NB_CBKS_STAGE2_EXT:PE_NB_CBKS_STAGE2_10MS):(nb==4?PE_NB_CBKS_STAGE3_MAX:PE_NB_CBKS_STAGE3_10MS);
  long n=0; for(int lag=-32768;lag<=32767;lag++) for(int c=0;c<ncont;c++){ opus_int pl[6]={-99999,-99999,-99999,-99999,-99999,-99999}; silk_decode_pitch((opus_int16)lag,(opus_int8)c,pl,fs,nb); n++;
      for(int k=0;k<nb;k++) if(pl[k]<2*fs||pl[k]>18*fs){ vc_viol("pitch:out-of-range","fs=%d kHz nb_subfr=%d lagIndex=%d contour=%d: pitch lag[%d]=%d outside [%d,%d]",fs,nb,lag,c,k,pl[k],2*fs,18*fs); return; }
      if(pl[nb]!=-99999){ vc_viol("pitch:overrun","silk_decode_pitch wrote past nb_subfr entries"); return; } }
  vc_count("pitch_combinations",n); vc_sig3(fs,nb,ncont);
}

/* ---------------------------------------------------------------- hook (H2) */
static long hook_frames=0; static int hook_bad=0;
/* shadow of the interpolation reference: for every live SILK decoder state the monitor remembers the last quantised NLSF vector it was shown.
   (a) a frame that follows a frame of another LPC order (internal rate change) -- whatever concealment happened in between -- must not be
       interpolated with the old vector: both half-frame filters are the same;
   (b) a frame that is interpolated (factor < 4, no loss pending) must carry as first-half filter exactly silk_NLSF2A of the interpolation between the
       remembered vector and the new one */
#define SH_N 8
static struct { const void *d; int order; opus_int16 nlsf[16]; int valid; } sh_tab[SH_N];
static void sh_reset(void){ memset(sh_tab,0,sizeof sh_tab); }
static void sh_check(const silk_decoder_state *d,const silk_decoder_control *c,const opus_int16 *nlsf,const char *ctx){ int j=-1; for(int i=0;i<SH_N;i++) if(sh_tab[i].d==d){ j=i; break; } if(j<0){ for(int i=0;i<SH_N;i++) if(!sh_tab[i].d){ j=i; break; } if(j<0) return; sh_tab[j].d=d; sh_tab[j].valid=0; }
  int L=d->LPC_order; int same=!memcmp(c->PredCoef_Q12[0],c->PredCoef_Q12[1],sizeof(opus_int16)*L);
  if(sh_tab[j].valid&&sh_tab[j].order!=L){ vc_count("hook_frames_after_order_change",1); if(!same){ vc_viol("hook:interpolation-across-rate-change","%s: the previous decoded frame of this state had LPC order %d, this one %d, yet the first-half filter differs from the second-half filter (interpolation factor %d; a vector of another codebook was used as reference)",ctx,sh_tab[j].order,L,d->indices.NLSFInterpCoef_Q2); hook_bad=1; } }
  else if(sh_tab[j].valid&&d->indices.NLSFInterpCoef_Q2<4&&!d->first_frame_after_reset&&!d->lossCnt){ opus_int16 ip[16], a[16]; for(int i=0;i<L;i++) ip[i]=(opus_int16)(sh_tab[j].nlsf[i]+(((opus_int32)d->indices.NLSFInterpCoef_Q2*((opus_int32)nlsf[i]-sh_tab[j].nlsf[i]))>>2)); int ordered=1; for(int i=1;i<L;i++) if(ip[i]<=ip[i-1]) ordered=0; if(ip[0]<=0) ordered=0;
    if(!ordered){ vc_viol("hook:interpolated-nlsf-not-ordered","%s: interpolation factor %d between the previous and the current vector is not strictly increasing",ctx,d->indices.NLSFInterpCoef_Q2); hook_bad=1; }
    else { silk_NLSF2A(a,ip,L,d->arch); if(memcmp(a,c->PredCoef_Q12[0],sizeof(opus_int16)*L)){ vc_viol("hook:interpolated-filter-differs","%s: the first-half filter is not the one derived from the interpolation (factor %d) between the previous frame's vector and this frame's",ctx,d->indices.NLSFInterpCoef_Q2); hook_bad=1; } else vc_count("hook_interpolations_recomputed",1); } }
  sh_tab[j].order=L; memcpy(sh_tab[j].nlsf,nlsf,sizeof(opus_int16)*L); sh_tab[j].valid=1; }
static void params_cb(const silk_decoder_state *d,const silk_decoder_control *c,const opus_int16 *nlsf){ hook_frames++; if(hook_bad) return; char ctx[100]; snprintf(ctx,sizeof ctx,"live decoder (fs=%d kHz, nb_subfr=%d, order=%d, lossCnt=%d)",d->fs_kHz,d->nb_subfr,d->LPC_order,d->lossCnt);
  if(d->LPC_order!=10&&d->LPC_order!=16){ vc_viol("hook:lpc-order","%s",ctx); hook_bad=1; return; }
  if(check_nlsf(nlsf,d->psNLSF_CB,ctx)){ hook_bad=1; return; }
  if(check_lpc(c->PredCoef_Q12[0],d->LPC_order,"first-half LPC",ctx)||check_lpc(c->PredCoef_Q12[1],d->LPC_order,"second-half LPC",ctx)){ hook_bad=1; return; }
  if(d->LastGainIndex<0||d->LastGainIndex>63){ vc_viol("hook:gain-index","%s: LastGainIndex=%d",ctx,d->LastGainIndex); hook_bad=1; return; }
  static opus_int32 Glo=0,Ghi=0; if(!Glo){ opus_int8 i0[4]={0,0,0,0}, i63[4]={63,0,0,0}, pv=0; opus_int32 g[4]; silk_gains_dequant(g,i0,&pv,0,1); Glo=g[0]; pv=63; silk_gains_dequant(g,i63,&pv,0,1); Ghi=g[0]; }
  for(int k=0;k<d->nb_subfr;k++){ if(c->Gains_Q16[k]<Glo||c->Gains_Q16[k]>Ghi){ vc_viol("hook:gain-range","%s: Gains_Q16[%d]=%d",ctx,k,c->Gains_Q16[k]); hook_bad=1; return; } }
  if(d->indices.signalType==TYPE_VOICED){ for(int k=0;k<d->nb_subfr;k++) if(c->pitchL[k]<2*d->fs_kHz||c->pitchL[k]>18*d->fs_kHz){ vc_viol("hook:pitch-range","%s: pitchL[%d]=%d",ctx,k,c->pitchL[k]); hook_bad=1; return; } vc_count("hook_voiced_frames",1); }
  if(d->lossCnt) vc_count("hook_frames_after_loss",1); if(d->indices.NLSFInterpCoef_Q2<4) vc_count("hook_interpolated_frames",1); sh_check(d,c,nlsf,ctx); }
static void mode_hook(void){
  if(!&opus_verif_silk_params_cb){ fprintf(stderr,"hook H2 (opus_verif_silk_params_cb) is missing from this tree\n"); exit(3); }
  opus_verif_silk_params_cb=params_cb; sh_reset(); vk_pool_init(); vc_rng r; vc_case_rng(&r,21); int err; static float out[5760*2]; static unsigned char hb[2200];
  int Fs=VC_PICK(&r,vk_rates), ch=1+vc_below(&r,2); OpusDecoder *d=opus_decoder_create(Fs,ch,&err); long before=hook_frames;
  for(int t=0;t<40;t++){ int kind=vc_below(&r,7); int len; const unsigned char *p;
    if(kind==6){ /* the usual recovery sequence at a stream (and often internal-rate) change: packet k-1 lost, recovered by an FEC call on packet k, then k, k+1 decoded */
      vk_stream *st=&vk_pool[vc_below(&r,vk_pool_n)]; if(st->n<3) continue; int k=vc_below(&r,st->n-2); int fsz=opus_packet_get_nb_samples(st->pkt[k],st->len[k],Fs); if(fsz<=0) continue;
      if(vc_chance(&r,1,2)) opus_decode_float(d,st->pkt[k],st->len[k],out,fsz,1); else opus_decode_float(d,NULL,0,out,fsz,0); for(int q=0;q<2&&!hook_bad;q++) opus_decode_float(d,st->pkt[k+q],st->len[k+q],out,5760,0); vc_count("hook_recovery_sequences",1); if(hook_bad) break; continue; }
    if(kind<2){ vk_stream *st=&vk_pool[vc_below(&r,vk_pool_n)]; int k=vc_below(&r,st->n); memcpy(hb,st->pkt[k],st->len[k]); len=st->len[k]; if(kind==1) len=vk_mutate(&r,hb,len,2000); p=hb; }
    else if(kind==2){ p=NULL; len=0; }
    else { len=vk_hostile(&r,hb,1500,0); if(len>0) hb[0]=(unsigned char)((vc_below(&r,16)<<3)|(hb[0]&7)); /* SILK / hybrid configurations */ p=hb; }
    unsigned char *q=p?vc_exact_copy(p,len):NULL; opus_decode_float(d,q,len,out,p?5760:Fs/50,vc_chance(&r,1,10)&&p); free(q); if(hook_bad) break; }
  opus_decoder_destroy(d); vc_count("hook_silk_frames_observed",hook_frames-before); vc_sig3(Fs,ch,(uint64_t)((hook_frames-before)>0)); vc_sig3(hook_frames&1023,1,2);
}

/* ---------------------------------------------------------------- lockstep: after every packet of a loss-free stream the SILK encoder and the SILK decoder hold
   the same quantised side information.  Both keep it for conditional coding of the next frame: the last gain index and the last quantised NLSF vector of
   every channel coded in the packet's final 20 ms frame (read from the live objects: the SILK states sit at the offset stored in the second int of the
   Opus encoder / decoder). */
static int ls_last_frame[2]; static const void *ls_base=NULL; static int ls_nfr=0;
static void ls_cb(const silk_decoder_state *d,const silk_decoder_control *c,const opus_int16 *nlsf){ (void)c; (void)nlsf; if(!ls_base) return; int n=(int)(d-(const silk_decoder_state*)ls_base); if(n<0||n>1) return; ls_last_frame[n]=d->nFramesDecoded; ls_nfr=d->nFramesPerPacket; }
static void mode_lockstep(void){
  if(!&opus_verif_silk_params_cb){ fprintf(stderr,"hook H2 (opus_verif_silk_params_cb) is missing from this tree\n"); exit(3); }
  vc_rng r; vc_case_rng(&r,33); int err; int Fs=VC_PICK(&r,vk_rates), ch=vc_chance(&r,3,4)?2:1; OpusEncoder *e=opus_encoder_create(Fs,ch,vc_chance(&r,1,2)?OPUS_APPLICATION_VOIP:OPUS_APPLICATION_AUDIO,&err); OpusDecoder *d=opus_decoder_create(Fs,ch,&err);
  opus_encoder_ctl(e,VK_SET_FORCE_MODE_REQUEST,VK_MODE_SILK); int per=vc_range(&r,7000,40000); opus_encoder_ctl(e,OPUS_SET_BITRATE(per*ch)); opus_encoder_ctl(e,OPUS_SET_COMPLEXITY(vc_below(&r,11))); if(vc_chance(&r,1,3)){ opus_encoder_ctl(e,OPUS_SET_INBAND_FEC(1)); opus_encoder_ctl(e,OPUS_SET_PACKET_LOSS_PERC(vc_range(&r,5,40))); }
  if(vc_chance(&r,1,2)) opus_encoder_ctl(e,OPUS_SET_BANDWIDTH(OPUS_BANDWIDTH_NARROWBAND+(int)vc_below(&r,3))); if(ch==2&&vc_chance(&r,1,3)) opus_encoder_ctl(e,OPUS_SET_FORCE_CHANNELS(2));
  if(vc_chance(&r,1,3)){ opus_encoder_ctl(e,OPUS_SET_VBR(0)); vc_count("lockstep_cbr_streams",1); }   /* hard CBR: the rate loop re-quantises the gains several times per frame */
  silk_encoder *se=(silk_encoder*)((char*)e+((int*)e)[1]); silk_decoder_state *sd=(silk_decoder_state*)((char*)d+((int*)d)[1]);
  vc_siggen g; vs_init(&g,vc_chance(&r,1,2)?VS_SPEECHLIKE:(int)vc_below(&r,VS_NFINITE),Fs,ch,(float)(0.05+0.7*vc_unit(&r)),vc_next(&r)); static float in[5760*2], out[5760*2]; unsigned char pk[1500]; int fidx=vc_chance(&r,1,2)?vc_range(&r,4,5):vc_range(&r,2,8); double mono=vc_chance(&r,1,2)?vc_unit(&r):0;   /* how close to mono the stereo input is (mid-only frames) */
  opus_verif_silk_params_cb=ls_cb; ls_base=sd;
  for(int k=0;k<40;k++){ if(vc_chance(&r,1,6)) opus_encoder_ctl(e,OPUS_SET_BITRATE(vc_range(&r,6000,40000)*ch)); if(vc_chance(&r,1,10)) fidx=vc_range(&r,2,8); if(vc_chance(&r,1,8)) mono=vc_chance(&r,1,2)?vc_unit(&r):0;
    int fs=vk_frame_samples(Fs,fidx); vs_fill(&g,in,fs); if(ch==2&&mono>0) for(int i=0;i<fs;i++){ float m=0.5f*(in[2*i]+in[2*i+1]); in[2*i]=(float)(mono*m+(1-mono)*in[2*i]); in[2*i+1]=(float)(mono*m+(1-mono)*in[2*i+1]); }
    int len=opus_encode_float(e,in,fs,pk,1500); if(len<=0){ vc_viol("lockstep:encode","%d",len); break; } if(len<=2||(pk[0]&0x80)) continue;   /* DTX / no SILK data */
    ls_last_frame[0]=ls_last_frame[1]=-1; ls_nfr=0; int rc=opus_decode_float(d,pk,len,out,5760,0); if(rc<=0){ vc_viol("lockstep:decode","%d",rc); break; } vc_count("lockstep_packets",1);
    if(pk[0]&3){ vc_count("lockstep_multi_frame_opus_packets",1); continue; }   /* 80/100/120 ms: several SILK packets; only the state after the last one could be compared */
    for(int n=0;n<2;n++){ if(ls_last_frame[n]<0||ls_last_frame[n]!=ls_nfr-1) continue;   /* channel not coded in the packet's last 20 ms frame */
      int ge=se->state_Fxx[n].sShape.LastGainIndex, gd=sd[n].LastGainIndex; vc_count(n?"lockstep_side_channel_compared":"lockstep_mid_channel_compared",1);
      if(ge!=gd){ vc_viol("lockstep:gain-index","packet %d (toc %02x, %d SILK frames), channel %d: the encoder's last gain index is %d, the decoder's %d",k,pk[0],ls_nfr,n,ge,gd); goto out; }
      if(memcmp(se->state_Fxx[n].sCmn.prev_NLSFq_Q15,sd[n].prevNLSF_Q15,sizeof(opus_int16)*sd[n].LPC_order)){ vc_viol("lockstep:nlsf","packet %d (toc %02x), channel %d: the encoder's last quantised NLSF vector differs from the decoder's",k,pk[0],n); goto out; } }
    vc_sig3((uint64_t)(pk[0]>>2),(uint64_t)(ls_last_frame[1]>=0)|((uint64_t)ls_nfr<<1),(uint64_t)(Fs/8000)); }
out:
  opus_verif_silk_params_cb=NULL; ls_base=NULL; opus_encoder_destroy(e); opus_decoder_destroy(d);
}

int main(int argc,char **argv){
  static const vc_mode_t modes[]={{"nlsf",mode_nlsf},{"nlsfenc",mode_nlsfenc},{"gains",mode_gains},{"pitch",mode_pitch},{"hook",mode_hook},{"lockstep",mode_lockstep},{0,0}};
  return vc_main(argc,argv,"C18",modes);
}
