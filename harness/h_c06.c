/* C06 -- packet parser accepts exactly RFC 6716 framing and reports the true frames.
 * Differential monitor: real opus_packet_parse / opus_packet_parse_impl / header helpers / opus_decode
 * versus the independent RFC model in oracles/rfc_framing.h.   Modes:
 *   sweep   bounded exhaustive header sweep; case index = (TOC byte, framing)          [512 cases]
 *   random  structure-aware + raw random byte strings
 *   helpers every TOC x rate for the header helpers                                       [1 case]
 */
#include "opus.h"
#include "opus_private.h"
#include "vcommon.h"
#include "rfc_framing.h"

static long ncalls=0, naccept=0;
static int LMAX=400;

/* exact-size block so the parser cannot read past len unnoticed (ASan red zone) */
static unsigned char *blk; static int blk_cap=0;

static void check_one(const unsigned char *src,int len,int sd,int light){
  /* the packet is placed so that it ends on the last byte of a heap block: any over-read hits ASan's red zone */
  if(!blk||len>blk_cap){ free(blk); blk_cap=len>70016?len:70016; blk=(unsigned char*)malloc(blk_cap); }
  unsigned char *b=blk+blk_cap-len; if(len>0) memmove(b,src,len);
  rfc_pkt m; rfc_parse(b,len,sd,&m);
  unsigned char toc=0xEE; const unsigned char *frames[48]; opus_int16 size[48]; int po=-7; opus_int32 pko=-7; const unsigned char *padp=NULL; opus_int32 padl=-7;
  for(int i=0;i<48;i++){ frames[i]=NULL; size[i]=-777; }
  int r=opus_packet_parse_impl(b,len,sd,&toc,frames,size,&po,&pko,&padp,&padl);
  ncalls++;
  if(m.valid){
    naccept++;
    if(r!=m.count){ char hx[80]; vc_hex(hx,sizeof hx,b,len<32?len:32); vc_viol("parse_impl:accept-mismatch","model accepts count=%d, parser returned %d; sd=%d len=%d head=%s",m.count,r,sd,len,hx); goto done; }
    int bad=0;
    if(toc!=m.toc) bad|=1;
    if(po!=m.payload_offset) bad|=2;
    if(pko!=m.consumed) bad|=4;
    if(padl!=m.pad) bad|=8;
    if(padp!=b+m.padding_off) bad|=16;
    for(int i=0;i<m.count;i++){ if(size[i]!=m.sizes[i]) bad|=32; if(frames[i]!=b+m.offsets[i]) bad|=64; if(frames[i]<b||frames[i]+size[i]>b+len) bad|=128; }
    if(padp<b||padp+padl>b+len) bad|=256;
    if(bad){ char hx[80]; vc_hex(hx,sizeof hx,b,len<32?len:32); vc_viol("parse_impl:field-mismatch","fields differ from RFC model mask=0x%x sd=%d len=%d count=%d po=%d/%d pko=%d/%d pad=%d/%d head=%s",bad,sd,len,r,po,m.payload_offset,pko,m.consumed,padl,m.pad,hx); goto done; }
    vc_sig3((uint64_t)(b[0]&3)|(sd<<2)|((uint64_t)m.count<<3)|((uint64_t)(m.pad>0)<<9)|((uint64_t)m.cbr<<10), (uint64_t)(m.sizes[0]>=252)|((m.sizes[m.count-1]>=252)<<1)|((m.sizes[0]==0)<<2)|((m.sizes[0]==1275)<<3)|((m.pad>=254)<<4)|((m.payload_offset)<<5), rfc_dur48(b[0]));
  } else {
    if(r>=0||(r!=OPUS_INVALID_PACKET)){ char hx[80]; vc_hex(hx,sizeof hx,b,len<32?len:32); vc_viol("parse_impl:reject-mismatch","model rejects, parser returned %d; sd=%d len=%d head=%s",r,sd,len,hx); goto done; }
    vc_sig3(0x1000|(len>0?(b[0]&3):9)|(sd<<2), len<3?len:3, len>0?rfc_dur48(b[0]):0);
  }
  if(!sd && !light){
    /* public opus_packet_parse must agree with the impl in standard framing */
    unsigned char toc2=0; const unsigned char *fr2[48]; opus_int16 sz2[48]; int po2=-1;
    int r2=opus_packet_parse(b,len,&toc2,fr2,sz2,&po2);
    if(r2!=r) vc_viol("parse:differs-from-impl","opus_packet_parse=%d impl=%d len=%d",r2,r,len);
    else if(r>0){ if(toc2!=toc||po2!=po) vc_viol("parse:differs-from-impl","toc/payload_offset differ len=%d",len); for(int i=0;i<r;i++) if(fr2[i]!=frames[i]||sz2[i]!=size[i]){ vc_viol("parse:differs-from-impl","frame %d differs len=%d",i,len); break; } }
    /* NULL optional outputs are legal */
    int r3=opus_packet_parse(b,len,NULL,NULL,sz2,NULL); if(r3!=r) vc_viol("parse:null-outs","with NULL outs returned %d vs %d",r3,r);
    if(len>=1){
      int nf=opus_packet_get_nb_frames(b,len);
      /* nb_frames only reads TOC (+count byte): documented to return count or INVALID_PACKET for len<2 with code 3 */
      int exp_nf; { int code=b[0]&3; exp_nf= code==0?1: code!=3?2: (len<2?OPUS_INVALID_PACKET:(b[1]&63)); }
      if(nf!=exp_nf) vc_viol("helpers:nb_frames","get_nb_frames=%d expected %d toc=%02x len=%d",nf,exp_nf,b[0],len);
      if(m.valid){ static const int rates[5]={8000,12000,16000,24000,48000}; for(int k=0;k<5;k++){ int ns=opus_packet_get_nb_samples(b,len,rates[k]); int e=m.count*rfc_spf(b[0],rates[k]); if(ns!=e) vc_viol("helpers:nb_samples","get_nb_samples=%d expected %d Fs=%d",ns,e,rates[k]); } }
    }
  }
done:
  return;
}

/* --- decoder acceptance == model acceptance (standard framing) --- */
static OpusDecoder *dec48;
static void check_decode_accept(const unsigned char *src,int len){
  if(!dec48){ int err; dec48=opus_decoder_create(48000,2,&err); }
  if(len<1) return;
  unsigned char *b=vc_exact_copy(src,len); rfc_pkt m; rfc_parse(b,len,0,&m);
  static float out[5760*2];
  opus_decoder_ctl(dec48,OPUS_RESET_STATE);
  int r=opus_decode_float(dec48,b,len,out,5760,0);
  if(m.valid){ int e=m.count*rfc_dur48(b[0]); if(r!=e) vc_viol("decode:accept-mismatch","model-valid packet: decode returned %d expected %d len=%d toc=%02x",r,e,len,b[0]); else vc_count("decode_accept",1); }
  else { if(r!=OPUS_INVALID_PACKET) vc_viol("decode:reject-mismatch","model-invalid packet: decode returned %d len=%d toc=%02x",r,len,b[0]); else vc_count("decode_reject",1); }
  free(b);
}

static const unsigned char cls9[9]={0,1,2,250,251,252,253,254,255};
static const unsigned char cls5[5]={0,1,251,252,255};

static void mode_sweep(void){
  int toc=(int)(vc_case&255), sd=(int)((vc_case>>8)&1);
  static unsigned char buf[4096];
  int lmax=(int)vc_argl("lmax",400); LMAX=lmax;
  int code=toc&3;
  if(code!=3){
    static const unsigned char fill[2]={0x00,0xFF};
    for(int a=0;a<9;a++)for(int b=0;b<9;b++)for(int c=0;c<9;c++)for(int f=0;f<2;f++){
      memset(buf,fill[f],lmax+8); buf[0]=toc; buf[1]=cls9[a]; buf[2]=cls9[b]; buf[3]=cls9[c];
      for(int len=0;len<=lmax;len++) check_one(buf,len,sd,len>8);
      /* frame-size boundary region, always */
      for(int len=1270;len<=1290;len++) check_one(buf,len,sd,1);
      for(int len=2548;len<=2560;len++) check_one(buf,len,sd,1);
    }
  } else {
    static const unsigned char pads[10][3]={{0,0,0},{1,0,0},{2,0,0},{253,0,0},{254,0,0},{255,0,0},{255,1,0},{255,254,0},{255,255,0},{255,255,3}};
    static const int padn[10]={1,1,1,1,1,2,2,2,3,3};
    static const unsigned char fill[2]={0x00,0xFF};
    int lens[260]; int nl=0; int full=lmax>=1000;
    for(int cb=0;cb<256;cb++){
      int P=(cb&64)!=0; int np=P?10:1;
      for(int pi=0;pi<np;pi++)for(int a=0;a<5;a++)for(int b=0;b<5;b++)for(int f=0;f<2;f++){
        memset(buf,fill[f],2600); buf[0]=toc; buf[1]=cb; int pos=2; int padsum=0;
        if(P){ for(int k=0;k<padn[pi];k++){ buf[pos++]=pads[pi][k]; padsum+=pads[pi][k]==255?254:pads[pi][k]; } }
        buf[pos]=cls5[a]; buf[pos+1]=cls5[b];
        if(full){ for(int len=0;len<=lmax;len++) check_one(buf,len,sd,len>8); }
        else { nl=0; for(int len=0;len<=24;len++) lens[nl++]=len; for(int d=-3;d<=6;d++){ int base[6]={pos+padsum,pos+padsum+251,pos+padsum+252*((cb&63)?(cb&63):1),pos+padsum+(cb&63),300,400}; for(int q=0;q<6;q++){ int L=base[q]+d; if(L>24&&L<2500) lens[nl++]=L; } }
          for(int i=0;i<nl;i++) check_one(buf,lens[i],sd,lens[i]>8); }
      }
    }
  }
  vc_count("parser_calls",ncalls); vc_count("accepted",naccept); ncalls=naccept=0;
}

/* structure-aware random strings */
static int gen_packet(vc_rng *r,unsigned char *b,int cap){
  int kind=vc_below(r,10); int len;
  if(kind==0){ len=vc_below(r,vc_chance(r,1,4)?1600:40); for(int i=0;i<len;i++) b[i]=vc_u32(r); return len; }
  int toc=vc_u32(r)&0xFF; int code=vc_below(r,4); toc=(toc&0xFC)|code; int pos=0; b[pos++]=toc;
  int M=code==0?1:code<3?2:vc_range(r,0,vc_chance(r,1,3)?63:5760/rfc_dur48(toc)+1); int vbr=code==2; int P=0; int pad=0;
  if(code==3){ vbr=vc_u32(r)&1; P=vc_chance(r,1,2); b[pos++]=(M&63)|(vbr<<7)|(P<<6);
    if(P){ int n255=vc_chance(r,1,4)?vc_range(r,1,4):0; for(int i=0;i<n255;i++){ b[pos++]=255; pad+=254; } int last=vc_chance(r,1,4)?254:vc_below(r,255); b[pos++]=last; pad+=last; } }
  int sizes[64]; int tot=0; static const int bs[12]={0,1,2,3,10,100,250,251,252,253,500,1275};
  for(int i=0;i<M;i++){ sizes[i]=vc_chance(r,1,2)?bs[vc_below(r,12)]:vc_below(r,vc_chance(r,1,8)?1276:300); if(code!=2&&!vbr) sizes[i]=sizes[0]; tot+=sizes[i]; }
  int sd=0; /* caller decides framing; we write VBR lengths for M-1 and optionally (randomly) one more */
  int nlen=vbr?(M>0?M-1:0):0; if(vc_chance(r,1,2)) { nlen+=1; sd=1; }
  for(int i=0;i<nlen&&pos<cap-4;i++){ int s=(vbr||i>0)?sizes[i<M?i:0]:sizes[0]; if(!vbr) s=sizes[0]; if(s<252) b[pos++]=s; else { b[pos]=252+(s&3); b[pos+1]=(s-b[pos])>>2; pos+=2; } }
  int body=tot+pad+vc_range(r,-2,2)*(vc_chance(r,1,3)); if(body<0) body=0; if(pos+body>cap) body=cap-pos;
  for(int i=0;i<body;i++) b[pos+i]=vc_u32(r); pos+=body;
  if(vc_chance(r,1,10)&&pos>1) pos-=vc_below(r,pos<6?pos:6);
  (void)sd; return pos;
}

/* very long byte strings (up to ~400 kB): frame sizes and paddings beyond what a 16-bit field holds, where a value that was narrowed before it was
   checked, or a sum that wrapped, would accept a string the RFC rules reject (or the reverse).  Filled with zeros: only the header matters. */
static int gen_huge(vc_rng *r,unsigned char *b,int cap){ static const int big[]={1275,1276,1277,2550,2551,32766,32767,32768,32769,65534,65535,65536,65537,65538,66000,66811,98304,131071,131072,131073,132347,196608}; int f=VC_PICK(r,big); if(vc_chance(r,1,3)) f=65536*vc_range(r,1,2)+vc_range(r,0,1280); int code=vc_below(r,4); int toc=(vc_below(r,32)<<3)|(vc_below(r,2)<<2)|code; int n=0; memset(b,0,cap); b[n++]=(unsigned char)toc;
  if(code==0){ n+=f; }
  else if(code==1){ n+=2*f+(vc_chance(r,1,4)?1:0); }
  else if(code==2){ int l1=vc_chance(r,1,2)?vc_range(r,0,251):vc_range(r,252,1275); if(l1<252) b[n++]=(unsigned char)l1; else { b[n++]=(unsigned char)(252+(l1&3)); b[n++]=(unsigned char)((l1-(252+(l1&3)))>>2); } n+=l1+f; }
  else { int M=vc_chance(r,1,2)?vc_range(r,1,6):vc_range(r,1,48); int vbr=vc_below(r,2), pad=vc_chance(r,2,3); b[n++]=(unsigned char)(M|(vbr<<7)|(pad<<6)); int P=0; if(pad){ P=vc_chance(r,1,2)?f:vc_range(r,0,70000); int q=P; while(q>=254&&n<cap-8){ b[n++]=255; q-=254; } b[n++]=(unsigned char)q; }
    int fl=vc_chance(r,1,2)?vc_range(r,0,1275):(pad?vc_range(r,0,1275):f); if(vbr){ for(int i=0;i<M-1;i++){ int l=vc_chance(r,1,2)?fl:vc_range(r,0,1275); if(l>1275) l=1275; if(l<252) b[n++]=(unsigned char)l; else { b[n++]=(unsigned char)(252+(l&3)); b[n++]=(unsigned char)((l-(252+(l&3)))>>2); } n+=l; } n+=fl; } else n+=M*fl+(vc_chance(r,1,6)?1:0); n+=P; }
  if(n>cap) n=cap; return n; }
static void mode_random(void){
  vc_rng r; vc_case_rng(&r,6); static unsigned char b[70000];
  { static unsigned char *hb=NULL; const int hcap=420000; if(!hb) hb=(unsigned char*)malloc(hcap); int hl=gen_huge(&r,hb,hcap); check_one(hb,hl,0,0); check_one(hb,hl,1,0); if(vc_chance(&r,1,4)) check_decode_accept(hb,hl); vc_count("huge_strings",1); }
  for(int it=0;it<64;it++){
    int len=gen_packet(&r,b,69000);
    check_one(b,len,0,0); check_one(b,len,1,0);
    if(it<8) check_decode_accept(b,len);
    if(it==0&&vc_want_sample()){ char hx[100]; vc_hex(hx,sizeof hx,b,len<40?len:40); rfc_pkt m; rfc_parse(b,len,0,&m); vc_sample("{\"mode\":\"random\",\"len\":%d,\"head\":\"%s\",\"model_valid_std\":%d,\"count\":%d}",len,hx,m.valid,m.count); }
  }
  vc_count("parser_calls",ncalls); vc_count("accepted",naccept); ncalls=naccept=0;
}

static void mode_helpers(void){
  static const int rates[5]={8000,12000,16000,24000,48000};
  for(int toc=0;toc<256;toc++){
    unsigned char p[2]={(unsigned char)toc,0};
    int bw=opus_packet_get_bandwidth(p); int ebw=OPUS_BANDWIDTH_NARROWBAND+rfc_bandwidth(toc);
    if(bw!=ebw) vc_viol("helpers:bandwidth","toc=%02x got %d expected %d",toc,bw,ebw);
    int ch=opus_packet_get_nb_channels(p); if(ch!=rfc_channels(toc)) vc_viol("helpers:channels","toc=%02x got %d",toc,ch);
    for(int k=0;k<5;k++){ int s=opus_packet_get_samples_per_frame(p,rates[k]); if(s!=rfc_spf(toc,rates[k])) vc_viol("helpers:samples_per_frame","toc=%02x Fs=%d got %d expected %d",toc,rates[k],s,rfc_spf(toc,rates[k])); vc_sig3(toc,k,3); }
    /* opus_decoder_get_nb_samples uses the decoder's rate */
    for(int k=0;k<5;k++){ int err; OpusDecoder *d=opus_decoder_create(rates[k],1,&err); unsigned char q[3]={(unsigned char)toc,2,0}; int len=(toc&3)==3?2:((toc&3)==1?3:((toc&3)==2?2:1)); rfc_pkt m; rfc_parse(q,len,0,&m); int ns=opus_decoder_get_nb_samples(d,q,len); if(m.valid&&ns!=m.count*rfc_spf(toc,rates[k])) vc_viol("helpers:decoder_nb_samples","toc=%02x Fs=%d got %d",toc,rates[k],ns); opus_decoder_destroy(d); }
    /* LBRR flag position: only SILK/hybrid packets can have it; bit 6 (mono) of the first frame's first byte; has_lbrr on CELT is 0 */
    for(int fb=0;fb<256;fb+=1){ unsigned char q[2]={(unsigned char)(toc&0xFC),(unsigned char)fb}; int hl=opus_packet_has_lbrr(q,2); int mode=rfc_mode(toc); int e;
      if(mode==2) e=0; else { int nbf= rfc_dur48(toc)<=960?1:rfc_dur48(toc)/960; /* SILK frames per Opus frame */ int lbrrbit=(fb>>(7-nbf))&1; e=lbrrbit; if(toc&4){ /* stereo: mid flags then side flags */ int sidebit=(fb>>(6-2*nbf))&1; e=lbrrbit||( (6-2*nbf)>=0 ? sidebit:0); if((6-2*nbf)<0) continue; } }
      if(hl!=e) { vc_viol("helpers:has_lbrr","toc=%02x first=%02x got %d expected %d",toc&0xFC,fb,hl,e); break; } }
  }
  /* total samples: a pure function of TOC, count byte and rate: count x samples-per-frame, refused beyond 120 ms (RFC 6716 R5) -- every TOC x count byte x rate */
  for(int toc=0;toc<256;toc++) for(int cb=0;cb<256;cb++) for(int k=0;k<5;k++){ unsigned char q[2]={(unsigned char)toc,(unsigned char)cb}; int code=toc&3; int cnt=code==0?1:code<3?2:(cb&63); long tot=(long)cnt*rfc_spf(toc,rates[k]); int e= tot*25>(long)rates[k]*3?OPUS_INVALID_PACKET:(int)tot; int ns=opus_packet_get_nb_samples(q,2,rates[k]);
      if(ns!=e){ vc_viol("helpers:nb_samples","toc=%02x count byte %02x Fs=%d: get_nb_samples=%d expected %d (%d frames)",toc,cb,rates[k],ns,e,cnt); goto argval; } if(code==3){ int e1=opus_packet_get_nb_samples(q,1,rates[k]); if(e1!=OPUS_INVALID_PACKET){ vc_viol("helpers:nb_samples","code 3 TOC with len 1 returned %d",e1); goto argval; } } vc_count("nb_samples_header_combinations",1); }
argval:
  /* argument validation */
  { opus_int16 sz[48]; unsigned char x[4]={0,0,0,0}; if(opus_packet_parse_impl(x,-1,0,NULL,NULL,sz,NULL,NULL,NULL,NULL)!=OPUS_BAD_ARG) vc_viol("parse_impl:badarg","len<0 not BAD_ARG"); if(opus_packet_parse_impl(x,4,0,NULL,NULL,NULL,NULL,NULL,NULL,NULL)!=OPUS_BAD_ARG) vc_viol("parse_impl:badarg","size==NULL not BAD_ARG"); if(opus_packet_parse_impl(x,0,0,NULL,NULL,sz,NULL,NULL,NULL,NULL)!=OPUS_INVALID_PACKET) vc_viol("parse_impl:badarg","len==0 not INVALID_PACKET"); }
}

int main(int argc,char **argv){
  static const vc_mode_t modes[]={{"sweep",mode_sweep},{"random",mode_random},{"helpers",mode_helpers},{0,0}};
  return vc_main(argc,argv,"C06",modes);
}
