/* C05 -- encoder honours the buffer limit, exact CBR size and the bitrate target.
 * Executable byte-count model (written from the property text) next to the real encoder under
 * ASan/UBSan with guarded output buffers; rate history checker for constrained VBR.   Modes:
 *   cbr     single-stream: histories toggling VBR/CBR/bitrate between frames, every packet checked
 *   cbrms   multistream / surround / projection in CBR
 *   cvbr    long constrained-VBR streams, sliding-window average rate
 */
#include "vcodec.h"

static int clampi(long long v,int lo,int hi){ return v<lo?lo:(v>hi?hi:(int)v); }
/* the harness's own record of the documented bitrate resolution */
static long long eff_bitrate(int user,int Fs,int fs,int ch,int maxb){ int maxd=maxb<1276?maxb:1276; if(user==OPUS_AUTO) return 60LL*Fs/fs+(long long)Fs*ch; if(user==OPUS_BITRATE_MAX) return (long long)maxd*8*Fs/fs; return user; }
static int user_clamp(int v,int ch){ if(v==OPUS_AUTO||v==OPUS_BITRATE_MAX) return v; if(v<=500) return 500; if(v>300000*ch) return 300000*ch; return v; }
/* round(b*fs/(8*Fs)) computed exactly in integers */
static long long cbr_round(long long b,int Fs,int fs){ long long num=b*fs, den=8LL*Fs; return (2*num+den)/(2*den); }

static void mode_cbr(void){
  vc_rng r; vc_case_rng(&r,5); int err; int Fs=VC_PICK(&r,vk_rates), ch=1+vc_below(&r,2), app=VC_PICK(&r,vk_apps);
  OpusEncoder *e=opus_encoder_create(Fs,ch,app,&err); OpusDecoder *d=opus_decoder_create(Fs,ch,&err);
  int user_br=OPUS_AUTO, vbr=1; int nframes=vc_range(&r,10,40); vc_siggen g; int sk=vc_below(&r,VS_NFINITE); vs_init(&g,sk,Fs,ch,(float)(0.05+0.9*vc_unit(&r)),vc_next(&r));
  static float f[5760*2], out[5760*2]; int fidx=vc_below(&r,9); int maxb=1500; char hist[400]; int ho=0; hist[0]=0;
  if(vc_chance(&r,1,2)) opus_encoder_ctl(e,OPUS_SET_DTX(1));
  if(vc_chance(&r,2,3)){ opus_encoder_ctl(e,OPUS_SET_VBR(0)); vbr=0; }
  for(int k=0;k<nframes;k++){
    if(vc_chance(&r,1,3)){ int v; int c=vc_below(&r,10); v= c==0?OPUS_BITRATE_MAX: c==1?OPUS_AUTO: c==2?vc_range(&r,1,3000): c<6?vc_range(&r,500,64000): vc_range(&r,500,512000); if(opus_encoder_ctl(e,OPUS_SET_BITRATE(v))==OPUS_OK) user_br=user_clamp(v,ch); if(ho<360) ho+=snprintf(hist+ho,sizeof hist-ho,"br=%d ",v); }
    if(vc_chance(&r,1,6)){ vbr=vc_chance(&r,1,4); opus_encoder_ctl(e,OPUS_SET_VBR(vbr)); if(ho<360) ho+=snprintf(hist+ho,sizeof hist-ho,"vbr=%d ",vbr); }
    if(vc_chance(&r,1,8)){ char w[40]; vk_encset s; vk_encset_default(&s,app); /* other settings must not matter */ int q=vc_below(&r,5); if(q==0) opus_encoder_ctl(e,OPUS_SET_COMPLEXITY(vc_below(&r,11))); else if(q==1) opus_encoder_ctl(e,OPUS_SET_BANDWIDTH(vc_chance(&r,1,2)?OPUS_AUTO:OPUS_BANDWIDTH_NARROWBAND+(int)vc_below(&r,5))); else if(q==2) opus_encoder_ctl(e,VK_SET_FORCE_MODE_REQUEST,vc_chance(&r,1,3)?OPUS_AUTO:VK_MODE_SILK+(int)vc_below(&r,3)); else if(q==3){ opus_encoder_ctl(e,OPUS_SET_INBAND_FEC(vc_below(&r,3))); opus_encoder_ctl(e,OPUS_SET_PACKET_LOSS_PERC(vc_below(&r,40))); } else opus_encoder_ctl(e,OPUS_SET_FORCE_CHANNELS(vc_chance(&r,1,2)?OPUS_AUTO:1+(int)vc_below(&r,ch))); (void)w; }
    if(vc_chance(&r,1,3)) fidx=vc_below(&r,9); if(vc_chance(&r,1,2)) maxb= vc_chance(&r,1,2)?vc_range(&r,1,64):(vc_chance(&r,1,3)?vc_range(&r,1268,1282):vc_range(&r,1,4000));
    if(vc_chance(&r,1,10)) g.kind=vc_below(&r,VS_NFINITE);
    int fs=vk_frame_samples(Fs,fidx); vs_fill(&g,f,fs);
    vc_gbuf pk=vc_galloc(maxb); memset(pk.p,0xEE,maxb);
    int len=opus_encode_float(e,f,fs,pk.p,maxb); vc_count("encode_calls",1);
    int cz=vc_gcheck(&pk); if(cz) vc_viol("write:outside-buffer","canary %d damaged: maxb=%d ret=%d Fs=%d fs=%d",cz,maxb,len,Fs,fs);
    opus_int32 in_dtx=0; opus_encoder_ctl(e,OPUS_GET_IN_DTX(&in_dtx));
    if(len<0){ if(len==OPUS_BUFFER_TOO_SMALL&&maxb<3) vc_count("buffer_too_small",1); else vc_viol("encode:failed","returned %d (maxb=%d fs=%d Fs=%d vbr=%d br=%d hist=%s)",len,maxb,fs,Fs,vbr,user_br,hist); vc_gfree(&pk); continue; }
    if(len<1||len>maxb){ vc_viol("length:out-of-range","returned %d with max_data_bytes=%d",len,maxb); vc_gfree(&pk); continue; }
    unsigned char *p=vc_exact_copy(pk.p,len); rfc_pkt m; rfc_parse(p,len,0,&m);
    if(!m.valid) vc_viol("packet:corrupt","packet rejected by RFC model: len=%d maxb=%d toc=%02x vbr=%d",len,maxb,p[0],vbr);
    else { if(m.count*rfc_spf(p[0],Fs)!=fs) vc_viol("packet:duration","announces %d, submitted %d",m.count*rfc_spf(p[0],Fs),fs);
      opus_uint32 er=0,dr=0; opus_encoder_ctl(e,OPUS_GET_FINAL_RANGE(&er)); int rd=opus_decode_float(d,p,len,out,5760,0); opus_decoder_ctl(d,OPUS_GET_FINAL_RANGE(&dr)); if(rd!=fs) vc_viol("packet:decode-duration","decoder returned %d for %d",rd,fs); else if(er!=dr) vc_viol("packet:range-mismatch","enc %08x dec %08x len=%d maxb=%d",er,dr,len,maxb); }
    if(!vbr){
      int maxd=maxb<1276?maxb:1276; long long b=eff_bitrate(user_br,Fs,fs,ch,maxb); int expect=clampi(cbr_round(b,Fs,fs),1,maxd);
      int isdtx=(len<=2&&in_dtx);
      if(isdtx) vc_count("dtx_packets_exempt",1);
      else if(user_br==OPUS_BITRATE_MAX){ /* fills the buffer: up to 1276 for a single frame; a multi-frame packet fills max_data_bytes */
        if(!(m.valid&&m.count>1?len==maxb:len==expect)) vc_viol("cbr:max-not-filled","BITRATE_MAX CBR len=%d maxb=%d frames=%d (Fs=%d fs=%d)",len,maxb,m.valid?m.count:-1,Fs,fs); else { vc_count("cbr_max_checked",1); if(m.valid&&m.count>1&&maxb>1276) vc_count("cbr_max_multiframe_beyond_1276_checked",1); } }
      else if(len!=expect) vc_viol("cbr:wrong-size","CBR len=%d expected %d (bitrate=%lld user=%d Fs=%d fs=%d ch=%d maxb=%d toc=%02x sig=%s hist=%s)",len,expect,b,user_br,Fs,fs,ch,maxb,p[0],vs_names[g.kind],hist);
      else vc_count("cbr_exact_checked",1);
      vc_sig3((uint64_t)fidx|((uint64_t)(Fs/4000)<<4)|((uint64_t)ch<<9),(uint64_t)(user_br==OPUS_AUTO?1:user_br==OPUS_BITRATE_MAX?2:3)|((uint64_t)(expect==maxd)<<2)|((uint64_t)(expect==1)<<3)|((uint64_t)isdtx<<4)|((uint64_t)(maxb<3)<<5),(uint64_t)(p[0]>>3)|((uint64_t)(len<8?len:8)<<5));
    } else vc_sig3(0xFB,(uint64_t)fidx|((uint64_t)(len==maxb)<<4)|((uint64_t)(maxb<8?maxb:8)<<5),(uint64_t)(p[0]>>3));
    if(ho<360) ho+=snprintf(hist+ho,sizeof hist-ho,"[f%d b%d>%d] ",fidx,maxb,len);
    free(p); vc_gfree(&pk);
  }
  if(vc_want_sample()) vc_sample("{\"mode\":\"cbr\",\"Fs\":%d,\"ch\":%d,\"app\":%d,\"history\":\"%s\"}",Fs,ch,app,hist);
  opus_encoder_destroy(e); opus_decoder_destroy(d);
}

static void mode_cbrms(void){
  vc_rng r; vc_case_rng(&r,6); int err; int Fs=VC_PICK(&r,vk_rates); int app=VC_PICK(&r,vk_apps); static const int fams[4]={1,255,2,3}; int fam=VC_PICK(&r,fams); int ch;
  if(fam==1) ch=vc_range(&r,1,8); else if(fam==255) ch=vc_range(&r,1,6); else { int o=vc_range(&r,1,2); ch=(o+1)*(o+1)+(vc_chance(&r,1,3)?2:0); }
  int streams=0,coupled=0; unsigned char mapping[255]; OpusMSEncoder *me=NULL; OpusProjectionEncoder *pe=NULL;
  if(fam==3){ pe=opus_projection_ambisonics_encoder_create(Fs,ch,3,&streams,&coupled,app,&err); if(!pe) return; } else { me=opus_multistream_surround_encoder_create(Fs,ch,fam,&streams,&coupled,mapping,app,&err); if(!me) return; }
  if(me) opus_multistream_encoder_ctl(me,OPUS_SET_VBR(0)); else opus_projection_encoder_ctl(pe,OPUS_SET_VBR(0));
  int user_br=0; float *in=(float*)malloc(sizeof(float)*5760*ch); vc_siggen g; vs_init(&g,vc_below(&r,VS_NFINITE),Fs,ch,0.4f,vc_next(&r)); int fidx=vc_below(&r,9);
  int smallest;
  for(int k=0;k<12;k++){
    if(k==0||vc_chance(&r,1,3)){ int v=vc_chance(&r,1,8)?OPUS_BITRATE_MAX:vc_range(&r,500*ch,vc_chance(&r,1,2)?64000*ch:320000*ch); if(me) opus_multistream_encoder_ctl(me,OPUS_SET_BITRATE(v)); else opus_projection_encoder_ctl(pe,OPUS_SET_BITRATE(v)); user_br=v; if(v!=OPUS_BITRATE_MAX){ if(user_br<500*ch) user_br=500*ch; if(user_br>300000*ch) user_br=300000*ch; } }
    if(vc_chance(&r,1,3)) fidx=vc_below(&r,9); int fs=vk_frame_samples(Fs,fidx); vs_fill(&g,in,fs);
    int maxb=vc_chance(&r,1,4)?vc_range(&r,1,10*streams):vc_range(&r,10*streams,6000);
    if(vc_chance(&r,1,4)){ int j=1+(int)vc_below(&r,streams<4?streams:4); maxb=254*j+(int)vc_below(&r,2*j+8)-2; }   /* sizes at which a stream's share crosses the 252..255-byte self-delimiting length boundary */
    vc_gbuf pk=vc_galloc(maxb);
    int len= me?opus_multistream_encode_float(me,in,fs,pk.p,maxb):opus_projection_encode_float(pe,in,fs,pk.p,maxb); vc_count("ms_encode_calls",1);
    int cz=vc_gcheck(&pk); if(cz) vc_viol("write:outside-buffer","ms canary %d damaged maxb=%d ret=%d",cz,maxb,len);
    smallest=2*streams-1+(fidx==7?streams:0);
    if(len<0){ if(len==OPUS_BUFFER_TOO_SMALL&&maxb<3*streams) vc_count("ms_buffer_too_small",1); else vc_viol("encode:failed","ms returned %d (fam=%d ch=%d streams=%d maxb=%d fs=%d)",len,fam,ch,streams,maxb,fs); vc_gfree(&pk); continue; }
    if(len<1||len>maxb){ vc_viol("length:out-of-range","ms returned %d with max_data_bytes=%d",len,maxb); vc_gfree(&pk); continue; }
    /* validity of every stream */
    { int off=0; for(int s=0;s<streams;s++){ rfc_pkt m; rfc_parse(pk.p+off,len-off,s!=streams-1,&m); if(!m.valid){ vc_viol("packet:corrupt","ms stream %d invalid (len=%d maxb=%d)",s,len,maxb); break; } off+=m.consumed; } }
    if(user_br==OPUS_BITRATE_MAX){ if(len!=maxb) vc_viol("cbr:max-not-filled","ms BITRATE_MAX CBR len=%d maxb=%d streams=%d",len,maxb,streams); else vc_count("ms_cbr_max_checked",1); }
    else { long long num=(long long)user_br*fs, den=8LL*Fs; long long fl=num/den, rd=(2*num+den)/(2*den); int e1=clampi(fl<smallest?smallest:fl,1,maxb), e2=clampi(rd<smallest?smallest:rd,1,maxb);
      if(len!=e1&&len!=e2) vc_viol("cbr:wrong-size","ms CBR len=%d expected %d (bitrate=%d Fs=%d fs=%d fam=%d ch=%d streams=%d maxb=%d)",len,e1,user_br,Fs,fs,fam,ch,streams,maxb); else vc_count("ms_cbr_exact_checked",1); }
    vc_sig3((uint64_t)fam|((uint64_t)ch<<8),(uint64_t)fidx|((uint64_t)streams<<4),(uint64_t)(len==maxb)|((uint64_t)(user_br==OPUS_BITRATE_MAX)<<1)|((uint64_t)(Fs/4000)<<2));
    if(k==0&&vc_want_sample()) vc_sample("{\"mode\":\"cbrms\",\"family\":%d,\"channels\":%d,\"streams\":%d,\"Fs\":%d,\"frame\":%d,\"bitrate\":%d,\"maxb\":%d,\"len\":%d}",fam,ch,streams,Fs,fs,user_br,maxb,len);
    vc_gfree(&pk);
  }
  free(in); if(me) opus_multistream_encoder_destroy(me); if(pe) opus_projection_encoder_destroy(pe);
}

/* constrained VBR: long-term average must not exceed the target beyond tolerance */
static void mode_cvbr(void){
  vc_rng r; vc_case_rng(&r,7); int err; int Fs=VC_PICK(&r,vk_rates), ch=1+vc_below(&r,2), app=VC_PICK(&r,vk_apps);
  OpusEncoder *e=opus_encoder_create(Fs,ch,app,&err); int br=vc_range(&r,8000,vc_chance(&r,1,2)?48000:160000)*ch; if(br>300000*ch) br=300000*ch;
  opus_encoder_ctl(e,OPUS_SET_BITRATE(br)); opus_encoder_ctl(e,OPUS_SET_VBR(1)); opus_encoder_ctl(e,OPUS_SET_VBR_CONSTRAINT(1));
  int fm=vc_below(&r,4); if(fm) opus_encoder_ctl(e,VK_SET_FORCE_MODE_REQUEST,VK_MODE_SILK+fm-1); opus_encoder_ctl(e,OPUS_SET_COMPLEXITY(vc_below(&r,11)));
  int fidx=vc_range(&r,0,5); int fs=vk_frame_samples(Fs,fidx); double secs=(double)vc_argl("secs",10); int nfr=(int)(secs*Fs/fs);
  int sk=vc_below(&r,VS_NFINITE); if(sk==VS_SILENCE||sk==VS_DC||sk==VS_DITHER) sk=VS_MULTITONE; vc_siggen g; vs_init(&g,sk,Fs,ch,0.6f,vc_next(&r));
  static float f[5760*2]; static unsigned char pkt[1500]; long long total=0; int *lens=(int*)malloc(sizeof(int)*nfr); double tol=atof(vc_arg("tol","0.15")), tolw=atof(vc_arg("tolw","0.35")); /* calib/c05.json */
  int modes_seen=0; int mode_switch_at=vc_chance(&r,1,3)?nfr/3:-1;
  /* one stream in eight: a steady tone through the SILK layer at a speech bitrate (SILK's only closed-loop rate control is its bit reservoir; a stationary tonal input is what leans on it) */
  if(vc_chance(&r,1,8)){ sk=VS_LEVELDIFF; vs_init(&g,sk,Fs,ch,0.6f,vc_next(&r)); fm=1; opus_encoder_ctl(e,VK_SET_FORCE_MODE_REQUEST,VK_MODE_SILK); br=vc_range(&r,10000,24000)*ch; opus_encoder_ctl(e,OPUS_SET_BITRATE(br)); mode_switch_at=-1; vc_count("cvbr_steady_tone_silk_streams",1); }
  for(int k=0;k<nfr;k++){ if(k==mode_switch_at){ /* a history: hybrid/SILK frames then CELT (or back) while CVBR stays on */ opus_encoder_ctl(e,VK_SET_FORCE_MODE_REQUEST,vc_chance(&r,1,2)?VK_MODE_HYBRID:VK_MODE_SILK+(int)vc_below(&r,3)); }
    if(k==2*nfr/3&&mode_switch_at>=0) opus_encoder_ctl(e,VK_SET_FORCE_MODE_REQUEST,VK_MODE_CELT);
    vs_fill(&g,f,fs); int len=opus_encode_float(e,f,fs,pkt,1500); if(len<0){ vc_viol("encode:failed","cvbr encode returned %d",len); break; } lens[k]=len; total+=len; modes_seen|=1<<rfc_mode(pkt[0]); }
  double frame_s=(double)fs/Fs; double toc_bps=8.0/frame_s; /* one TOC byte per packet is outside the codec layers' rate control */
  double avg=total*8.0/(nfr*frame_s)-toc_bps;
  /* sliding windows of 3 s */
  int w=(int)(3.0/frame_s); double worst=0; if(w<nfr){ long long s=0; for(int k=0;k<nfr;k++){ s+=lens[k]; if(k>=w) s-=lens[k-w]; if(k>=w-1){ double a=s*8.0/(w*frame_s)-toc_bps; if(a/br>worst) worst=a/br; } } }
  vc_max("cvbr_whole_stream_ratio",avg/br); vc_max("cvbr_3s_window_ratio",worst);
  if(getenv("C05_DEBUG")&&(avg/br>1.08||worst>1.2)) fprintf(stderr,"cvbr ratio %.3f window %.3f sig=%s fm=%d modes_seen=%d Fs=%d ch=%d br=%d fs=%d app=%d\n",avg/br,worst,vs_names[sk],fm,modes_seen,Fs,ch,br,fs,app);
  /* the MDCT-only tail of a stream with a mode history (forced CELT from 2/3 on): its own average, after 1 s of settling, stays at the target;
     an encoder whose constraint was lost along the history shows here even when the whole-stream average hides it */
  if(mode_switch_at>=0){ int k0=2*nfr/3+(int)(1.0/frame_s); if(nfr-k0>(int)(1.5/frame_s)){ long long s2=0; int allcelt=1; for(int k=k0;k<nfr;k++) s2+=lens[k]; double a=s2*8.0/((nfr-k0)*frame_s)-toc_bps; vc_max("cvbr_celt_tail_ratio",a/br); (void)allcelt; double tolt=atof(vc_arg("tolt","0.08")); if(a/br>1.0+tolt+1276*8.0/((nfr-k0)*frame_s)/br) vc_viol("cvbr:tail-exceeds-target","after a mode history the MDCT-only tail averages %.3f x target %d (Fs=%d ch=%d frame=%d sig=%s)",a/br,br,Fs,ch,fs,vs_names[sk]); vc_count("cvbr_tails_checked",1); } }
  /* reservoir allowance: one maximal packet per window */
  double allow=1276*8.0/3.0/br;
  /* in hybrid mode the encoder itself switches the MDCT layer's constraint off (OPUS_SET_VBR_CONSTRAINT(0)) and SILK's rate control is a soft target: streams with hybrid
     packets get the wider calibrated tolerance (a full-scale isolated tone above 13 kHz reaches 1.37; everything else stays below 1.11) */
  if(modes_seen&2){ tol=atof(vc_arg("tolh","0.55")); tolw=atof(vc_arg("tolwh","0.65")); vc_count("cvbr_streams_with_hybrid_packets",1); }
  if(avg/br>1.0+tol+allow*3.0/secs) vc_viol("cvbr:average-exceeds-target","whole-stream average %.0f b/s = %.3f x target %d (Fs=%d ch=%d app=%d frame=%d sig=%s forced_mode=%d modes_seen=%d)",avg,avg/br,br,Fs,ch,app,fs,vs_names[sk],fm,modes_seen);
  if(worst>1.0+tolw+allow) vc_viol("cvbr:window-exceeds-target","3 s window average = %.3f x target %d (Fs=%d ch=%d frame=%d sig=%s forced_mode=%d)",worst,br,Fs,ch,fs,vs_names[sk],fm);
  vc_count("cvbr_streams",1); vc_sig3(0xCB,(uint64_t)fidx|((uint64_t)sk<<4)|((uint64_t)fm<<9)|((uint64_t)modes_seen<<12),(uint64_t)(Fs/4000)|((uint64_t)ch<<5)|((uint64_t)(br/ch/8000)<<7));
  if(vc_want_sample()) vc_sample("{\"mode\":\"cvbr\",\"Fs\":%d,\"ch\":%d,\"bitrate\":%d,\"frame\":%d,\"signal\":\"%s\",\"avg_ratio\":%.4f,\"worst_3s_ratio\":%.4f}",Fs,ch,br,fs,vs_names[sk],avg/br,worst);
  free(lens); opus_encoder_destroy(e);
}

int main(int argc,char **argv){
  static const vc_mode_t modes[]={{"cbr",mode_cbr},{"cbrms",mode_cbrms},{"cvbr",mode_cvbr},{0,0}};
  return vc_main(argc,argv,"C05",modes);
}
