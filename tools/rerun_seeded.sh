#!/bin/sh
# rerun_seeded.sh [names...] : run every seeded change (or the named ones) against the check of its property in a scratch worktree
cd /verif
names="$@"; [ -z "$names" ] && names=$(ls seeded | grep -v README)
for n in $names; do
  python3 tools/run_wt.py seeded/$n 2>&1 | grep -v "^WARNING" | cut -c1-300 >> /tmp/rerun_seeded.log
done
echo done >> /tmp/rerun_seeded.log
