#include <stdio.h>
#include <stdlib.h>
#include <string.h>
#include <math.h>
#include "opus.h"
#include "opus_multistream.h"
#include "opus_projection.h"
static unsigned rs=1; static unsigned rnd(void){ rs=rs*1664525u+1013904223u; return rs>>8; }
int main(int argc,char**argv){
  int err; int N=atoi(argv[1]); rs=atoi(argv[2]);
  int rates[5]={8000,12000,16000,24000,48000};
  long nan=0, calls=0, ok=0, interr=0;
  for(int it=0; it<N; it++){
    int Fs=rates[rnd()%5], ch=1+rnd()%2;
    OpusDecoder*d=opus_decoder_create(Fs,ch,&err);
    for(int k=0;k<30;k++){
      unsigned char pkt[1500]; int len=rnd()%((rnd()%4==0)?1400:60);
      for(int i=0;i<len;i++) pkt[i]=rnd();
      if(len>0 && rnd()%3) pkt[0]=(pkt[0]&0xFC)|(rnd()%4==0?3:rnd()%3);
      static float out[48000*2];
      int fs= (rnd()%2)? Fs/400*(1+rnd()%48) : 5760;
      int fec=rnd()%3==0;
      int r=opus_decode_float(d, (rnd()%8==0)?NULL:pkt, len, out, fs, fec);
      calls++;
      if(r>0){ ok++; for(int i=0;i<r*ch;i++) if(!isfinite(out[i])){nan++; break;} }
      if(r==OPUS_INTERNAL_ERROR) interr++;
    }
    opus_decoder_destroy(d);
  }
  printf("calls=%ld ok=%ld nanframes=%ld interr=%ld\n",calls,ok,nan,interr);
  return 0;
}
