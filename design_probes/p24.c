#include <stdio.h>
#include <stdlib.h>
#include <math.h>
#include "opus.h"
#include "opus_private.h"
static unsigned long long rs=7; static unsigned rnd(void){ rs=rs*6364136223846793005ULL+1442695040888963407ULL; return (unsigned)(rs>>33); }
int main(int argc,char**argv){ int err; int encFs=atoi(argv[1]), ech=atoi(argv[2]), mode=atoi(argv[3]), br=atoi(argv[4]); int dFs=atoi(argv[5]), dch=atoi(argv[6]);
 OpusEncoder*e=opus_encoder_create(encFs,ech,OPUS_APPLICATION_AUDIO,&err); if(mode) opus_encoder_ctl(e,OPUS_SET_FORCE_MODE(mode)); opus_encoder_ctl(e,OPUS_SET_BITRATE(br));
 OpusDecoder*r=opus_decoder_create(48000,2,&err),*t=opus_decoder_create(dFs,dch,&err); FILE*fr=fopen("ref.sw","wb"),*ft=fopen("tst.sw","wb");
 int fs=encFs/50; static short in[960*2], o1[960*2], o2[960*2]; unsigned char pk[1500];
 for(int k=0;k<200;k++){ if(!mode && k%20==0) opus_encoder_ctl(e,OPUS_SET_BITRATE(8000+rnd()%120000));
   for(int i=0;i<fs;i++){ double tt=(k*fs+i)/(double)encFs; double envl=0.5+0.5*sin(2*M_PI*3*tt); double f0=140+30*sin(2*M_PI*0.9*tt); double sp=0; for(int h=1;h<=15;h++) sp+=sin(2*M_PI*f0*h*tt)/h; short v=(short)(6000*envl*sp+(int)(rnd()%400)-200); for(int c=0;c<ech;c++) in[i*ech+c]=c?(short)(v*0.6):v; }
   int l=opus_encode(e,in,fs,pk,1500); int a=opus_decode(r,pk,l,o1,960,0); int b=opus_decode(t,pk,l,o2,dFs/50,0); fwrite(o1,2,a*2,fr); fwrite(o2,2,b*dch,ft); }
 fclose(fr); fclose(ft); return 0; }
