#!/bin/sh
# soak.sh <seeds...> : run every registered quick check with the given VERIF_SEED values (scratch evidence), log verdict lines
cd /verif
for sd in "$@"; do
  for c in $(python3 -c "import json;print(' '.join(x['property_id'] for x in json.load(open('MANIFEST.json'))['checks']))"); do
    out=$(VERIF_SEED=$sd VERIF_NO_EVIDENCE=1 python3 verif.py check $c --tier quick 2>&1 | grep -v "^WARNING" | grep -v "^KNOWN-FINDING" | tail -6 | cut -c1-400)
    echo "seed=$sd $c :: $(echo "$out" | tail -1)" >> /tmp/soak.log
    echo "$out" | grep -q "held on what was observed" || { echo "---- seed=$sd $c" >> /tmp/soak_fail.log; echo "$out" >> /tmp/soak_fail.log; }
  done
done
echo "soak done $@" >> /tmp/soak.log
