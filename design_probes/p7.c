#include <stdio.h>
#include <stdlib.h>
#include <string.h>
#include <math.h>
#include "opus.h"
static unsigned rs=1; static unsigned rnd(void){ rs=rs*1664525u+1013904223u; return rs>>8; }
int main(int argc,char**argv){
  int err; int N=atoi(argv[1]); rs=atoi(argv[2]);
  int rates[5]={8000,12000,16000,24000,48000}; int apps[3]={OPUS_APPLICATION_VOIP,OPUS_APPLICATION_AUDIO,OPUS_APPLICATION_RESTRICTED_LOWDELAY};
  long calls=0,bad=0,fail=0,guard=0;
  for(int it=0; it<N; it++){
    int Fs=rates[rnd()%5], ch=1+rnd()%2, app=apps[rnd()%3];
    OpusEncoder*e=opus_encoder_create(Fs,ch,app,&err); opus_encoder_ctl(e,OPUS_SET_VBR(0));
    if(rnd()%2) opus_encoder_ctl(e,OPUS_SET_DTX(1));
    for(int k=0;k<30;k++){
      int br = (rnd()%10==0)? OPUS_BITRATE_MAX : (rnd()%10==0? OPUS_AUTO : 500+rnd()%(rnd()%2?40000:512000));
      if(rnd()%3==0||k==0) opus_encoder_ctl(e,OPUS_SET_BITRATE(br));
      opus_int32 ubr; 
      int durs[9]={Fs/400,Fs/200,Fs/100,Fs/50,Fs/25,3*Fs/50,4*Fs/50,5*Fs/50,6*Fs/50}; int fs=durs[rnd()%9];
      static short in[5760*2]; int kind=rnd()%3; for(int i=0;i<fs*ch;i++) in[i]= kind==0?0:(kind==1?(short)(rnd()%65536):(short)(9000*sin(i*0.05)));
      int maxb = (rnd()%2)? 1+rnd()%60 : 1+rnd()%4000;
      unsigned char*buf=malloc(maxb+16); memset(buf+maxb,0xA5,16);
      /* what will encoder compute? need user bitrate as stored */
      int len=opus_encode(e,in,fs,buf,maxb); calls++;
      for(int i=0;i<16;i++) if(buf[maxb+i]!=0xA5) guard++;
      if(len<0){ if(!(len==OPUS_BUFFER_TOO_SMALL)) {fail++; printf("FAIL %d Fs=%d fs=%d maxb=%d\n",len,Fs,fs,maxb);} free(buf); continue; }
      opus_encoder_ctl(e,OPUS_GET_BITRATE(&ubr)); /* resolved with prev_framesize= this fs; MAX resolves w/ 1276 */
      opus_int32 in_dtx; opus_encoder_ctl(e,OPUS_GET_IN_DTX(&in_dtx));
      /* expected */
      long long bps; opus_int32 setbr=br; /* current setting unknown if not set this iter; query */
      /* emulate: user_bitrate: AUTO => 60*Fs/fs + Fs*ch ; MAX => maxd*8*Fs/fs */
      int maxd = maxb<1276?maxb:1276;
      /* we can't read user_bitrate directly except via GET_BITRATE (MAX→1276-based). detect MAX by ubr == 1276*8*Fs/fs */
      long long expect;
      if(ubr == (long long)1276*8*Fs/fs) bps=(long long)maxd*8*Fs/fs; else bps=ubr;
      long long fr12=12LL*Fs/fs; expect=(12*bps/8 + fr12/2)/fr12; if(expect>maxd) expect=maxd; if(expect<1) expect=1;
      if(len!=expect && !(len<=2 && in_dtx)) { 
         int nf=opus_packet_get_nb_frames(buf,len);
         /* BITRATE_MAX multi-frame fills out_data_bytes */
         if(!(ubr == (long long)1276*8*Fs/fs && len==maxb)) { bad++; if(bad<15) printf("SIZE len=%d expect=%lld Fs=%d ch=%d fs=%d maxb=%d ubr=%d nf=%d dtx=%d app=%d\n",len,expect,Fs,ch,fs,maxb,ubr,nf,in_dtx,app);} }
      free(buf);
    }
    opus_encoder_destroy(e);
  }
  printf("calls=%ld bad=%ld fail=%ld guard=%ld\n",calls,bad,fail,guard); return 0; }
