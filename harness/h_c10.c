/* C10 -- multistream and projection equal per-stream coding plus the channel mapping.
 * Modes:
 *   layout  creation accepts a layout iff the documented rules hold (encoder and decoder, random legal/illegal layouts); surround
 *           families 0/1/2/3/255 give the stream counts and mapping tables of RFC 7845 5.1.1 / RFC 8486 for every legal channel count
 *   dec     multistream decode == stand-alone twin decoders fed the split packets, bit for bit per output channel (float / int16 /
 *           int24, muted and duplicated mappings, PLC, FEC), XOR of final ranges; corrupt packets rejected by the whole decoder
 *   enc     surround / ambisonics / projection encoders emit a concatenation of self-delimited packets of equal duration that the
 *           twins decode to the multistream decoder's output; LFE stream where prescribed
 *   matrix  for the five built-in orders: exported demixing matrix == internal one, demixing x mixing == I / gain, and a projection
 *           round trip brings every input channel back dominant in its own channel
 */
#include "vcodec.h"
#include "arch.h"
#include "mapping_matrix.h"

/* ---- tables re-typed from RFC 7845 section 5.1.1.2 (Vorbis channel order): channels -> streams, coupled, mapping */
static const struct { int streams, coupled; unsigned char map[8]; } rfc7845[8]={
 {1,0,{0}}, {1,1,{0,1}}, {2,1,{0,2,1}}, {2,2,{0,1,2,3}}, {3,2,{0,4,1,2,3}}, {4,2,{0,4,1,2,3,5}}, {4,3,{0,4,1,2,3,5,6}}, {5,3,{0,6,1,2,3,4,5,7}} };
static int isq(int n){ int r=0; while((r+1)*(r+1)<=n) r++; return r; }
/* RFC 8486: channel count (n+1)^2 + 2j, n=0..14, j in {0,1} */
static int ambi_ok(int ch,int *acn,int *nd){ if(ch<1||ch>227) return 0; int o=isq(ch); int a=o*o; int d=ch-a; if(d!=0&&d!=2) return 0; *acn=a; *nd=d; return 1; }

/* ---------------------------------------------------------------- layout */
static void mode_layout(void){
  vc_rng r; vc_case_rng(&r,10); int err=12345; int Fs=VC_PICK(&r,vk_rates), app=VC_PICK(&r,vk_apps);
  if(vc_chance(&r,1,2)){ /* explicit layouts */
    int ch=vc_chance(&r,1,10)?vc_range(&r,-1,300):vc_range(&r,1,vc_chance(&r,1,4)?255:12); int S=vc_chance(&r,1,10)?vc_range(&r,-1,260):vc_range(&r,1,vc_chance(&r,1,6)?255:8); int C=vc_chance(&r,1,10)?vc_range(&r,-1,260):vc_range(&r,0,S>0?S:0); if(vc_chance(&r,1,8)) C=S+vc_range(&r,0,2);
    unsigned char map[300]; int tot=S+C; int style=vc_below(&r,4);
    for(int i=0;i<300;i++){ int v; if(style==0) v=tot>0?(int)vc_below(&r,tot):0; else if(style==1) v=i<tot?i:(vc_chance(&r,1,2)?255:(tot>0?(int)vc_below(&r,tot):0)); else if(style==2) v=vc_chance(&r,1,6)?255:(tot>0?(int)vc_below(&r,tot):0); else v=vc_below(&r,256); map[i]=(unsigned char)v; }
    int basic=(ch>=1&&ch<=255&&S>=1&&C>=0&&C<=S&&S<=255-C); int mapok=basic; if(basic) for(int i=0;i<ch;i++) if(map[i]!=255&&map[i]>=tot) mapok=0;
    int dec_ok=mapok; int enc_ok=mapok&&(tot<=ch); if(enc_ok){ for(int s=0;s<tot;s++){ int found=0; for(int i=0;i<ch;i++) if(map[i]==s) found=1; if(!found) enc_ok=0; } }
    if(ch>=1&&ch<=255||!vc_chance(&r,1,2)){ /* keep the arguments within what the API can be handed without reading outside `map` */ }
    OpusMSDecoder *d=opus_multistream_decoder_create(Fs,ch,S,C,map,&err); vc_count("layout_decoder_creates",1);
    if(dec_ok){ if(!d||err!=OPUS_OK) vc_viol("layout:decoder-legal-rejected","channels=%d streams=%d coupled=%d rejected (err %d)",ch,S,C,err); } else if(d||err==OPUS_OK) vc_viol("layout:decoder-illegal-accepted","channels=%d streams=%d coupled=%d mapping style %d accepted",ch,S,C,style);
    if(d){ opus_int32 sz=opus_multistream_decoder_get_size(S,C); if(sz<=0) vc_viol("layout:size","decoder get_size(%d,%d)=%d for an accepted layout",S,C,sz); opus_multistream_decoder_destroy(d); }
    err=12345; OpusMSEncoder *e=NULL; if(!(enc_ok&&tot>24)){ e=opus_multistream_encoder_create(Fs,ch,S,C,map,app,&err); vc_count("layout_encoder_creates",1);
      if(enc_ok){ if(!e||err!=OPUS_OK) vc_viol("layout:encoder-legal-rejected","channels=%d streams=%d coupled=%d rejected (err %d)",ch,S,C,err); } else if(e||err==OPUS_OK) vc_viol("layout:encoder-illegal-accepted","channels=%d streams=%d coupled=%d style %d accepted (every stream must be fed, streams+coupled<=channels)",ch,S,C,style);
      if(e) opus_multistream_encoder_destroy(e); }
    vc_sig3((uint64_t)(ch<1?0:ch>255?1:ch<9?2:3)|((uint64_t)(S<1?0:S>255?1:2)<<2)|((uint64_t)(C<0?0:C>S?1:2)<<4),(uint64_t)style|((uint64_t)dec_ok<<2)|((uint64_t)enc_ok<<3),0);
    return; }
  /* mapping families */
  static const int fams[7]={0,1,2,3,255,4,254}; int fam=VC_PICK(&r,fams); int ch=vc_chance(&r,1,8)?vc_range(&r,-1,260):vc_range(&r,1,vc_chance(&r,1,3)?230:40);
  int streams=-5,coupled=-5; unsigned char map[300]; memset(map,0xEE,sizeof map);
  int exp_ok=0,es=0,ec=0; unsigned char em[256]; int acn=0,nd=0;
  if(fam==0&&(ch==1||ch==2)){ exp_ok=1; es=1; ec=ch-1; em[0]=0; em[1]=1; }
  else if(fam==1&&ch>=1&&ch<=8){ exp_ok=1; es=rfc7845[ch-1].streams; ec=rfc7845[ch-1].coupled; memcpy(em,rfc7845[ch-1].map,8); }
  else if(fam==255&&ch>=1&&ch<=255){ exp_ok=1; es=ch; ec=0; for(int i=0;i<ch;i++) em[i]=i; }
  else if(fam==2&&ambi_ok(ch,&acn,&nd)){ exp_ok=1; ec=nd?1:0; es=acn+ec; for(int i=0;i<acn;i++) em[i]=i+2*ec; for(int i=0;i<2*ec;i++) em[acn+i]=i; }
  else if(fam==3&&ambi_ok(ch,&acn,&nd)){ exp_ok=(isq(acn)>=2&&isq(acn)<=6)?1:-1; es=(ch+1)/2; }   /* projection: matrices exist for orders 1..5 only; other RFC 8486 counts: no expectation */
  if(exp_ok>0&&es>40){ /* creating hundreds of encoders per case is slow: sample */ if(!vc_chance(&r,1,6)) return; }
  err=12345;
  if(fam==3){ OpusProjectionEncoder *pe=opus_projection_ambisonics_encoder_create(Fs,ch,3,&streams,&coupled,app,&err); vc_count("layout_family_creates",1);
    if(exp_ok>0){ if(!pe) vc_viol("layout:family-legal-rejected","projection family 3 with %d channels rejected (err %d)",ch,err); else if(streams+coupled!=ch||coupled>streams||streams<1) vc_viol("layout:family-stream-count","projection %d channels: streams %d coupled %d do not carry every channel",ch,streams,coupled); else vc_count("layout_family_tables_ok",1); }
    else if(exp_ok==0&&pe) vc_viol("layout:family-illegal-accepted","projection family 3 accepted %d channels",ch);
    if(pe) opus_projection_encoder_destroy(pe); }
  else { OpusMSEncoder *me=opus_multistream_surround_encoder_create(Fs,ch,fam,&streams,&coupled,map,app,&err); vc_count("layout_family_creates",1);
    if(exp_ok){ if(!me||err!=OPUS_OK) vc_viol("layout:family-legal-rejected","family %d with %d channels rejected (err %d)",fam,ch,err);
      else { if(streams!=es||coupled!=ec) vc_viol("layout:family-stream-count","family %d, %d channels: streams %d coupled %d, RFC table says %d/%d",fam,ch,streams,coupled,es,ec); else if(memcmp(map,em,ch)) vc_viol("layout:family-mapping","family %d, %d channels: mapping table differs from the RFC's",fam,ch); else vc_count("layout_family_tables_ok",1); if(map[ch]!=0xEE) vc_viol("layout:family-mapping-overrun","mapping written past %d entries",ch); } }
    else if(me||err==OPUS_OK) vc_viol("layout:family-illegal-accepted","family %d accepted %d channels",fam,ch);
    if(me) opus_multistream_encoder_destroy(me); }
  vc_sig3((uint64_t)fam|((uint64_t)(ch<1?0:ch<9?ch:ch<40?9:10)<<8),(uint64_t)exp_ok,1);
}

/* ---------------------------------------------------------------- dec / enc shared: twins */
#define MAXS 20
typedef struct { int S,C,ch; unsigned char map[32]; OpusMSDecoder *mf,*m16,*m24; OpusDecoder *tf[MAXS],*t16[MAXS],*t24[MAXS]; int Fs; } twinset;
static int twins_create(twinset *t,int Fs,int ch,int S,int C,const unsigned char *map){ int err; memset(t,0,sizeof *t); t->S=S; t->C=C; t->ch=ch; t->Fs=Fs; memcpy(t->map,map,ch);
  t->mf=opus_multistream_decoder_create(Fs,ch,S,C,map,&err); t->m16=opus_multistream_decoder_create(Fs,ch,S,C,map,&err); t->m24=opus_multistream_decoder_create(Fs,ch,S,C,map,&err); if(!t->mf||!t->m16||!t->m24) return -1;
  for(int s=0;s<S;s++){ int c=s<C?2:1; t->tf[s]=opus_decoder_create(Fs,c,&err); t->t16[s]=opus_decoder_create(Fs,c,&err); t->t24[s]=opus_decoder_create(Fs,c,&err); } return 0; }
static void twins_free(twinset *t){ if(t->mf) opus_multistream_decoder_destroy(t->mf); if(t->m16) opus_multistream_decoder_destroy(t->m16); if(t->m24) opus_multistream_decoder_destroy(t->m24); for(int s=0;s<t->S;s++){ if(t->tf[s]) opus_decoder_destroy(t->tf[s]); if(t->t16[s]) opus_decoder_destroy(t->t16[s]); if(t->t24[s]) opus_decoder_destroy(t->t24[s]); } }
/* decode one multistream packet (or loss) on the multistream decoders and on the twins; returns 0 ok, 1 violation reported */
static int twins_step(twinset *t,const unsigned char *p,int len,int fsz,int fec,const char *ctx){
  static float of[5760*20], tfb[MAXS][5760*2]; static opus_int16 o16[5760*20], t16b[MAXS][5760*2]; static opus_int32 o24[5760*20], t24b[MAXS][5760*2]; static unsigned char one[MAXS][8000]; int ol[MAXS]; int ch=t->ch,S=t->S,C=t->C;
  int lost=(p==NULL||len==0); int valid=1; int dur=-1;
  if(!lost){ int off=0; for(int s=0;s<S&&valid;s++){ rfc_pkt m; rfc_parse(p+off,len-off,s!=S-1,&m); if(!m.valid){ valid=0; break; } int d=m.count*rfc_spf(p[off],t->Fs); if(dur<0) dur=d; else if(d!=dur) valid=0; if(s!=S-1){ int c; ol[s]=vk_from_selfdelim(p+off,len-off,one[s],&c); if(ol[s]<0||ol[s]>8000) valid=0; } else { ol[s]=len-off; if(ol[s]>8000) valid=0; else memcpy(one[s],p+off,ol[s]); } off+=m.consumed; } if(valid&&dur>fsz&&!fec) valid=-1; /* too small a buffer */ }
  int rf=opus_multistream_decode_float(t->mf,p,len,of,fsz,fec), r16=opus_multistream_decode(t->m16,p,len,o16,fsz,fec), r24=opus_multistream_decode24(t->m24,p,len,o24,fsz,fec); vc_count("ms_decode_calls",1);
  if(!lost&&valid<=0){ if(rf>=0||r16>=0||r24>=0){ vc_viol(valid==0?"dec:corrupt-accepted":"dec:small-buffer-accepted","%s: packet whose streams the RFC model rejects (or of unequal duration) decoded: %d/%d/%d",ctx,rf,r16,r24); return 1; } vc_count("ms_rejected",1); return 0; }
  int expect= lost||fec?fsz:dur;
  if(rf!=expect||r16!=expect||r24!=expect){ vc_viol("dec:count","%s: multistream decode returned %d/%d/%d expected %d (lost=%d fec=%d len=%d)",ctx,rf,r16,r24,expect,lost,fec,len); return 1; }
  opus_uint32 x=0, mr=0;
  for(int s=0;s<S;s++){ const unsigned char *q=lost?NULL:one[s]; int ql=lost?0:ol[s]; int a=opus_decode_float(t->tf[s],q,ql,tfb[s],fsz,fec), b=opus_decode(t->t16[s],q,ql,t16b[s],fsz,fec), c=opus_decode24(t->t24[s],q,ql,t24b[s],fsz,fec); if(a!=expect||b!=expect||c!=expect){ vc_viol("dec:twin-count","%s: stand-alone decoder of stream %d returned %d/%d/%d, multistream %d",ctx,s,a,b,c,expect); return 1; } opus_uint32 fr=0; opus_decoder_ctl(t->tf[s],OPUS_GET_FINAL_RANGE(&fr)); x^=fr; }
  opus_multistream_decoder_ctl(t->mf,OPUS_GET_FINAL_RANGE(&mr)); if(mr!=x){ vc_viol("dec:final-range","%s: multistream final range %08x, XOR of the stand-alone decoders %08x",ctx,mr,x); return 1; }
  for(int c=0;c<ch;c++){ int m=t->map[c]; int s,side,w; if(m==255){ s=-1; side=0; w=1; } else if(m<2*C){ s=m/2; side=m%2; w=2; } else { s=C+(m-2*C); side=0; w=1; }
    for(int i=0;i<expect;i++){ float ef= s<0?0.f:tfb[s][i*w+side]; opus_int16 e16= s<0?0:t16b[s][i*w+side]; opus_int32 e24= s<0?0:t24b[s][i*w+side];
      if(memcmp(&of[i*ch+c],&ef,4)||o16[i*ch+c]!=e16||o24[i*ch+c]!=e24){ vc_viol(s<0?"dec:muted-not-silent":"dec:channel-differs","%s: output channel %d (mapping %d -> stream %d side %d) sample %d: multistream float %.9g int16 %d int24 %d, stand-alone %.9g %d %d",ctx,c,m,s,side,i,of[i*ch+c],o16[i*ch+c],o24[i*ch+c],ef,e16,e24); return 1; } } }
  vc_count("ms_channels_equal",ch); return 0; }

/* ---------------------------------------------------------------- dec */
static void mode_dec(void){
  vc_rng r; vc_case_rng(&r,24); int err; int Fs=VC_PICK(&r,vk_rates); int S=vc_range(&r,1,vc_chance(&r,1,4)?8:4), C=vc_below(&r,S+1); int tot=S+C; int ch=vc_range(&r,1,12); unsigned char map[16];
  for(int i=0;i<ch;i++) map[i]= vc_chance(&r,1,6)?255:(unsigned char)vc_below(&r,tot);   /* duplicates and muted channels are legal for a decoder */
  twinset t; if(twins_create(&t,Fs,ch,S,C,map)){ vc_viol("dec:create","decoder create failed for a legal layout"); return; }
  /* one encoder per stream, same frame size for all */
  OpusEncoder *e[MAXS]; vc_siggen g[MAXS]; int eFs=vc_chance(&r,2,3)?Fs:VC_PICK(&r,vk_rates); for(int s=0;s<S;s++){ int c=vc_chance(&r,3,4)?(s<C?2:1):1+(int)vc_below(&r,2); e[s]=opus_encoder_create(eFs,c,VC_PICK(&r,vk_apps),&err); opus_encoder_ctl(e[s],OPUS_SET_BITRATE(vc_range(&r,8000,64000)*c)); if(vc_chance(&r,1,3)){ opus_encoder_ctl(e[s],OPUS_SET_INBAND_FEC(1)); opus_encoder_ctl(e[s],OPUS_SET_PACKET_LOSS_PERC(20)); } if(vc_chance(&r,1,3)) opus_encoder_ctl(e[s],VK_SET_FORCE_MODE_REQUEST,VK_MODE_SILK+(int)vc_below(&r,3)); vs_init(&g[s],vc_below(&r,VS_NFINITE),eFs,c,vc_chance(&r,1,4)?1.5f:0.5f,vc_next(&r)); }
  int nf=vc_range(&r,4,16); int fidx=vc_range(&r,0,6); static float in[5760*2]; static unsigned char pk[MAXS*1700], tmp[1700], sd[1700]; char ctx[120];
  for(int k=0;k<nf;k++){ if(vc_chance(&r,1,6)) fidx=vc_range(&r,0,6); int fs=vk_frame_samples(eFs,fidx); int len=0; int ok=1;
    for(int s=0;s<S;s++){ int c=g[s].ch; vs_fill(&g[s],in,fs); int l=opus_encode_float(e[s],in,fs,tmp,vc_chance(&r,1,6)?vc_range(&r,8,100):1275); if(l<=0){ ok=0; break; } if(s!=S-1){ int l2=vk_to_selfdelim(tmp,l,sd); if(l2<0){ ok=0; break; } memcpy(pk+len,sd,l2); len+=l2; } else { memcpy(pk+len,tmp,l); len+=l; } (void)c; }
    if(!ok) continue; int fsz=(int)((long long)fs*Fs/eFs);
    int kind= vc_chance(&r,1,10)?1: vc_chance(&r,1,12)?2: vc_chance(&r,1,8)?3:0;   /* 0 received, 1 lost, 2 FEC then received, 3 corrupted */
    snprintf(ctx,sizeof ctx,"S=%d C=%d ch=%d Fs=%d frame %d kind %d",S,C,ch,Fs,k,kind);
    if(kind==1){ if(twins_step(&t,NULL,0,fsz,0,ctx)) break; }
    else if(kind==3){ int l2=len; static unsigned char bad[MAXS*1700+32]; memcpy(bad,pk,len); int how=vc_below(&r,4); if(how==0) l2=vc_below(&r,len); else if(how==1&&S>1){ bad[0]=(bad[0]&7)|(((bad[0]>>3)+1+vc_below(&r,30))%32)<<3; } else if(how==2){ for(int i=0;i<4;i++) bad[l2++]=(unsigned char)vc_u32(&r); } else bad[vc_below(&r,len<6?len:6)]^=1u<<vc_below(&r,8);
      unsigned char *b=vc_exact_copy(bad,l2); int rc=twins_step(&t,b,l2,Fs/25*3,0,ctx); free(b); if(rc) break; }
    else { unsigned char *b=vc_exact_copy(pk,len); int rc=0; if(kind==2) rc=twins_step(&t,b,len,fsz,1,ctx); if(!rc) rc=twins_step(&t,b,len,vc_chance(&r,1,4)?Fs/25*3:fsz,0,ctx); free(b); if(rc) break; }
    vc_sig3((uint64_t)S|((uint64_t)C<<4)|((uint64_t)ch<<8),(uint64_t)kind|((uint64_t)fidx<<3),(uint64_t)(Fs/8000)|((uint64_t)(eFs!=Fs)<<3)); }
  if(vc_want_sample()) vc_sample("{\"mode\":\"dec\",\"streams\":%d,\"coupled\":%d,\"channels\":%d,\"mapping0\":%d,\"Fs\":%d,\"frames\":%d}",S,C,ch,map[0],Fs,nf);
  for(int s=0;s<S;s++) opus_encoder_destroy(e[s]); twins_free(&t);
}

/* ---------------------------------------------------------------- enc */
static void mode_enc(void){
  vc_rng r; vc_case_rng(&r,25); int err; int Fs=VC_PICK(&r,vk_rates), app=VC_PICK(&r,vk_apps); static const int fams[4]={0,1,255,2}; int fam=VC_PICK(&r,fams); int ch;
  if(fam==0) ch=vc_range(&r,1,2); else if(fam==1) ch=vc_range(&r,1,8); else if(fam==255) ch=vc_chance(&r,1,5)?vc_range(&r,9,18):vc_range(&r,1,8); else { static const int ac[]={1,3,4,6,9,11,16,18}; ch=VC_PICK(&r,ac); }
  int S,C; unsigned char map[255]; OpusMSEncoder *me=opus_multistream_surround_encoder_create(Fs,ch,fam,&S,&C,map,app,&err); if(!me){ vc_viol("enc:create","family %d ch %d: %d",fam,ch,err); return; }
  if(S>MAXS){ opus_multistream_encoder_destroy(me); return; }
  twinset t; if(twins_create(&t,Fs,ch,S,C,map)){ vc_viol("enc:create","decoder create failed"); return; }
  opus_multistream_encoder_ctl(me,OPUS_SET_BITRATE(vc_chance(&r,1,4)?OPUS_AUTO:vc_range(&r,12000,96000)*ch)); if(vc_chance(&r,1,3)) opus_multistream_encoder_ctl(me,OPUS_SET_VBR(0));
  vc_siggen g; vs_init(&g,vc_chance(&r,1,2)?VS_WHITE:(int)vc_below(&r,VS_NFINITE),Fs,ch,0.5f,vc_next(&r)); float *in=(float*)malloc(sizeof(float)*5760*ch); static unsigned char pk[MAXS*8000]; int fidx=vc_below(&r,9); char ctx[100];
  for(int k=0;k<8;k++){ if(vc_chance(&r,1,4)) fidx=vc_below(&r,9); int fs=vk_frame_samples(Fs,fidx); vs_fill(&g,in,fs); /* one call in three gets a hard cap on the packet size, from a few bytes per stream upwards (every stream still has room for a minimal frame) */
    int cap=(int)sizeof pk; if(vc_chance(&r,1,3)){ cap=vc_range(&r,4*S+2,vc_chance(&r,1,2)?8*S+8:60*S); vc_count("ms_encode_calls_with_tight_cap",1); }
    int len=opus_multistream_encode_float(me,in,fs,pk,cap); vc_count("ms_encode_calls",1);
    if(len<=0||len>cap){ vc_viol("enc:failed","family %d ch %d (%d streams) frame %d samples at %d Hz, max_data_bytes %d: encode returned %d",fam,ch,S,fs,Fs,cap,len); break; }
    /* structure: S-1 self-delimited + 1 standard, all of the submitted duration */
    int off=0,ok=1; for(int s=0;s<S;s++){ rfc_pkt m; rfc_parse(pk+off,len-off,s!=S-1,&m); if(!m.valid){ vc_viol("enc:structure","family %d ch %d stream %d/%d: not a valid %s packet at offset %d of %d",fam,ch,s,S,s!=S-1?"self-delimited":"standard",off,len); ok=0; break; } if(m.count*rfc_spf(pk[off],Fs)!=fs){ vc_viol("enc:duration","stream %d announces %d samples, %d submitted",s,m.count*rfc_spf(pk[off],Fs),fs); ok=0; break; }
      { int audio=0; for(int q=0;q<m.count;q++) if(m.sizes[q]>1) audio=1; if(!audio) vc_count("enc_no_audio_stream_packets",1);
      if(fam==1&&ch>=6&&s==S-1&&audio){ /* LFE: last stream, coded by the MDCT layer at narrowband (packets without coded audio -- every frame <= 1 byte, the low-budget fallback -- reuse a stale TOC and are exempt, as in C11) */ if(rfc_mode(pk[off])!=2||rfc_bandwidth(pk[off])!=0) vc_viol("enc:lfe-stream","family 1, %d channels: LFE stream %d has TOC %02x (mode %d bandwidth %d), expected CELT narrowband",ch,s,pk[off],rfc_mode(pk[off]),rfc_bandwidth(pk[off])); else vc_count("lfe_streams_checked",1); } }
      off+=m.consumed; }
    if(!ok) break; if(off!=len){ vc_viol("enc:trailing-bytes","%d trailing bytes after the last stream",len-off); break; }
    snprintf(ctx,sizeof ctx,"enc family %d ch %d frame %d",fam,ch,k); unsigned char *b=vc_exact_copy(pk,len); int rc=twins_step(&t,b,len,fs,0,ctx); free(b); if(rc) break;
    vc_sig3((uint64_t)fam|((uint64_t)ch<<8),(uint64_t)fidx,(uint64_t)(Fs/8000)|((uint64_t)app<<4)); }
  free(in); opus_multistream_encoder_destroy(me); twins_free(&t);
}

/* ---------------------------------------------------------------- matrix */
static const MappingMatrix *mixm[5]={&mapping_matrix_foa_mixing,&mapping_matrix_soa_mixing,&mapping_matrix_toa_mixing,&mapping_matrix_fourthoa_mixing,&mapping_matrix_fifthoa_mixing};
static const opus_int16 *mixd[5]={mapping_matrix_foa_mixing_data,mapping_matrix_soa_mixing_data,mapping_matrix_toa_mixing_data,mapping_matrix_fourthoa_mixing_data,mapping_matrix_fifthoa_mixing_data};
static const MappingMatrix *dmxm[5]={&mapping_matrix_foa_demixing,&mapping_matrix_soa_demixing,&mapping_matrix_toa_demixing,&mapping_matrix_fourthoa_demixing,&mapping_matrix_fifthoa_demixing};
static const opus_int16 *dmxd[5]={mapping_matrix_foa_demixing_data,mapping_matrix_soa_demixing_data,mapping_matrix_toa_demixing_data,mapping_matrix_fourthoa_demixing_data,mapping_matrix_fifthoa_demixing_data};
static void mode_matrix(void){
  vc_rng r; vc_case_rng(&r,26); int order=1+(int)(vc_case%5); int nd=(vc_case/5)%2; int n=(order+1)*(order+1); int ch=n+2*nd; int N=mixm[order-1]->rows; int err;
  if(mixm[order-1]->cols!=N||dmxm[order-1]->rows!=N||dmxm[order-1]->cols!=N||N!=n+2){ vc_viol("matrix:shape","order %d: matrices are not %dx%d",order,n+2,n+2); return; }
  /* identity: demixing x mixing x 10^(gain/20/256) == I */
  double G=pow(10.0,dmxm[order-1]->gain/(20.0*256.0)); double maxe=0; for(int i=0;i<N;i++) for(int j=0;j<N;j++){ double s=0; for(int k=0;k<N;k++) s+=(dmxd[order-1][k*N+i]/32768.0)*(mixd[order-1][j*N+k]/32768.0); double e=fabs(G*s-(i==j?1.0:0.0)); if(e>maxe) maxe=e; if(e>1e-3){ vc_viol("matrix:not-inverse","order %d: (gain x demixing x mixing)[%d][%d] = %.6f, identity expected (gain %.4f from %d Q8 dB)",order,i,j,G*s,G,dmxm[order-1]->gain); return; } }
  vc_max("matrix_identity_max_error",maxe); vc_count("matrix_entries_checked",(long)N*N);
  int Fs=48000; int S,C; OpusProjectionEncoder *pe=opus_projection_ambisonics_encoder_create(Fs,ch,3,&S,&C,OPUS_APPLICATION_AUDIO,&err); if(!pe){ vc_viol("matrix:create","order %d ch %d: %d",order,ch,err); return; }
  opus_int32 msz=0,gain=-1; opus_projection_encoder_ctl(pe,OPUS_PROJECTION_GET_DEMIXING_MATRIX_SIZE(&msz)); opus_projection_encoder_ctl(pe,OPUS_PROJECTION_GET_DEMIXING_MATRIX_GAIN(&gain)); unsigned char *mt=(unsigned char*)malloc(msz+8); memset(mt,0xEE,msz+8); opus_projection_encoder_ctl(pe,OPUS_PROJECTION_GET_DEMIXING_MATRIX(mt,msz));
  int nin=S+C; if(msz!=2*nin*ch||gain!=dmxm[order-1]->gain||mt[msz]!=0xEE) vc_viol("matrix:export","order %d: exported size %d (expected %d), gain %d (internal %d)",order,msz,2*nin*ch,gain,dmxm[order-1]->gain);
  else { for(int col=0;col<nin;col++) for(int row=0;row<ch;row++){ int v=(short)(mt[2*(col*ch+row)]|(mt[2*(col*ch+row)+1]<<8)); if(v!=dmxd[order-1][col*N+row]){ vc_viol("matrix:export","order %d: exported entry [%d][%d]=%d, internal %d",order,row,col,v,dmxd[order-1][col*N+row]); goto done; } } vc_count("matrix_exports_equal",1); }
  { /* round trip: a tone in one input channel comes back dominant in that channel */ OpusProjectionDecoder *pd=opus_projection_decoder_create(Fs,ch,S,C,mt,msz,&err); if(!pd){ vc_viol("matrix:create","projection decoder create failed %d",err); goto done; }
    opus_projection_encoder_ctl(pe,OPUS_SET_BITRATE(64000*ch)); int fs=960; float *in=(float*)malloc(sizeof(float)*fs*ch), *out=(float*)malloc(sizeof(float)*fs*ch); double *en=(double*)calloc(ch,sizeof(double)), *cross=(double*)calloc(ch,sizeof(double)); static unsigned char pk[40000];
    int c0=vc_below(&r,ch); double f0=300+vc_unit(&r)*2000; long t0=0; int delay=0; opus_int32 la=0; opus_projection_encoder_ctl(pe,OPUS_GET_LOOKAHEAD(&la)); delay=la;
    float *hist=(float*)calloc((size_t)fs*30,sizeof(float)); int nfr=25; int api=(int)((vc_case/10)%3);   /* float, 16-bit and 24-bit entry points (each has its own matrix multiply routines) */ opus_int16 *i16=(opus_int16*)malloc(sizeof(opus_int16)*fs*ch); opus_int32 *i24=(opus_int32*)malloc(sizeof(opus_int32)*fs*ch);
    for(int k=0;k<nfr;k++){ for(int i=0;i<fs;i++){ float v=0.5f*(float)sin(6.283185307*f0*(t0+i)/Fs); hist[t0+i]=v; for(int c=0;c<ch;c++) in[i*ch+c]=c==c0?v:0.f; }
      int len; if(api==1){ for(int i=0;i<fs*ch;i++) i16[i]=vc_f2s(in[i]); len=opus_projection_encode(pe,i16,fs,pk,sizeof pk); } else if(api==2){ for(int i=0;i<fs*ch;i++) i24[i]=(opus_int32)lrintf(in[i]*8388608.f); len=opus_projection_encode24(pe,i24,fs,pk,sizeof pk); } else len=opus_projection_encode_float(pe,in,fs,pk,sizeof pk);
      if(len<=0){ vc_viol("matrix:encode","projection encode %d",len); break; } int rd; if(api==1){ rd=opus_projection_decode(pd,pk,len,i16,fs,0); for(int i=0;i<fs*ch;i++) out[i]=i16[i]/32768.f; } else if(api==2){ rd=opus_projection_decode24(pd,pk,len,i24,fs,0); for(int i=0;i<fs*ch;i++) out[i]=i24[i]/8388608.f; } else rd=opus_projection_decode_float(pd,pk,len,out,fs,0); if(rd!=fs){ vc_viol("matrix:decode","projection decode %d",rd); break; }
      if(k>=5) for(int i=0;i<fs;i++){ long ti=t0+i-delay; if(ti<0) continue; for(int c=0;c<ch;c++){ double o=G*out[i*ch+c]; en[c]+=o*o; cross[c]+=o*hist[ti]; } } t0+=fs; }
    double ein=0; for(long i=5L*fs-delay;i<(long)nfr*fs-delay;i++) if(i>=0) ein+=hist[i]*hist[i];
    int best=0; for(int c=1;c<ch;c++) if(en[c]>en[best]) best=c; double lvl=10*log10(en[c0]/ein+1e-30); double corr=cross[c0]/sqrt(en[c0]*ein+1e-30);
    double other=0; for(int c=0;c<ch;c++) if(c!=c0&&en[c]>other) other=en[c];
    vc_min("projection_roundtrip_level_db",lvl); vc_max("projection_roundtrip_level_db_max",lvl); vc_min("projection_roundtrip_correlation",corr); vc_min("projection_roundtrip_separation_db",10*log10(en[c0]/(other+1e-30)));
    if(best!=c0||corr<0.9||fabs(lvl)>1.5||10*log10(en[c0]/(other+1e-30))<15) vc_viol("matrix:roundtrip","order %d (%d channels): tone in input channel %d comes back with level %.2f dB, correlation %.3f, loudest output channel %d, separation %.1f dB (sample format %d)",order,ch,c0,lvl,corr,best,10*log10(en[c0]/(other+1e-30)),api); else { vc_count("projection_roundtrips_ok",1); vc_named("projection-roundtrip-format-%d",api); }
    free(in); free(out); free(en); free(cross); free(hist); free(i16); free(i24); opus_projection_decoder_destroy(pd); vc_sig3(order,nd,api); }

done:
  free(mt); opus_projection_encoder_destroy(pe);
}

int main(int argc,char **argv){
  static const vc_mode_t modes[]={{"layout",mode_layout},{"dec",mode_dec},{"enc",mode_enc},{"matrix",mode_matrix},{0,0}};
  return vc_main(argc,argv,"C10",modes);
}
