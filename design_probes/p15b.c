#include <stdio.h>
#include <stdlib.h>
#include <string.h>
#include <math.h>
#include "opus.h"
#include "opus_private.h"
static unsigned long long rs=1; static unsigned rnd(void){ rs=rs*6364136223846793005ULL+1442695040888963407ULL; return (unsigned)(rs>>33); }
static double rms(const float*x,int n){ double s=0; for(int i=0;i<n;i++) s+=x[i]*(double)x[i]; return sqrt(s/(n>0?n:1)); }
int main(int argc,char**argv){ rs=atoi(argv[1]); int err;
 int modes[3]={MODE_SILK_ONLY,MODE_HYBRID,MODE_CELT_ONLY}; const char*mn[3]={"silk","hybrid","celt"};
 for(int mi=0;mi<3;mi++) for(int ch=1;ch<=2;ch++) for(int fsi=0;fsi<2;fsi++){
  int Fs=48000; int fs= fsi?Fs/100:Fs/50; 
  OpusEncoder*e=opus_encoder_create(Fs,ch,OPUS_APPLICATION_AUDIO,&err); opus_encoder_ctl(e,OPUS_SET_FORCE_MODE(modes[mi])); opus_encoder_ctl(e,OPUS_SET_BITRATE(mi==2?96000:32000)); opus_encoder_ctl(e,OPUS_SET_INBAND_FEC(1)); opus_encoder_ctl(e,OPUS_SET_PACKET_LOSS_PERC(20));
  if(mi==1) opus_encoder_ctl(e,OPUS_SET_BANDWIDTH(OPUS_BANDWIDTH_FULLBAND)); if(mi==0) opus_encoder_ctl(e,OPUS_SET_BANDWIDTH(OPUS_BANDWIDTH_WIDEBAND));
  OpusDecoder*d=opus_decoder_create(Fs,ch,&err),*twin=opus_decoder_create(Fs,ch,&err),*dplc=opus_decoder_create(Fs,ch,&err);
  int LOSS=atoi(argv[2]); int np=(2+LOSS)*Fs/fs; static float in[960*2], out[5760*2], ot[5760*2], op[5760*2]; static unsigned char pk[2400][600]; static int pl[2400]; long n=0;
  for(int k=0;k<np+10;k++){ for(int i=0;i<fs;i++){ double tt=(n+i)/(double)Fs; double envl=0.55+0.45*sin(2*M_PI*3*tt); double f0=130+30*sin(2*M_PI*0.7*tt); double sp=0; for(int h=1;h<=20;h++) sp+=sin(2*M_PI*f0*h*tt)/h; float v=(float)(0.25*envl*sp)+1e-3f*((rnd()%2001)/1000.f-1); for(int c=0;c<ch;c++) in[i*ch+c]=c?0.7f*v:v; } n+=fs; pl[k]=opus_encode_float(e,in,fs,pk[k],600); }
  /* phase 1: decode 1s; then lose 1.5 s; then resume */
  int p1=Fs/fs, p2=p1+ LOSS*Fs/fs; double pre=0, last=0, maxblk=0; double fecerr=0, plcerr=0, refen=0; int nlbrr=0;
  for(int k=0;k<np;k++){
    int lost = (k>=p1 && k<p2);
    int r; opus_decode_float(twin,pk[k],pl[k],ot,fs,0);
    if(lost){ r=opus_decode_float(d,NULL,0,out,fs,0); double b=rms(out,fs*ch); if(b>maxblk)maxblk=b; if(k>=p2-Fs/(5*fs)) last+=b*b; }
    else r=opus_decode_float(d,pk[k],pl[k],out,fs,0);
    if(k>=p1-Fs/(2*fs) && k<p1){ double b=rms(ot,fs*ch); if(b*b>pre) pre=b*b; }
  }
  pre=sqrt(pre); last=sqrt(last/(Fs/(5*fs)));
  /* recovery: compare d vs twin in final 0.3 s */
  /* FEC test: fresh pair: single losses every 7th packet */
  OpusDecoder*df=opus_decoder_create(Fs,ch,&err),*dp=opus_decoder_create(Fs,ch,&err),*t2=opus_decoder_create(Fs,ch,&err);
  for(int k=0;k+1<np;k++){ opus_decode_float(t2,pk[k],pl[k],ot,fs,0);
    if(k%7==3){ int has=opus_packet_has_lbrr(pk[k+1],pl[k+1]); opus_decode_float(df,pk[k+1],pl[k+1],out,fs,1); opus_decode_float(dp,NULL,0,op,fs,0); if(has>0){ nlbrr++; for(int i=0;i<fs*ch;i++){ fecerr+=(out[i]-ot[i])*(double)(out[i]-ot[i]); plcerr+=(op[i]-ot[i])*(double)(op[i]-ot[i]); refen+=ot[i]*(double)ot[i]; } } }
    else { opus_decode_float(df,pk[k],pl[k],out,fs,0); opus_decode_float(dp,pk[k],pl[k],op,fs,0);} }
  printf("%-6s ch=%d %2dms: pre=%.4f maxPLCblk/pre=%.2f last200ms/pre=%.4f | lbrr=%d fecerr/ref=%.3f plcerr/ref=%.3f ratio=%.3f\n",mn[mi],ch,1000*fs/Fs,pre,maxblk/pre,last/pre,nlbrr, refen>0?fecerr/refen:0, refen>0?plcerr/refen:0, plcerr>0?fecerr/plcerr:0);
 }
 return 0; }
