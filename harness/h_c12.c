/* C12 -- codec state is deterministic, freely copyable and reset-equivalent.
 * Twin objects of the same working-tree code are fed identical inputs; every observable output must be identical.
 *   enc     OpusEncoder: object A in zero-filled caller memory, object B in poisoned caller memory with the stack repainted and
 *           unrelated objects created/destroyed before every call; at a random point A is cloned with memcpy(get_size) into
 *           fresh memory (the original poisoned and freed in half of the cases); at the end the clone is reset and compared
 *           with a newly initialised encoder that received the user's ctl calls.
 *   dec     the same for OpusDecoder over received / lost (bursts) / FEC / hostile packets, float and int16 output
 *   ms      surround / projection encoders and multistream decoders: zero vs poisoned memory, clone, reset vs fresh
 * arg cap=N caps the RTCD feature level through hook H1 (opus_verif_arch_cap).
 */
#include "vcodec.h"

static void __attribute__((noinline)) paint_stack(int pat){ volatile unsigned char buf[160000]; memset((void*)buf,pat,sizeof buf); __asm__ volatile(""::"r"(buf):"memory"); }
static void *poisoned(size_t n,int pat,vc_rng *r){ unsigned char *p=(unsigned char*)malloc(n); if(pat<0) for(size_t i=0;i<n;i++) p[i]=(unsigned char)vc_u32(r); else memset(p,pat,n); return p; }
static void churn(vc_rng *r){ /* unrelated objects come and go, dirtying the heap */ int err; int k=vc_below(r,4);
  if(k==0){ OpusDecoder *d=opus_decoder_create(VC_PICK(r,vk_rates),1+vc_below(r,2),&err); opus_decoder_destroy(d); }
  else if(k==1){ OpusEncoder *e=opus_encoder_create(VC_PICK(r,vk_rates),1+vc_below(r,2),OPUS_APPLICATION_AUDIO,&err); opus_encoder_destroy(e); }
  else if(k==2){ void *p=malloc(1000+vc_below(r,60000)); memset(p,vc_u32(r),1000); free(p); } }
static const int pats[]={0x00,0xA5,0xFF,0x5A,0x01,0x80,-1,-1};

/* ---------------------------------------------------------------- second stack
 * Twin B's codec calls run on a helper thread whose stack is a separately mapped region, entered at a random depth and with
 * a different residue each time: code that lets a stack address or stale stack bytes leak into its output (an element read
 * past an on-stack array, an uninitialised local) behaves differently there than on the main thread's stack. */
#include <pthread.h>
#include <alloca.h>
#include <sys/mman.h>
typedef struct { void (*fn)(void*); void *arg; size_t shift; int pat; } alt_job;
static pthread_t alt_th; static pthread_mutex_t alt_mu=PTHREAD_MUTEX_INITIALIZER; static pthread_cond_t alt_cv=PTHREAD_COND_INITIALIZER; static alt_job *alt_cur; static int alt_started; static long alt_calls;
static void __attribute__((noinline)) alt_tramp(alt_job *j){ volatile unsigned char *p=(volatile unsigned char*)alloca(j->shift+16); memset((void*)p,j->pat,j->shift+16); __asm__ volatile(""::"r"(p):"memory"); j->fn(j->arg); }
static void *alt_main(void *u){ (void)u; for(;;){ pthread_mutex_lock(&alt_mu); while(!alt_cur) pthread_cond_wait(&alt_cv,&alt_mu); alt_job *j=alt_cur; pthread_mutex_unlock(&alt_mu); alt_tramp(j); pthread_mutex_lock(&alt_mu); alt_cur=NULL; pthread_cond_broadcast(&alt_cv); pthread_mutex_unlock(&alt_mu); } return NULL; }
static void alt_run(void (*fn)(void*),void *arg){
  if(!alt_started){ pthread_attr_t at; pthread_attr_init(&at); size_t ssz=16u<<20; void *stk=mmap(NULL,ssz,PROT_READ|PROT_WRITE,MAP_PRIVATE|MAP_ANONYMOUS,-1,0); if(stk==MAP_FAILED){ fprintf(stderr,"alt stack mmap failed\n"); exit(3); } memset(stk,0x6B,ssz); pthread_attr_setstack(&at,stk,ssz); if(pthread_create(&alt_th,&at,alt_main,NULL)){ fprintf(stderr,"alt thread create failed\n"); exit(3); } alt_started=1; }
  alt_job j; j.fn=fn; j.arg=arg; alt_calls++; j.shift=(size_t)((alt_calls*2654435761u)%(1u<<19))&~(size_t)15; j.pat=(int)((alt_calls*37+11)&0xFF);
  pthread_mutex_lock(&alt_mu); alt_cur=&j; pthread_cond_broadcast(&alt_cv); while(alt_cur) pthread_cond_wait(&alt_cv,&alt_mu); pthread_mutex_unlock(&alt_mu); }
typedef struct { OpusEncoder *e; int api; const void *pcm; int fs; unsigned char *out; int maxb; int ret; } altenc;
static void altenc_fn(void *p){ altenc *a=(altenc*)p; a->ret=a->api?opus_encode(a->e,(const opus_int16*)a->pcm,a->fs,a->out,a->maxb):opus_encode_float(a->e,(const float*)a->pcm,a->fs,a->out,a->maxb); }
static int enc_alt(OpusEncoder *e,int api,const void *pcm,int fs,unsigned char *out,int maxb){ altenc a; a.e=e; a.api=api; a.pcm=pcm; a.fs=fs; a.out=out; a.maxb=maxb; a.ret=0; alt_run(altenc_fn,&a); vc_count("calls_on_second_stack",1); return a.ret; }
typedef struct { OpusDecoder *d; int api; const unsigned char *p; int len; void *out; int fsz; int fec; int ret; } altdec;
static void altdec_fn(void *p){ altdec *a=(altdec*)p; a->ret=a->api?opus_decode(a->d,a->p,a->len,(opus_int16*)a->out,a->fsz,a->fec):opus_decode_float(a->d,a->p,a->len,(float*)a->out,a->fsz,a->fec); }
static int dec_alt(OpusDecoder *d,int api,const unsigned char *p,int len,void *out,int fsz,int fec){ altdec a; a.d=d; a.api=api; a.p=p; a.len=len; a.out=out; a.fsz=fsz; a.fec=fec; a.ret=0; alt_run(altdec_fn,&a); vc_count("calls_on_second_stack",1); return a.ret; }

#define MAXCTL 200
/* ---------------------------------------------------------------- enc */
static void mode_enc(void){
  vc_rng r; vc_case_rng(&r,12); int err; int Fs=VC_PICK(&r,vk_rates), ch=1+vc_below(&r,2), app=VC_PICK(&r,vk_apps); int sz=opus_encoder_get_size(ch);
  OpusEncoder *A=(OpusEncoder*)poisoned(sz,0,&r), *B=(OpusEncoder*)poisoned(sz,VC_PICK(&r,pats)?VC_PICK(&r,pats):0xA5,&r);
  if(opus_encoder_init(A,Fs,ch,app)!=OPUS_OK||opus_encoder_init(B,Fs,ch,app)!=OPUS_OK){ vc_viol("enc:init","init failed"); return; }
  vk_encset sa,sb,sf; vk_encset_default(&sa,app); vk_encset_default(&sb,app); vk_encset_default(&sf,app);
  vc_rng ctl[MAXCTL]; int nctl=0; char hist[400]; int ho=0; hist[0]=0; char w[40];
  int sig=vc_below(&r,VS_NFINITE); vc_siggen g; vs_init(&g,sig,Fs,ch,(float)(0.05+0.9*vc_unit(&r)),vc_next(&r));
  int n1=vc_range(&r,5,60), kc=vc_below(&r,n1); int fidx=vc_below(&r,9); int maxb=1500; int freed_original=0; int stage=0;
  static float f[5760*2]; static opus_int16 s16[5760*2]; static unsigned char pa[4000], pb[4000]; int ppat=0x11;
  for(int i=vc_below(&r,5);i>0&&nctl<MAXCTL;i--){ ctl[nctl]=r; vc_rng r1=r,r2=r; vk_enc_random_ctl(A,&sa,&r1,ch,w,sizeof w); vk_enc_random_ctl(B,&sb,&r2,ch,NULL,0); r=r1; nctl++; if(ho<360) ho+=snprintf(hist+ho,sizeof hist-ho,"%s ",w); }
  OpusEncoder *X=A;   /* X = original, then its clone */
  for(int k=0;k<n1;k++){
    if(vc_chance(&r,1,3)&&nctl<MAXCTL){ ctl[nctl]=r; vc_rng r1=r,r2=r; vk_enc_random_ctl(X,&sa,&r1,ch,w,sizeof w); vk_enc_random_ctl(B,&sb,&r2,ch,NULL,0); r=r1; nctl++; if(ho<360) ho+=snprintf(hist+ho,sizeof hist-ho,"%s ",w); }
    if(vc_chance(&r,1,5)) fidx=vc_below(&r,9); if(vc_chance(&r,1,6)) maxb=vc_chance(&r,1,2)?vc_range(&r,3,300):1500; if(vc_chance(&r,1,15)){ g.kind=vc_below(&r,VS_NFINITE); }
    if(k==kc){ OpusEncoder *C=(OpusEncoder*)poisoned(sz,0x5A,&r); memcpy(C,X,sz); if(vc_chance(&r,1,2)){ memset(X,0xDD,sz); free(X); freed_original=1; A=NULL; } X=C; stage=1; if(ho<360) ho+=snprintf(hist+ho,sizeof hist-ho,"<clone%s> ",freed_original?",orig freed":""); }
    int fs=vk_frame_samples(Fs,fidx); int api=vc_below(&r,2); vs_fill(&g,f,fs); if(api) for(int i=0;i<fs*ch;i++) s16[i]=vc_f2s(f[i]);
    memset(pa,0x77,maxb); memset(pb,0x88,maxb);
    int la=api?opus_encode(X,s16,fs,pa,maxb):opus_encode_float(X,f,fs,pa,maxb);
    churn(&r); paint_stack(ppat); ppat=(ppat*7+3)&0xFF;
    int lb=enc_alt(B,api,api?(const void*)s16:(const void*)f,fs,pb,maxb); vc_count("enc_pairs",1);
    opus_uint32 ra=0,rb=0; opus_encoder_ctl(X,OPUS_GET_FINAL_RANGE(&ra)); opus_encoder_ctl(B,OPUS_GET_FINAL_RANGE(&rb));
    if(ho<360) ho+=snprintf(hist+ho,sizeof hist-ho,"[f%d>%d] ",fidx,la);
    if(la!=lb||(la>0&&memcmp(pa,pb,la))||ra!=rb){ vc_viol(stage?"enc:clone-diverges":"enc:memory-dependent","frame %d (%s): twin in poisoned memory/painted stack gives len %d range %08x, other gives len %d range %08x (Fs=%d ch=%d app=%d sig=%s) hist=%s",k,stage?"after memcpy clone":"before clone",lb,rb,la,ra,Fs,ch,app,vs_names[sig],hist); goto out; }
    if(la>0) vc_sig3((uint64_t)pa[0]|((uint64_t)stage<<8)|((uint64_t)freed_original<<9),(uint64_t)(Fs/4000)|((uint64_t)app<<5),(uint64_t)sig|((uint64_t)(la<4)<<5));
  }
  /* reset == fresh with the same settings */
  { OpusEncoder *F=(OpusEncoder*)poisoned(sz,-1,&r); if(opus_encoder_init(F,Fs,ch,app)!=OPUS_OK){ vc_viol("enc:init","init failed"); goto out; }
    for(int i=0;i<nctl;i++){ vc_rng rc=ctl[i]; vk_enc_random_ctl(F,&sf,&rc,ch,NULL,0); }
    if(opus_encoder_ctl(X,OPUS_RESET_STATE)!=OPUS_OK){ vc_viol("enc:reset-failed","OPUS_RESET_STATE failed"); free(F); goto out; }
    vc_siggen g2; vs_init(&g2,vc_below(&r,VS_NFINITE),Fs,ch,(float)(0.05+0.9*vc_unit(&r)),vc_next(&r)); int n2=vc_range(&r,6,30);
    for(int k=0;k<n2;k++){ if(vc_chance(&r,1,6)) fidx=vc_below(&r,9); int fs=vk_frame_samples(Fs,fidx); vs_fill(&g2,f,fs);
      int la=opus_encode_float(X,f,fs,pa,1500); paint_stack(ppat^0x3C); int lb=enc_alt(F,0,f,fs,pb,1500); vc_count("enc_reset_pairs",1);
      opus_uint32 ra=0,rb=0; opus_encoder_ctl(X,OPUS_GET_FINAL_RANGE(&ra)); opus_encoder_ctl(F,OPUS_GET_FINAL_RANGE(&rb));
      if(getenv("C12_DEBUG")){ opus_int32 v1=-9,v2=-9,b1=0,b2=0; opus_encoder_ctl(X,11019,&v1); opus_encoder_ctl(F,11019,&v2); opus_encoder_ctl(X,OPUS_GET_BANDWIDTH(&b1)); opus_encoder_ctl(F,OPUS_GET_BANDWIDTH(&b2)); fprintf(stderr,"post-reset frame %d fs=%d: reset len %d toc %02x rng %08x voice_ratio %d bw %d | fresh len %d toc %02x rng %08x voice_ratio %d bw %d\n",k,fs,la,pa[0],ra,v1,b1,lb,pb[0],rb,v2,b2); }
      if(la!=lb||(la>0&&memcmp(pa,pb,la))||ra!=rb){ /* diagnostic: did a getter drift from what the user set? */
        opus_int32 fcX=0,fcF=0,brX=0,brF=0,bwX=0,bwF=0; opus_encoder_ctl(X,OPUS_GET_FORCE_CHANNELS(&fcX)); opus_encoder_ctl(F,OPUS_GET_FORCE_CHANNELS(&fcF)); opus_encoder_ctl(X,OPUS_GET_BITRATE(&brX)); opus_encoder_ctl(F,OPUS_GET_BITRATE(&brF)); opus_encoder_ctl(X,OPUS_GET_MAX_BANDWIDTH(&bwX)); opus_encoder_ctl(F,OPUS_GET_MAX_BANDWIDTH(&bwF));
        vc_viol(fcX!=fcF||bwX!=bwF?"enc:reset-differs:setting-changed-behind-user":"enc:reset-differs","frame %d after OPUS_RESET_STATE: reset object gives len %d range %08x toc %02x, new object with the same %d ctl calls gives len %d range %08x toc %02x (Fs=%d ch=%d app=%d; force_channels %d/%d bitrate %d/%d) hist=%s",k,la,ra,pa[0],nctl,lb,rb,pb[0],Fs,ch,app,fcX,fcF,brX,brF,hist); free(F); goto out; } }
    vc_count("enc_reset_equal",1); free(F); }
  if(vc_want_sample()) vc_sample("{\"mode\":\"enc\",\"Fs\":%d,\"ch\":%d,\"app\":%d,\"frames\":%d,\"clone_at\":%d,\"original_freed\":%d,\"ctl_calls\":%d,\"history\":\"%s\"}",Fs,ch,app,n1,kc,freed_original,nctl,hist);
out:
  free(X); free(B); if(X!=A&&A) free(A);
}

/* ---------------------------------------------------------------- dec */
typedef struct { int kind; const unsigned char *p; int len; int fec; int fsz; int api; } dcall;
static void mode_dec(void){
  vc_rng r; vc_case_rng(&r,22); vk_pool_init(); int err; int Fs=VC_PICK(&r,vk_rates), ch=1+vc_below(&r,2); int sz=opus_decoder_get_size(ch);
  OpusDecoder *A=(OpusDecoder*)poisoned(sz,0,&r), *B=(OpusDecoder*)poisoned(sz,VC_PICK(&r,pats)?0xA5:-1,&r); if(opus_decoder_init(A,Fs,ch)||opus_decoder_init(B,Fs,ch)){ vc_viol("dec:init","init failed"); return; }
  int gain=vc_chance(&r,1,3)?vc_range(&r,-2000,2000):0; int pinv=vc_below(&r,2); OpusDecoder *X=A;
  opus_decoder_ctl(A,OPUS_SET_GAIN(gain)); opus_decoder_ctl(B,OPUS_SET_GAIN(gain)); opus_decoder_ctl(A,OPUS_SET_PHASE_INVERSION_DISABLED(pinv)); opus_decoder_ctl(B,OPUS_SET_PHASE_INVERSION_DISABLED(pinv));
  static float oa[5760*2], ob[5760*2]; static opus_int16 sa[5760*2], sb[5760*2]; static unsigned char hb[4200]; int ppat=0x21; int stage=0;
  int nstreams=vc_range(&r,1,3); int total=0; int cap=Fs/25*3;
  for(int sidx=0;sidx<nstreams+1;sidx++){
    int post_reset=(sidx==nstreams);
    if(post_reset){ /* reset == fresh */ OpusDecoder *F=(OpusDecoder*)poisoned(sz,-1,&r); opus_decoder_init(F,Fs,ch); opus_decoder_ctl(F,OPUS_SET_GAIN(gain)); opus_decoder_ctl(F,OPUS_SET_PHASE_INVERSION_DISABLED(pinv)); opus_decoder_ctl(X,OPUS_RESET_STATE); free(B); B=F; stage=2; }
    vk_stream *st=&vk_pool[vc_below(&r,vk_pool_n)]; int burst=0; int kc=vc_below(&r,st->n+1);
    for(int k=0;k<st->n;k++){
      if(stage==0&&sidx==0&&k==kc){ OpusDecoder *C=(OpusDecoder*)poisoned(sz,0x5A,&r); memcpy(C,X,sz); if(vc_chance(&r,1,2)){ memset(X,0xDD,sz); free(X); A=NULL; } X=C; stage=1; }
      int kind; if(burst>0){ kind=1; burst--; } else { kind=vc_chance(&r,1,10)?1: vc_chance(&r,1,14)?2: vc_chance(&r,1,12)?3:0; if(kind==1&&vc_chance(&r,1,2)) burst=vc_range(&r,1,9); }
      const unsigned char *p=st->pkt[k]; int len=st->len[k]; int fec=0; unsigned char *tmp=NULL; int fsz=opus_packet_get_nb_samples(p,len,Fs); if(fsz<=0||fsz>cap) continue;
      if(kind==1){ p=NULL; len=0; } else if(kind==2) fec=1; else if(kind==3){ memcpy(hb,p,len); len=vk_mutate(&r,hb,len,4000); tmp=vc_exact_copy(hb,len); p=tmp; fsz=cap; }
      /* "regardless of earlier unrelated calls": calls that are refused (buffer too small for another stream's packet, corrupt packet, bad arguments, bad ctl values) are made on
         one twin only and must leave no trace; if such a call happens to succeed it is mirrored on the other twin */
      if(vc_chance(&r,1,6)){ static float junk[5760*2]; int what=(int)vc_below(&r,4); int rc=-1; vk_stream *o=&vk_pool[vc_below(&r,vk_pool_n)]; int ok=vc_below(&r,o->n); const unsigned char *q=o->pkt[ok]; int ql=o->len[ok];
        if(what==0){ int qs=opus_packet_get_nb_samples(q,ql,Fs); int small=Fs/400*(1+(int)vc_below(&r,3)); if(qs>small){ rc=opus_decode_float(X,q,ql,junk,small,0); if(rc>=0) opus_decode_float(B,q,ql,junk,small,0); } }
        else if(what==1){ static unsigned char bad[8]={0x03,0xFF,0xFE,0xFD,0x00,0x01,0x02,0x03}; rc=opus_decode_float(X,bad,2,junk,cap,0); if(rc>=0) opus_decode_float(B,bad,2,junk,cap,0); }
        else if(what==2){ rc=opus_decode_float(X,q,-1,junk,cap,0); if(rc>=0) opus_decode_float(B,q,-1,junk,cap,0); rc=opus_decode_float(X,q,ql,junk,cap+1,1); (void)rc; rc=-1; }
        else { rc=opus_decoder_ctl(X,OPUS_SET_GAIN(40000)); opus_int32 v; opus_decoder_ctl(X,OPUS_GET_BANDWIDTH(&v)); opus_decoder_ctl(X,OPUS_GET_LAST_PACKET_DURATION(&v)); opus_decoder_ctl(X,OPUS_GET_PITCH(&v)); }
        vc_count(rc<0?"dec_refused_unrelated_calls":"dec_unrelated_calls_that_succeeded",1); }
      int api=vc_below(&r,2); int ra,rb; memset(oa,0,sizeof(float)*8); memset(ob,0,sizeof(float)*8);
      if(api){ ra=opus_decode(X,p,len,sa,fsz,fec); churn(&r); paint_stack(ppat); rb=dec_alt(B,1,p,len,sb,fsz,fec); } else { ra=opus_decode_float(X,p,len,oa,fsz,fec); churn(&r); paint_stack(ppat); rb=dec_alt(B,0,p,len,ob,fsz,fec); }
      ppat=(ppat*5+1)&0xFF; vc_count(stage==2?"dec_reset_pairs":"dec_pairs",1); total++;
      opus_uint32 fa=0,fb=0; opus_decoder_ctl(X,OPUS_GET_FINAL_RANGE(&fa)); opus_decoder_ctl(B,OPUS_GET_FINAL_RANGE(&fb));
      int diff=(ra!=rb)||(ra>0&&fa!=fb)||(ra>0&&(api?memcmp(sa,sb,2*ra*ch):memcmp(oa,ob,4*ra*ch)));
      if(diff){ int first=-1; if(ra>0&&ra==rb) for(int i=0;i<ra*ch;i++) if(api?sa[i]!=sb[i]:memcmp(&oa[i],&ob[i],4)){ first=i; break; }
        vc_viol(stage==2?"dec:reset-differs":stage==1?"dec:clone-diverges":"dec:memory-dependent","stream %d call %d kind %d (%s): ret %d/%d range %08x/%08x first differing sample %d (Fs=%d ch=%d gain=%d toc=%02x mode=%d)",sidx,k,kind,stage==2?"reset object vs new object":stage==1?"memcpy clone vs twin":"zero vs poisoned memory",ra,rb,fa,fb,first,Fs,ch,gain,st->pkt[k][0],st->mode); free(tmp); goto out; }
      vc_sig3((uint64_t)(st->pkt[k][0]>>3)|((uint64_t)kind<<5)|((uint64_t)stage<<8),(uint64_t)(Fs/8000)|((uint64_t)ch<<3)|((uint64_t)api<<5),(uint64_t)(burst>4));
      free(tmp); }
    if(stage==2) vc_count("dec_reset_equal",1);
  }
  if(vc_want_sample()) vc_sample("{\"mode\":\"dec\",\"Fs\":%d,\"ch\":%d,\"gain\":%d,\"calls\":%d}",Fs,ch,gain,total);
out:
  free(X); free(B); if(X!=A&&A) free(A);
}

/* ---------------------------------------------------------------- ms */
static void mode_ms(void){
  vc_rng r; vc_case_rng(&r,23); int Fs=VC_PICK(&r,vk_rates), app=VC_PICK(&r,vk_apps); static const int fams[4]={0,1,255,3}; int fam=VC_PICK(&r,fams); int ch;
  if(fam==0) ch=vc_range(&r,1,2); else if(fam==1) ch=vc_range(&r,1,8); else if(fam==255) ch=vc_range(&r,1,6); else { int o=vc_range(&r,1,2); ch=(o+1)*(o+1)+(vc_chance(&r,1,3)?2:0); }
  int streams=0,coupled=0; unsigned char map[256]; void *EA,*EB; int esz;
  if(fam==3){ esz=opus_projection_ambisonics_encoder_get_size(ch,3); if(esz<=0){ vc_viol("ms:size","projection size %d",esz); return; } EA=poisoned(esz,0,&r); EB=poisoned(esz,VC_PICK(&r,pats)?0xA5:-1,&r);
    if(opus_projection_ambisonics_encoder_init((OpusProjectionEncoder*)EA,Fs,ch,3,&streams,&coupled,app)||opus_projection_ambisonics_encoder_init((OpusProjectionEncoder*)EB,Fs,ch,3,&streams,&coupled,app)){ vc_viol("ms:init","projection init failed"); return; } }
  else { esz=opus_multistream_surround_encoder_get_size(ch,fam); if(esz<=0){ vc_viol("ms:size","surround size %d",esz); return; } EA=poisoned(esz,0,&r); EB=poisoned(esz,VC_PICK(&r,pats)?0xA5:-1,&r);
    if(opus_multistream_surround_encoder_init((OpusMSEncoder*)EA,Fs,ch,fam,&streams,&coupled,map,app)||opus_multistream_surround_encoder_init((OpusMSEncoder*)EB,Fs,ch,fam,&streams,&coupled,map,app)){ vc_viol("ms:init","surround init failed"); return; } }
  /* decoders: zero vs poisoned memory */
  /* the decoder twins get one more output channel than the encoder, mapped to 255 (muted), in half of the cases: what they write there must not depend on what the buffer held */
  int dch=ch; if(fam!=3&&ch<255&&vc_chance(&r,1,2)){ map[ch]=255; dch=ch+1; }
  OpusMSDecoder *DA=NULL,*DB=NULL; if(fam!=3){ int dsz=opus_multistream_decoder_get_size(streams,coupled); DA=(OpusMSDecoder*)poisoned(dsz,0,&r); DB=(OpusMSDecoder*)poisoned(dsz,-1,&r); if(opus_multistream_decoder_init(DA,Fs,dch,streams,coupled,map)||opus_multistream_decoder_init(DB,Fs,dch,streams,coupled,map)){ vc_viol("ms:init","ms decoder init failed"); return; } }
  /* projection decoder twins (zero vs poisoned memory; cloned with memcpy and reset along the way like the encoders) */
  OpusProjectionDecoder *PA=NULL,*PB=NULL; int psz=0; unsigned char *dmx=NULL; opus_int32 dmxsz=0;
  if(fam==3){ opus_projection_encoder_ctl((OpusProjectionEncoder*)EA,OPUS_PROJECTION_GET_DEMIXING_MATRIX_SIZE(&dmxsz)); dmx=(unsigned char*)malloc(dmxsz); opus_projection_encoder_ctl((OpusProjectionEncoder*)EA,OPUS_PROJECTION_GET_DEMIXING_MATRIX(dmx,dmxsz));
    psz=opus_projection_decoder_get_size(ch,streams,coupled); if(psz<=0){ vc_viol("ms:size","projection decoder size %d",psz); return; } PA=(OpusProjectionDecoder*)poisoned(psz,0,&r); PB=(OpusProjectionDecoder*)poisoned(psz,-1,&r);
    if(opus_projection_decoder_init(PA,Fs,ch,streams,coupled,dmx,dmxsz)||opus_projection_decoder_init(PB,Fs,ch,streams,coupled,dmx,dmxsz)){ vc_viol("ms:init","projection decoder init failed"); return; } }
  vc_siggen g; vs_init(&g,vc_below(&r,VS_NFINITE),Fs,ch,0.5f,vc_next(&r)); float *in=(float*)malloc(sizeof(float)*5760*ch), *oa=(float*)malloc(sizeof(float)*5760*(ch+1)), *ob=(float*)malloc(sizeof(float)*5760*(ch+1)); static unsigned char pa[8000], pb[8000];
  int n=vc_range(&r,6,24), kc=vc_below(&r,n-2), kr=kc+1+(int)vc_below(&r,n-kc-1); int fidx=vc_range(&r,0,6); int stage=0; void *X=EA; int br=OPUS_AUTO,vbr=1,cx=9; int nset=0; struct { int br,vbr,cx; } sets[40];
  for(int k=0;k<n;k++){
    if(vc_chance(&r,1,3)&&nset<40){ br=vc_chance(&r,1,6)?OPUS_AUTO:vc_range(&r,4000,64000)*ch; vbr=vc_below(&r,2); cx=vc_below(&r,11); sets[nset].br=br; sets[nset].vbr=vbr; sets[nset].cx=cx; nset++;
      void *es[2]={X,EB}; for(int i=0;i<2;i++){ if(fam==3){ opus_projection_encoder_ctl((OpusProjectionEncoder*)es[i],OPUS_SET_BITRATE(br)); opus_projection_encoder_ctl((OpusProjectionEncoder*)es[i],OPUS_SET_VBR(vbr)); opus_projection_encoder_ctl((OpusProjectionEncoder*)es[i],OPUS_SET_COMPLEXITY(cx)); } else { opus_multistream_encoder_ctl((OpusMSEncoder*)es[i],OPUS_SET_BITRATE(br)); opus_multistream_encoder_ctl((OpusMSEncoder*)es[i],OPUS_SET_VBR(vbr)); opus_multistream_encoder_ctl((OpusMSEncoder*)es[i],OPUS_SET_COMPLEXITY(cx)); } } }
    if(k==kc){ void *C=poisoned(esz,0x5A,&r); memcpy(C,X,esz); memset(X,0xDD,esz); free(X); X=C; stage=1; }
    if(k==kc&&PA){ OpusProjectionDecoder *C=(OpusProjectionDecoder*)poisoned(psz,0x5A,&r); memcpy(C,PA,psz); memset(PA,0xDD,psz); free(PA); PA=C; vc_count("projection_decoder_clones",1); }
    if(k==kr){ /* reset the clone; compare from here with a new object that got the same settings */ void *F=poisoned(esz,-1,&r); int s2,c2; unsigned char m2[255];
      if(fam==3) opus_projection_ambisonics_encoder_init((OpusProjectionEncoder*)F,Fs,ch,3,&s2,&c2,app); else opus_multistream_surround_encoder_init((OpusMSEncoder*)F,Fs,ch,fam,&s2,&c2,m2,app);
      for(int i=0;i<nset;i++){ if(fam==3){ opus_projection_encoder_ctl((OpusProjectionEncoder*)F,OPUS_SET_BITRATE(sets[i].br)); opus_projection_encoder_ctl((OpusProjectionEncoder*)F,OPUS_SET_VBR(sets[i].vbr)); opus_projection_encoder_ctl((OpusProjectionEncoder*)F,OPUS_SET_COMPLEXITY(sets[i].cx)); } else { opus_multistream_encoder_ctl((OpusMSEncoder*)F,OPUS_SET_BITRATE(sets[i].br)); opus_multistream_encoder_ctl((OpusMSEncoder*)F,OPUS_SET_VBR(sets[i].vbr)); opus_multistream_encoder_ctl((OpusMSEncoder*)F,OPUS_SET_COMPLEXITY(sets[i].cx)); } }
      if(fam==3) opus_projection_encoder_ctl((OpusProjectionEncoder*)X,OPUS_RESET_STATE); else opus_multistream_encoder_ctl((OpusMSEncoder*)X,OPUS_RESET_STATE);
      if(getenv("C12_DEBUG")){ const unsigned char *a=(const unsigned char*)X,*b=(const unsigned char*)F; int st=-1; fprintf(stderr,"reset at frame %d, object size %d; differing byte ranges (reset object vs new object):",k,esz); for(int q=0;q<=esz;q++){ int df=q<esz&&a[q]!=b[q]; if(df&&st<0) st=q; if(!df&&st>=0){ fprintf(stderr," [%d,%d)",st,q); st=-1; } } fprintf(stderr,"\n"); if(getenv("C12_PATCH")){ int lo=0,hi=-1,idx=0; sscanf(getenv("C12_PATCH"),"%d-%d",&lo,&hi); unsigned char *fb=(unsigned char*)F; st=-1; for(int q=0;q<=esz;q++){ int df=q<esz&&a[q]!=fb[q]; if(df&&st<0) st=q; if(!df&&st>=0){ if(idx>=lo&&idx<=hi) memcpy(fb+st,a+st,q-st); idx++; st=-1; } } } }
      if(PA){ opus_projection_decoder_ctl(PA,OPUS_RESET_STATE); free(PB); PB=(OpusProjectionDecoder*)poisoned(psz,-1,&r); opus_projection_decoder_init(PB,Fs,ch,streams,coupled,dmx,dmxsz); }
      free(EB); EB=F; stage=2; if(DA){ opus_multistream_decoder_ctl(DA,OPUS_RESET_STATE); int dsz=opus_multistream_decoder_get_size(streams,coupled); free(DB); DB=(OpusMSDecoder*)poisoned(dsz,-1,&r); opus_multistream_decoder_init(DB,Fs,dch,streams,coupled,map); } }
    if(vc_chance(&r,1,5)) fidx=vc_range(&r,0,6); int fs=vk_frame_samples(Fs,fidx); vs_fill(&g,in,fs);
    int la= fam==3?opus_projection_encode_float((OpusProjectionEncoder*)X,in,fs,pa,8000):opus_multistream_encode_float((OpusMSEncoder*)X,in,fs,pa,8000); paint_stack(0x40+k);
    int lb= fam==3?opus_projection_encode_float((OpusProjectionEncoder*)EB,in,fs,pb,8000):opus_multistream_encode_float((OpusMSEncoder*)EB,in,fs,pb,8000); vc_count("ms_enc_pairs",1);
    if(getenv("C12_DEBUG")&&esz>135724) fprintf(stderr,"frame %d stage %d fs %d: enc3 celt force_intra %d / %d disable_pf %d / %d, len %d/%d first differing byte %d\n",k,stage,fs,((int*)((char*)X+135720))[0],((int*)((char*)EB+135720))[0],((int*)((char*)X+135728))[0],((int*)((char*)EB+135728))[0],la,lb,({int q=0; while(q<la&&q<lb&&pa[q]==pb[q]) q++; q;}));
    if(la!=lb||la<=0||memcmp(pa,pb,la)){ vc_viol(stage==2?"ms:enc-reset-differs":stage==1?"ms:enc-clone-diverges":"ms:enc-memory-dependent","family %d ch %d frame %d (%s): len %d vs %d (Fs=%d fs=%d)",fam,ch,k,stage==2?"reset vs new":stage==1?"clone vs twin":"zero vs poisoned memory",la,lb,Fs,fs); break; }
    if(DA){ int lost=vc_chance(&r,1,8); memset(oa,0x11,sizeof(float)*fs*dch); memset(ob,0xC7,sizeof(float)*fs*dch);   /* different previous contents in the two output buffers */ int ra=opus_multistream_decode_float(DA,lost?NULL:pa,lost?0:la,oa,fs,0); paint_stack(0x90+k); int rb=opus_multistream_decode_float(DB,lost?NULL:pa,lost?0:la,ob,fs,0); vc_count("ms_dec_pairs",1);
      if(ra!=rb||ra!=fs||memcmp(oa,ob,sizeof(float)*fs*dch)){ vc_viol(stage==2?"ms:dec-reset-differs":"ms:dec-memory-dependent","family %d ch %d (+%d muted) frame %d: multistream decoder twins differ (ret %d/%d)",fam,ch,dch-ch,k,ra,rb); break; } if(dch>ch) vc_count("ms_dec_pairs_with_muted_channel",1); }
    if(PA){ int lost=vc_chance(&r,1,8); memset(oa,0x11,sizeof(float)*fs*ch); memset(ob,0xC7,sizeof(float)*fs*ch); int ra=opus_projection_decode_float(PA,lost?NULL:pa,lost?0:la,oa,fs,0); paint_stack(0x90+k); int rb=opus_projection_decode_float(PB,lost?NULL:pa,lost?0:la,ob,fs,0); vc_count("projection_dec_pairs",1);
      if(ra!=rb||ra!=fs||memcmp(oa,ob,sizeof(float)*fs*ch)){ vc_viol(stage==2?"ms:dec-reset-differs":stage==1?"ms:dec-clone-diverges":"ms:dec-memory-dependent","projection decoder, %d channels, frame %d: twins differ (ret %d/%d; %s)",ch,k,ra,rb,stage==2?"reset vs new":stage==1?"memcpy clone vs twin":"zero vs poisoned memory"); break; } }
    vc_sig3((uint64_t)fam|((uint64_t)ch<<8),(uint64_t)stage|((uint64_t)fidx<<2),(uint64_t)(Fs/8000));
  }
  free(in); free(oa); free(ob); free(X); free(EB); free(DA); free(DB); free(PA); free(PB); free(dmx);
}

int main(int argc,char **argv){
  static const vc_mode_t modes[]={{"enc",mode_enc},{"dec",mode_dec},{"ms",mode_ms},{0,0}};
#ifdef XIPH_OPUS_VERIF
  for(int i=6;i<argc;i++) if(!strncmp(argv[i],"cap=",4)){ if(&opus_verif_arch_cap) opus_verif_arch_cap=atoi(argv[i]+4); else { fprintf(stderr,"hook H1 (opus_verif_arch_cap) is missing from this tree\n"); return 3; } }
#endif
  return vc_main(argc,argv,"C12",modes);
}
