#!/bin/sh
# stash_mut.sh Cxx [worktree-prefix] : copy a finished sub-agent's deliverables to /verif/seeded_pending and remove its worktree
c=$1; pre=${2:-wt_m}
for v in A B C D E F G H I J K L M N; do
  if [ -d /tmp/${pre}_$c/mutation/$v ]; then
    rm -rf /verif/seeded_pending/$c-$v; mkdir -p /verif/seeded_pending/$c-$v
    for f in patch.diff demo.c build_demo.sh NOTES.md $(cd /tmp/${pre}_$c/mutation/$v && ls *.h 2>/dev/null); do cp /tmp/${pre}_$c/mutation/$v/$f /verif/seeded_pending/$c-$v/ 2>/dev/null; done
    sed -i "s#/tmp/${pre}_$c#/tmp/wt_m_$c#g" /verif/seeded_pending/$c-$v/build_demo.sh 2>/dev/null
    echo "$c-$v: $(ls /verif/seeded_pending/$c-$v | tr '\n' ' ')"
  fi
done
git -C /repo worktree remove --force /tmp/${pre}_$c; rm -rf /tmp/${pre}_$c; git -C /repo worktree prune
