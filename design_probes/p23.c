#include <stdio.h>
#include <math.h>
#include "opus.h"
#include "opus_private.h"
int main(){ int err; int Fs=16000,ch=2; OpusEncoder*e=opus_encoder_create(Fs,ch,OPUS_APPLICATION_VOIP,&err); opus_encoder_ctl(e,OPUS_SET_FORCE_MODE(MODE_SILK_ONLY));
 int fs=Fs*80/1000; static short in[1920*2]; unsigned char pk[1500]; opus_int32 fc;
 for(int k=0;k<40;k++){ opus_encoder_ctl(e,OPUS_SET_BITRATE(k<10?40000:(k<25?9000:48000)));
   for(int i=0;i<fs;i++){ double t=(k*fs+i)/(double)Fs; in[2*i]=(short)(8000*sin(2*M_PI*200*t)*(0.5+0.5*sin(2*M_PI*3*t))); in[2*i+1]=(short)(6000*sin(2*M_PI*310*t)); }
   int l=opus_encode(e,in,fs,pk,1500); opus_encoder_ctl(e,OPUS_GET_FORCE_CHANNELS(&fc)); printf("k=%2d len=%3d toc=%02x stereo=%d force_channels(getter)=%d\n",k,l,pk[0],(pk[0]>>2)&1,fc); }
 return 0; }
