#include <stdio.h>
#include <stdlib.h>
#include <string.h>
#include "entenc.h"
#include "entdec.h"
static unsigned long long rs=1; static unsigned rnd(void){ rs=rs*6364136223846793005ULL+1442695040888963407ULL; return (unsigned)(rs>>33); }
typedef struct{int kind; unsigned a,b,c;} Op;
int main(int argc,char**argv){ int N=atoi(argv[1]); rs=atoi(argv[2]); long bad_done=0, bad_dec=0, bad_tell=0, okstreams=0, errstreams=0, nonmono=0, rel=0;
 for(int it=0;it<N;it++){
  int size=1+rnd()%(rnd()%4==0?1275:40); unsigned char buf[1300+16]; memset(buf,0xCD,sizeof buf);
  int nops=1+rnd()%(rnd()%3==0?400:40); static Op ops[4000]; static unsigned tf[4001]; static int tl[4001]; static unsigned rg[4001];
  ec_enc enc; ec_enc_init(&enc,buf,size); tf[0]=ec_tell_frac(&enc); tl[0]=ec_tell(&enc); rg[0]=enc.rng; int n=0;
  for(int j=0;j<nops;j++){ Op o; o.kind=rnd()%6;
    switch(o.kind){
     case 0:{ unsigned ft=1+rnd()%(rnd()%2?65536:300); if(ft<2) ft=2; unsigned fl=rnd()%ft; unsigned fh=fl+1+rnd()%(ft-fl); o.a=fl;o.b=fh;o.c=ft; ec_encode(&enc,fl,fh,ft);}break;
     case 1:{ unsigned bits=1+rnd()%15; unsigned ft=1u<<bits; unsigned fl=rnd()%ft; unsigned fh=fl+1+rnd()%(ft-fl); o.a=fl;o.b=fh;o.c=bits; ec_encode_bin(&enc,fl,fh,bits);}break;
     case 2:{ unsigned logp=1+rnd()%15; unsigned v=(rnd()%(1u<<(rnd()%logp+1)))==0; o.a=v;o.b=logp; ec_enc_bit_logp(&enc,v,logp);}break;
     case 3:{ unsigned ft= (rnd()%3==0)? (2+rnd()%0xFFFFFFFEu) : 2+rnd()%1000; if(ft<2)ft=2; unsigned v=(unsigned)(((unsigned long long)rnd()*ft)>>31)%ft; o.a=v;o.b=ft; ec_enc_uint(&enc,v,ft);}break;
     case 4:{ unsigned bits=1+rnd()%25; unsigned v=rnd()&((1u<<bits)-1); o.a=v;o.b=bits; ec_enc_bits(&enc,v,bits);}break;
     case 5:{ /* icdf with random table */ unsigned ftb=8; static unsigned char t[8]; int len=2+rnd()%6; int cur=256; for(int q=0;q<len-1;q++){ int rem=len-1-q; int step=1+rnd()%((cur-rem)>1?(cur-rem)/rem+1:1); cur-=step; if(cur<rem) cur=rem; t[q]=cur; } t[len-1]=0; unsigned s=rnd()%len; o.a=s; o.b=len; o.c=0; memcpy(&o.c,t,4); /* store first 4 */ 
        ec_enc_icdf(&enc,s,t,ftb); /* keep table for decode */ static unsigned char tabs[4000][8]; memcpy(tabs[n],t,8); }break; }
    ops[n]=o; n++; tf[n]=ec_tell_frac(&enc); tl[n]=ec_tell(&enc); rg[n]=enc.rng;
    if(tf[n]<tf[n-1]) nonmono++;
    if(!(tf[n]<=8u*tl[n] && tf[n]+7>=8u*tl[n])) rel++;
  }
  int tell_end=ec_tell(&enc); int err_before=enc.error; ec_enc_done(&enc);
  for(int i=0;i<16;i++) if(buf[size+i]!=0xCD){ printf("OVERWRITE\n"); return 1; }
  if(tell_end<=8*size && enc.error){ bad_done++; if(bad_done<5) printf("DONEFAIL tell=%d size=%d errbefore=%d nops=%d\n",tell_end,size,err_before,n); }
  if(enc.error){ errstreams++; continue;} okstreams++;
  (void)bad_dec;(void)bad_tell;
 }
 printf("ok=%ld err=%ld bad_done=%ld nonmono=%ld rel=%ld\n",okstreams,errstreams,bad_done,nonmono,rel); return 0; }
