#include <stdio.h>
#include <stdlib.h>
#include <string.h>
#include "opus.h"
#include "opus_private.h"
static unsigned long long rs=1; static unsigned rnd(void){ rs=rs*6364136223846793005ULL+1442695040888963407ULL; return (unsigned)(rs>>33); }
static int cmpf(const void*a,const void*b){ const opus_extension_data*x=a,*y=b; return x->frame-y->frame; }
int main(int argc,char**argv){ int N=atoi(argv[1]); rs=atoi(argv[2]); long bad=0, ok=0, rej=0, sizebad=0, small_ok=0;
 static unsigned char payload[200000]; for(int i=0;i<200000;i++) payload[i]=rnd();
 for(int it=0;it<N;it++){
  int nf=1+rnd()%(rnd()%3?4:48); int n=rnd()%(rnd()%4?12:60); static opus_extension_data ext[100], out[200], outf[200];
  int pattern=rnd()%4; 
  for(int i=0;i<n;i++){ int id= (rnd()%2)? 3+rnd()%29 : 32+rnd()%96; if(pattern==1) id = (i%3==0)?40:5; if(pattern==2) id=33;
    int len = id<32 ? rnd()%2 : (rnd()%5==0? 250+rnd()%20 : (rnd()%7==0? 505+rnd()%10: rnd()%20)); if(pattern>=1 && id<32) len=1; if(pattern==2) len= (rnd()%2)?0:3;
    ext[i].id=id; ext[i].frame= (pattern>=1)? (i%nf) : rnd()%nf; ext[i].len=len; ext[i].data=payload+rnd()%100000; }
  if(rnd()%2) { /* stable sort by frame */ for(int i=1;i<n;i++){ opus_extension_data t=ext[i]; int j=i-1; while(j>=0&&ext[j].frame>t.frame){ext[j+1]=ext[j];j--;} ext[j+1]=t; } }
  int need=opus_packet_extensions_generate(NULL,100000,ext,n,nf,0);
  if(need<0){ rej++; continue; }
  unsigned char*buf=malloc(need+8); memset(buf,0xEE,need+8);
  int w=opus_packet_extensions_generate(buf,need,ext,n,nf,0);
  if(w!=need||buf[need]!=0xEE){ sizebad++; if(sizebad<5) printf("SIZE need=%d w=%d\n",need,w); }
  if(need>0){ unsigned char*b2=malloc(need); int w2=opus_packet_extensions_generate(b2,need-1,ext,n,nf,0); if(w2>=0){ small_ok++; if(small_ok<5) printf("SMALLOK need=%d w2=%d n=%d nf=%d\n",need,w2,n,nf);} free(b2);} 
  opus_int32 cnt=opus_packet_extensions_count(buf,need,nf); opus_int32 nout=200; int r=opus_packet_extensions_parse(buf,need,out,&nout,nf);
  int good = (r==0 && nout==n && cnt==n);
  if(good){ /* per-frame order */
    for(int f=0;f<nf&&good;f++){ int a=0,b=0; for(;;){ while(a<n&&ext[a].frame!=f)a++; while(b<nout&&out[b].frame!=f)b++; if(a>=n||b>=nout){ if((a>=n)!=(b>=nout)) good=0; break;} if(ext[a].id!=out[b].id||ext[a].len!=out[b].len||memcmp(ext[a].data,out[b].data,ext[a].len)) {good=0;break;} a++;b++; } } }
  if(!good){ bad++; if(bad<6){ printf("BAD r=%d nout=%d cnt=%d n=%d nf=%d pattern=%d need=%d\n",r,nout,cnt,n,nf,pattern,need); for(int i=0;i<n&&i<12;i++) printf(" (%d,f%d,l%d)",ext[i].id,ext[i].frame,ext[i].len); printf("\n"); } } else ok++;
  free(buf);
 }
 printf("ok=%ld bad=%ld rej=%ld sizebad=%ld small_ok=%ld\n",ok,bad,rej,sizebad,small_ok); return 0; }
