#!/usr/bin/env python3
"""run_wt.py <what> [<property-id> ...] [--tier quick|thorough] [--seed N]

Run checks against a scratch worktree of /repo (never /repo itself), so several experiments can run side by side
and /repo's working tree stays untouched:
   <what> = seeded/<name> | seeded_pending/<name>   apply that patch.diff on top of /repo HEAD
          = commit:<rev>                            check out that revision (e.g. the parent of a fix: commit)
The checks run with VERIF_REPO=<worktree> and VERIF_NO_EVIDENCE=1 (committed evidence is never touched).
For seeded/<name> the result is recorded in its meta.json (detected_by).  The worktree is always removed."""
import sys, os, json, subprocess, time, shutil

def sh(cmd, **kw):
    return subprocess.run(cmd, shell=True, stdout=subprocess.PIPE, stderr=subprocess.STDOUT, **kw)

args = sys.argv[1:]
tier, seed = 'quick', None
fresh = False
if '--fresh' in args:   # forget earlier results recorded in meta.json: what this run finds is the record
    args.remove('--fresh'); fresh = True
if '--tier' in args:
    i = args.index('--tier'); tier = args[i + 1]; del args[i:i + 2]
if '--seed' in args:
    i = args.index('--seed'); seed = args[i + 1]; del args[i:i + 2]
what = args[0]
props = args[1:]
wt = '/tmp/wt_run_%d' % os.getpid()
meta = None
try:
    if what.startswith('commit:'):
        r = sh('git -C /repo worktree add -q --detach %s %s' % (wt, what[7:]))
        assert r.returncode == 0, r.stdout.decode()
    else:
        d = os.path.join('/verif', what)
        r = sh('git -C /repo worktree add -q --detach %s HEAD' % wt)
        assert r.returncode == 0, r.stdout.decode()
        r = sh('git apply --3way %s/patch.diff || git apply %s/patch.diff' % (d, d), cwd=wt)
        assert r.returncode == 0, 'patch does not apply: ' + r.stdout.decode()
        mp = os.path.join(d, 'meta.json')
        if os.path.exists(mp):
            meta = json.load(open(mp))
            props = props or [meta['property']]
    res = {}
    for p in props:
        t0 = time.time()
        env = dict(os.environ, VERIF_NO_EVIDENCE='1', VERIF_REPO=wt)
        if seed:
            env['VERIF_SEED'] = seed
        r = sh('python3 /verif/verif.py check %s --tier %s' % (p, tier), cwd='/verif', env=env)
        out = r.stdout.decode(errors='replace')
        keys = [l.strip() for l in out.splitlines() if l.strip().startswith('key=')]
        res[p] = dict(exit=r.returncode, wall_s=round(time.time() - t0), tier=tier, keys=keys[:6])
        print('%s on %s: exit %d (%ds) %s' % (p, what, r.returncode, time.time() - t0, '; '.join(k[:160] for k in keys[:4])))
        if r.returncode not in (0, 1):
            print(out[-1500:])
    if meta is not None:
        meta = json.load(open(mp))
        if fresh:
            meta['runs'] = {}; meta['detected_by'] = []
        meta.setdefault('runs', {}).update({'%s:%s' % (p, tier): v for p, v in res.items()})
        meta['detected_by'] = sorted(set(meta.get('detected_by', [])) | {('%s(%s)' % (p, tier)) for p, v in res.items() if v['exit'] == 1})
        json.dump(meta, open(mp, 'w'), indent=1)
finally:
    sh('git -C /repo worktree remove --force %s' % wt)
    shutil.rmtree(wt, ignore_errors=True)
    sh('git -C /repo worktree prune')
