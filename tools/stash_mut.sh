#!/bin/sh
# stash_mut.sh Cxx : copy a finished sub-agent's deliverables to /verif/seeded_pending and remove its worktree
c=$1
for v in A B C D E F; do
  if [ -d /tmp/wt_m_$c/mutation/$v ]; then
    rm -rf /verif/seeded_pending/$c-$v; mkdir -p /verif/seeded_pending/$c-$v
    for f in patch.diff demo.c build_demo.sh NOTES.md; do cp /tmp/wt_m_$c/mutation/$v/$f /verif/seeded_pending/$c-$v/ 2>/dev/null; done
    ls /verif/seeded_pending/$c-$v
  fi
done
git -C /repo worktree remove --force /tmp/wt_m_$c; rm -rf /tmp/wt_m_$c; git -C /repo worktree prune
