/* C04 -- encode then decode reproduces the input at the reported delay.
 * Modes:
 *   rt      single-stream round trips: sub-sample delay estimate vs OPUS_GET_LOOKAHEAD; SNR and per-band energy error against the
 *           frozen reference build run on the identical input and settings (relative bound, committed margins); stereo channel identity
 *   ms      multistream (surround family 1/255) round trips: every input channel comes back in its own output channel at its level
 *   switch  streams whose settings change while they run, application changed before the first frame: lookahead, segmental
 *           (2.5 ms) level monitor relative to the input and the frozen build
 * All three sample formats are used for input and output (chosen per case).
 */
#include "vcodec.h"
#include "refapi.h"

/* ---- committed margins (calib/c04.json) */
#ifndef C04_SNR_MARGIN_DB
#define C04_SNR_MARGIN_DB 3.0        /* tree SNR may be at most this much below the frozen build's on the same input ... */
#define C04_SNR_GOOD_DB 45.0         /* ... unless it is above this absolute level anyway */
#define C04_BAND_MARGIN_DB 2.0       /* per-band energy error may exceed the frozen build's by this much */
#define C04_DELAY_CELT_SAMPLES 0.5      /* estimator noise measured up to 0.23 sample; a wrong lookahead is off by >= 1 sample */
#define C04_DELAY_VS_REF_SAMPLES 0.1  /* tree estimate vs the frozen build's estimate on the same input (measured ~0) */
#define C04_DELAY_SILK_MS 0.1
#define C04_LEVEL_DB 1.5             /* channel level tolerance at >= 48 kb/s per channel */
#endif

/* ---------------------------------------------------------------- small FFT for band energies */
#define NFFT 1024
static void fft(double *re,double *im,int n){ for(int i=1,j=0;i<n;i++){ int bit=n>>1; for(;j&bit;bit>>=1) j^=bit; j^=bit; if(i<j){ double t=re[i]; re[i]=re[j]; re[j]=t; t=im[i]; im[i]=im[j]; im[j]=t; } }
  for(int len=2;len<=n;len<<=1){ double ang=-2*3.14159265358979323846/len; double wr=cos(ang), wi=sin(ang); for(int i=0;i<n;i+=len){ double cr=1,ci=0; for(int k=0;k<len/2;k++){ double ur=re[i+k],ui=im[i+k]; double vr=re[i+k+len/2]*cr-im[i+k+len/2]*ci, vi=re[i+k+len/2]*ci+im[i+k+len/2]*cr; re[i+k]=ur+vr; im[i+k]=ui+vi; re[i+k+len/2]=ur-vr; im[i+k+len/2]=ui-vi; double t=cr*wr-ci*wi; ci=cr*wi+ci*wr; cr=t; } } } }
static const double band_hz[22]={0,200,400,600,800,1000,1200,1400,1600,2000,2400,2800,3200,4000,4800,5600,6800,8000,9600,12000,15600,20000};
static void band_energies(const float *x,long n,int ch,int c,int Fs,double *E){ static double re[NFFT],im[NFFT]; for(int b=0;b<21;b++) E[b]=0; for(long s=0;s+NFFT<=n;s+=NFFT/2){ for(int i=0;i<NFFT;i++){ double w=0.5-0.5*cos(2*3.14159265358979323846*i/(NFFT-1)); re[i]=w*x[(s+i)*ch+c]; im[i]=0; } fft(re,im,NFFT); for(int k=1;k<NFFT/2;k++){ double f=(double)k*Fs/NFFT; for(int b=0;b<21;b++) if(f>=band_hz[b]&&f<band_hz[b+1]){ E[b]+=re[k]*re[k]+im[k]*im[k]; break; } } } }

/* ---------------------------------------------------------------- delay / SNR */
/* sub-sample delay of y relative to x around the nominal delay L: peak of the cross-correlation over +-maxd, parabolic interpolation */
static double est_delay(const float *x,const float *y,long n,int ch,int c,int L,int maxd,long skip){ double best=-1e300; int bd=0; static double rr[2048]; for(int d=-maxd;d<=maxd;d++){ double r=0; for(long i=skip;i<n-maxd-L-8;i++) r+=(double)y[(i+L+d)*ch+c]*x[i*ch+c]; rr[d+maxd]=r; if(r>best){ best=r; bd=d; } }
  if(bd<=-maxd||bd>=maxd) return 1e9; double a=rr[bd-1+maxd], b=rr[bd+maxd], c2=rr[bd+1+maxd]; double den=a-2*b+c2; double frac=den!=0?0.5*(a-c2)/den:0; return bd+frac; }
static double snr_db(const float *x,const float *y,long n,int ch,int c,int L,long skip){ double s=0,e=0; for(long i=skip;i<n-L-8;i++){ double a=x[i*ch+c], b=y[(i+L)*ch+c]; s+=a*a; e+=(a-b)*(a-b); } return 10*log10((s+1e-20)/(e+1e-20)); }

typedef struct { int Fs,ch,app,mode,bw,fidx,bitrate,vbr,cx,api_in,api_out,fch,dch; } rtcfg;   /* fch: OPUS_SET_FORCE_CHANNELS value, dch: decoder channels */
/* run encoder+decoder of one build over the input; out gets n*ch floats (delayed by the lookahead); returns lookahead or <0 */
#define DEFINE_RUN(NAME,P,HAS24) \
static int NAME(const rtcfg *c,const float *in,long n,float *out,long *bytes){ int err; OpusEncoder *e=P##opus_encoder_create(c->Fs,c->ch,c->app,&err); OpusDecoder *d=P##opus_decoder_create(c->Fs,c->dch,&err); if(!e||!d) return -1; if(c->fch!=OPUS_AUTO) P##opus_encoder_ctl(e,OPUS_SET_FORCE_CHANNELS(c->fch)); \
  if(c->mode!=OPUS_AUTO) P##opus_encoder_ctl(e,VK_SET_FORCE_MODE_REQUEST,c->mode); P##opus_encoder_ctl(e,OPUS_SET_BANDWIDTH(c->bw)); P##opus_encoder_ctl(e,OPUS_SET_BITRATE(c->bitrate)); P##opus_encoder_ctl(e,OPUS_SET_VBR(c->vbr)); P##opus_encoder_ctl(e,OPUS_SET_COMPLEXITY(c->cx)); \
  opus_int32 la=0; P##opus_encoder_ctl(e,OPUS_GET_LOOKAHEAD(&la)); int fs=vk_frame_samples(c->Fs,c->fidx); static opus_int16 s16[5760*2], o16[5760*2]; static opus_int32 s24[5760*2], o24[5760*2]; unsigned char pk[4000]; *bytes=0; \
  for(long pos=0;pos+fs<=n;pos+=fs){ const float *x=in+pos*c->ch; int len; if(c->api_in==1){ for(int i=0;i<fs*c->ch;i++) s16[i]=vc_f2s(x[i]); len=P##opus_encode(e,s16,fs,pk,4000); } else if(c->api_in==2&&HAS24){ for(int i=0;i<fs*c->ch;i++) s24[i]=(opus_int32)lrintf(x[i]*8388608.f); len=P##opus_encode24(e,s24,fs,pk,4000); } else len=P##opus_encode_float(e,x,fs,pk,4000); \
    if(len<=0){ la=-2; break; } *bytes+=len; float *y=out+pos*c->dch; int rc; if(c->api_out==1){ rc=P##opus_decode(d,pk,len,o16,fs,0); for(int i=0;i<fs*c->dch;i++) y[i]=o16[i]*(1.f/32768.f); } else if(c->api_out==2){ rc=P##opus_decode24(d,pk,len,o24,fs,0); for(int i=0;i<fs*c->dch;i++) y[i]=o24[i]*(1.f/8388608.f); } else rc=P##opus_decode_float(d,pk,len,y,fs,0); if(rc!=fs){ la=-3; break; } } \
  P##opus_encoder_destroy(e); P##opus_decoder_destroy(d); return la; }
opus_int32 ref_opus_encode24(OpusEncoder *st,const opus_int32 *pcm,int frame_size,unsigned char *data,opus_int32 max_data_bytes);
opus_int32 rfx_opus_encode24(OpusEncoder *st,const opus_int32 *pcm,int frame_size,unsigned char *data,opus_int32 max_data_bytes);
DEFINE_RUN(run_tree,,1)
/* the frozen build of the same arithmetic: float tree vs frozen float, fixed-point tree vs frozen fixed-point */
#ifdef FIXED_POINT
DEFINE_RUN(run_ref,rfx_,1)
#else
DEFINE_RUN(run_ref,ref_,1)
#endif

static const int sigs[]={VS_WHITE,VS_BANDNOISE,VS_MULTITONE,VS_SWEEP,VS_SPEECHLIKE,VS_CLICKS,VS_VOICED};
static void mode_rt(void){
  vc_rng r; vc_case_rng(&r,4); rtcfg c; c.Fs=VC_PICK(&r,vk_rates); c.ch=1+vc_below(&r,2); c.app=VC_PICK(&r,vk_apps); c.mode= c.app==OPUS_APPLICATION_RESTRICTED_LOWDELAY?VK_MODE_CELT:(vc_chance(&r,1,5)?OPUS_AUTO:VK_MODE_SILK+(int)vc_below(&r,3)); c.fidx= c.mode==VK_MODE_CELT?vc_below(&r,9):vc_range(&r,2,8);
  int nyq= c.Fs==8000?0:c.Fs==12000?1:c.Fs==16000?2:c.Fs==24000?3:4; c.bw=OPUS_AUTO; if(c.mode==VK_MODE_SILK) c.bw=OPUS_BANDWIDTH_NARROWBAND+(int)vc_below(&r,(nyq<2?nyq:2)+1); else if(c.mode==VK_MODE_HYBRID){ if(nyq<3){ c.mode=VK_MODE_SILK; c.bw=OPUS_BANDWIDTH_NARROWBAND+nyq; if(c.fidx<2) c.fidx=3; } else c.bw=OPUS_BANDWIDTH_SUPERWIDEBAND+(int)vc_below(&r,nyq-2); }
  int perch= c.mode==VK_MODE_SILK?vc_range(&r,16000,40000): c.mode==VK_MODE_HYBRID?vc_range(&r,32000,64000): c.mode==VK_MODE_CELT?vc_range(&r,48000,256000):vc_range(&r,24000,128000); c.bitrate=perch*c.ch; c.vbr=vc_below(&r,2); c.cx=VC_PICK(&r,((const int[]){0,5,10})); c.api_in=vc_below(&r,3); c.api_out=vc_below(&r,3);
  c.fch=OPUS_AUTO; c.dch=c.ch; { int q=(int)vc_below(&r,8); if(c.ch==2&&q==0) c.fch=1; else if(c.ch==2&&q==1) c.dch=1; else if(c.ch==1&&q<=1) c.dch=2; else if(c.ch==2&&q==2) c.fch=2; }   /* forced mono stream, mono decoder on a stereo stream, stereo decoder on a mono stream */
  int mixed=(c.ch==2&&(c.fch==1||c.dch==1)); int sig=VC_PICK(&r,sigs); int ident= c.ch==2?(int)vc_below(&r,6):0; if(mixed&&ident==4) ident=3;   /* 5: two different full-scale low-frequency sines (the decoder overshoots; the 16-bit output path soft-clips each channel) */
  if(ident==5&&vc_chance(&r,2,3)) c.api_out=1;   /* stereo identity stimuli: 0 generator default, 1 left only, 2 right only, 3 unequal level, 4 anti-phase */
  double secs=2.0+vc_unit(&r)*1.5; long n=(long)(secs*c.Fs); int fs=vk_frame_samples(c.Fs,c.fidx); n=n/fs*fs; float *in=(float*)malloc(sizeof(float)*n*c.ch), *yt=(float*)calloc(n*2,sizeof(float)), *yr=(float*)calloc(n*2,sizeof(float)), *ex=(float*)malloc(sizeof(float)*n*2);
  vc_siggen g; vs_init(&g,sig,c.Fs,c.ch,vc_chance(&r,1,6)?(float)(0.9+0.1*vc_unit(&r)):(float)(0.15+0.35*vc_unit(&r)),vc_next(&r));   /* 1 in 6 at digital full scale: the decoder overshoots and the 16-bit path soft-clips */ vs_fill(&g,in,(int)n);
  double fL=60+vc_unit(&r)*340, fR=60+vc_unit(&r)*340;
  if(c.ch==2){ vc_siggen g2; vs_init(&g2,VC_PICK(&r,sigs),c.Fs,1,0.3f,vc_next(&r)); float *m=(float*)malloc(sizeof(float)*n); vs_fill(&g2,m,(int)n); for(long i=0;i<n;i++){ if(ident==1) in[2*i+1]=0; else if(ident==2) in[2*i]=0; else if(ident==3) in[2*i+1]=0.25f*in[2*i]; else if(ident==4) in[2*i+1]=-in[2*i]; else if(ident==5){ in[2*i]=(float)sin(6.283185307*fL*i/c.Fs); in[2*i+1]=(float)sin(6.283185307*fR*i/c.Fs); } else in[2*i+1]=0.6f*in[2*i+1]+0.4f*m[i]; } free(m); }
  /* ex: what each output channel is expected to carry (the input channel itself, or the down-mix 0.5(L+R) of a mono stream / mono decoder) */
  for(long i=0;i<n;i++) for(int k=0;k<c.dch;k++) ex[i*c.dch+k]= c.ch==1?in[i]: mixed?0.5f*(in[2*i]+in[2*i+1]): in[2*i+k];
  long bt=0,br=0; int la=run_tree(&c,in,n,yt,&bt); int lr=run_ref(&c,in,n,yr,&br); char desc[300]; snprintf(desc,sizeof desc,"Fs=%d ch=%d app=%d mode=%d bw=%d frame=%d bitrate=%d vbr=%d cx=%d api %d->%d signal=%s ident=%d force_channels=%d decoder_channels=%d",c.Fs,c.ch,c.app,c.mode,c.bw,fs,c.bitrate,c.vbr,c.cx,c.api_in,c.api_out,vs_names[sig],ident,c.fch,c.dch);
  if(la<0||lr<0){ vc_viol("roundtrip:failed","encode/decode failed (tree %d, reference %d) %s",la,lr,desc); goto out; } if(la!=lr){ vc_viol("lookahead:differs-from-reference","OPUS_GET_LOOKAHEAD=%d, frozen reference reports %d (%s)",la,lr,desc); goto out; }
  { int expect=c.Fs/400+(c.app==OPUS_APPLICATION_RESTRICTED_LOWDELAY?0:c.Fs/250); if(la!=expect){ vc_viol("lookahead:value","OPUS_GET_LOOKAHEAD=%d, documented %d (%s)",la,expect,desc); goto out; } }
  long skip=c.Fs/5; vc_count("roundtrips",1);
  if(mixed) vc_count("roundtrips_with_downmix",1); if(c.dch!=c.ch) vc_count("roundtrips_decoder_channels_differ",1);
  for(int ci=0;ci<c.dch;ci++){ if(!mixed&&c.ch==2&&((ident==1&&ci==1)||(ident==2&&ci==0))) continue;   /* silent channel: no delay / SNR to measure */
    int celt_only=(c.mode==VK_MODE_CELT); int maxd=(int)(0.003*c.Fs);
    /* (1) delay: only meaningful where the waveform is preserved (the frozen build itself reaches >= 12 dB SNR) */
    double sr=snr_db(ex,yr,n,c.dch,ci,la,skip), st=snr_db(ex,yt,n,c.dch,ci,la,skip); vc_min("snr_tree_minus_reference_db",st-sr);
    if(sr>=12&&sig!=VS_SWEEP&&sig!=VS_VOICED&&sig!=VS_MULTITONE&&ident!=5 /* pure sines: the cross-correlation peak is ambiguous by whole periods */){ double dt=est_delay(ex,yt,n,c.dch,ci,la,maxd,skip), dr=est_delay(ex,yr,n,c.dch,ci,la,maxd,skip); double tol=celt_only?C04_DELAY_CELT_SAMPLES:C04_DELAY_SILK_MS*c.Fs/1000.0; if(tol<C04_DELAY_CELT_SAMPLES) tol=C04_DELAY_CELT_SAMPLES;
      if(fabs(dr)<=tol){ vc_max(celt_only?"delay_error_samples_celt":"delay_error_samples_silk_hybrid",fabs(dt)); vc_max("delay_estimate_tree_minus_reference_samples",fabs(dt-dr)); { double tol_abs=celt_only?0.9:(0.15*c.Fs/1000.0>0.9?0.15*c.Fs/1000.0:0.9); /* the estimator's own noise (also present in the frozen build's estimate, which had to be within `tol`) must not turn into an alarm: the absolute bound stays below one sample / 0.15 ms, the sharp clause is the comparison with the frozen build */ if(fabs(dt)>tol_abs) tol=-1; }
        if(tol<0||fabs(dt-dr)>C04_DELAY_VS_REF_SAMPLES+(celt_only?0:0.02*c.Fs/1000.0)){ vc_viol("delay:mismatch","decoded signal is delayed by lookahead%+.3f samples (tolerance %.3f; frozen reference %+.3f) channel %d (%s)",dt,tol,dr,ci,desc); goto out; } vc_count("delays_checked",1); } else vc_count("delay_estimator_not_applicable",1); }
    /* (2) fidelity relative to the frozen build on the identical input */
    if(st<sr-C04_SNR_MARGIN_DB&&st<C04_SNR_GOOD_DB){ vc_viol("fidelity:snr","SNR %.2f dB, the frozen reference build reaches %.2f dB on the same input and settings (channel %d; %s)",st,sr,ci,desc); goto out; }
    { double Ei[21],Et[21],Er[21]; band_energies(ex+(size_t)skip*c.dch,n-skip-la-8,c.dch,ci,c.Fs,Ei); band_energies(yt+(size_t)(skip+la)*c.dch,n-skip-la-8,c.dch,ci,c.Fs,Et); band_energies(yr+(size_t)(skip+la)*c.dch,n-skip-la-8,c.dch,ci,c.Fs,Er); double tot=0; for(int b=0;b<21;b++) tot+=Ei[b];
      for(int b=0;b<21;b++){ if(band_hz[b+1]>c.Fs/2||Ei[b]<1e-4*tot) continue; double et=fabs(10*log10((Et[b]+1e-12*tot)/Ei[b])), er=fabs(10*log10((Er[b]+1e-12*tot)/Ei[b])); vc_max("band_error_tree_minus_reference_db",et-er); if(et>er+C04_BAND_MARGIN_DB){ vc_viol("fidelity:band-energy","band %d (%.0f-%.0f Hz): energy error %.2f dB, frozen reference %.2f dB on the same input (channel %d; %s)",b,band_hz[b],band_hz[b+1],et,er,ci,desc); goto out; } vc_count("bands_checked",1); } }
    /* (3) channel identity: sign and level */
    { double cc=0,ei=0,eo=0; for(long i=skip;i<n-la-8;i++){ double a=ex[i*c.dch+ci], b=yt[(i+la)*c.dch+ci]; cc+=a*b; ei+=a*a; eo+=b*b; } if(ei>1e-6){ if(sr>=6&&cc<=0){ vc_viol("identity:sign","channel %d comes back with inverted sign (correlation %.3g) (%s)",ci,cc/sqrt(ei*eo+1e-30),desc); goto out; } double lv=10*log10(eo/ei+1e-12), lref; { double er2=0; for(long i=skip;i<n-la-8;i++){ double b=yr[(i+la)*c.dch+ci]; er2+=b*b; } lref=10*log10(er2/ei+1e-12); } vc_max("level_error_tree_minus_reference_db",fabs(lv)-fabs(lref)); if(fabs(lv)>fabs(lref)+C04_LEVEL_DB){ vc_viol("identity:level","channel %d level changes by %.2f dB (frozen reference %.2f dB) (%s)",ci,lv,lref,desc); goto out; } } } }
  if(c.ch==2&&c.dch==2&&!mixed&&(ident==1||ident==2)){ int sil=ident==1?1:0, act=1-sil; double es=0,ea=0,esr=0; for(long i=skip;i<n-la-8;i++){ double a=yt[(i+la)*2+sil], b=yt[(i+la)*2+act], q=yr[(i+la)*2+sil]; es+=a*a; ea+=b*b; esr+=q*q; } double xt=10*log10((es+1e-12)/(ea+1e-12)), xr=10*log10((esr+1e-12)/(ea+1e-12)); vc_max("crosstalk_db_tree_minus_reference",xt-xr); if(xt>-15&&xt>xr+3){ vc_viol("identity:crosstalk","%s-only input: the silent channel comes back at %.1f dB relative to the active one (frozen reference %.1f dB) (%s)",ident==1?"left":"right",xt,xr,desc); goto out; } vc_count("single_channel_stimuli",1); }
  vc_sig3((uint64_t)c.mode|((uint64_t)c.fidx<<12),(uint64_t)(c.Fs/8000)|((uint64_t)c.ch<<3)|((uint64_t)ident<<5)|((uint64_t)c.api_in<<8)|((uint64_t)c.api_out<<10)|((uint64_t)(c.fch&3)<<12)|((uint64_t)c.dch<<14),(uint64_t)sig|((uint64_t)(c.app&7)<<5));
  if(vc_want_sample()) vc_sample("{\"mode\":\"rt\",\"config\":\"%s\",\"lookahead\":%d,\"bytes_tree\":%ld,\"bytes_reference\":%ld}",desc,la,bt,br);
out:
  free(in); free(yt); free(yr); free(ex);
}

/* ---------------------------------------------------------------- ms */
static void mode_ms(void){
  vc_rng r; vc_case_rng(&r,5); int err; int Fs=vc_chance(&r,1,2)?48000:VC_PICK(&r,vk_rates); int fq=(int)vc_below(&r,5); int fam= fq<2?1: fq<4?255:3; int ch; if(fam==1) ch=vc_range(&r,1,8); else if(fam==255) ch=vc_range(&r,1,6); else { int o=vc_range(&r,1,3); ch=(o+1)*(o+1)+(vc_chance(&r,1,2)?2:0); }
  int S,C; unsigned char map[255]; OpusMSEncoder *me=NULL; OpusMSDecoder *md=NULL; OpusProjectionEncoder *pe=NULL; OpusProjectionDecoder *pd=NULL; double G=1.0;   /* G: the projection demixing gain the application applies */
  if(fam==3){ pe=opus_projection_ambisonics_encoder_create(Fs,ch,3,&S,&C,OPUS_APPLICATION_AUDIO,&err); if(!pe){ vc_viol("ms:create","projection %d channels: %d",ch,err); return; } opus_int32 msz=0,gq=0; opus_projection_encoder_ctl(pe,OPUS_PROJECTION_GET_DEMIXING_MATRIX_SIZE(&msz)); opus_projection_encoder_ctl(pe,OPUS_PROJECTION_GET_DEMIXING_MATRIX_GAIN(&gq)); unsigned char *mt=(unsigned char*)malloc(msz); opus_projection_encoder_ctl(pe,OPUS_PROJECTION_GET_DEMIXING_MATRIX(mt,msz)); pd=opus_projection_decoder_create(Fs,ch,S,C,mt,msz,&err); free(mt); if(!pd){ vc_viol("ms:create","projection decoder %d",err); opus_projection_encoder_destroy(pe); return; } G=pow(10.0,gq/(20.0*256.0)); }
  else { me=opus_multistream_surround_encoder_create(Fs,ch,fam,&S,&C,map,OPUS_APPLICATION_AUDIO,&err); if(!me){ vc_viol("ms:create","%d",err); return; } md=opus_multistream_decoder_create(Fs,ch,S,C,map,&err); }
  if(me) opus_multistream_encoder_ctl(me,OPUS_SET_BITRATE(64000*ch)); else opus_projection_encoder_ctl(pe,OPUS_SET_BITRATE(64000*ch));
  int fs=vk_frame_samples(Fs,vc_range(&r,2,4)); long n=(long)(1.6*Fs)/fs*fs; float *in=(float*)malloc(sizeof(float)*n*ch), *out=(float*)calloc(n*ch,sizeof(float)); unsigned char *pk=(unsigned char*)malloc(40000);
  /* a distinct tone in each channel, distinct levels (the LFE channel of a surround layout is exempt from the level clause) */
  double f[38], a[38]; int lfe=(fam==1&&ch>=6)?ch-1:-1; /* Vorbis channel order puts the LFE last for 5.1, 6.1 and 7.1 */ for(int c=0;c<ch;c++){ f[c]=300+(ch>8?70:170)*c+vc_unit(&r)*30; a[c]=0.1+0.04*(c%8); if(c==lfe) f[c]=60; } for(long i=0;i<n;i++) for(int c=0;c<ch;c++) in[i*ch+c]=(float)(a[c]*sin(6.283185307*f[c]*i/Fs));
  opus_int32 la=0; if(me) opus_multistream_encoder_ctl(me,OPUS_GET_LOOKAHEAD(&la)); else opus_projection_encoder_ctl(pe,OPUS_GET_LOOKAHEAD(&la)); int api=vc_below(&r,3);   /* float, 16-bit, 24-bit entry points on both sides */
  opus_int16 *s16=(opus_int16*)malloc(2*fs*ch), *o16=(opus_int16*)malloc(2*fs*ch); opus_int32 *s24=(opus_int32*)malloc(4*fs*ch), *o24=(opus_int32*)malloc(4*fs*ch);
  for(long pos=0;pos+fs<=n;pos+=fs){ int len; const float *x=in+pos*ch; float *y=out+pos*ch;
    if(api==1){ for(int i=0;i<fs*ch;i++) s16[i]=vc_f2s(x[i]); len= me?opus_multistream_encode(me,s16,fs,pk,40000):opus_projection_encode(pe,s16,fs,pk,40000); }
    else if(api==2){ for(int i=0;i<fs*ch;i++) s24[i]=(opus_int32)lrintf(x[i]*8388608.f); len= me?opus_multistream_encode24(me,s24,fs,pk,40000):opus_projection_encode24(pe,s24,fs,pk,40000); }
    else len= me?opus_multistream_encode_float(me,x,fs,pk,40000):opus_projection_encode_float(pe,x,fs,pk,40000);
    if(len<=0){ vc_viol("ms:encode","%d",len); goto out; } int rc;
    if(api==1){ rc= md?opus_multistream_decode(md,pk,len,o16,fs,0):opus_projection_decode(pd,pk,len,o16,fs,0); for(int i=0;i<fs*ch;i++) y[i]=o16[i]/32768.f; }
    else if(api==2){ rc= md?opus_multistream_decode24(md,pk,len,o24,fs,0):opus_projection_decode24(pd,pk,len,o24,fs,0); for(int i=0;i<fs*ch;i++) y[i]=o24[i]/8388608.f; }
    else rc= md?opus_multistream_decode_float(md,pk,len,y,fs,0):opus_projection_decode_float(pd,pk,len,y,fs,0);
    if(rc!=fs){ vc_viol("ms:decode","%d",rc); goto out; } }
  { long skip=Fs/4; vc_count("ms_roundtrips",1); if(fam==3) vc_count("projection_roundtrips",1); for(int c=0;c<ch;c++){ /* projection of output channel c on each input tone */ double best=0; int bi=-1; double own=0; for(int t=0;t<ch;t++){ double sr=0,si=0; for(long i=skip;i<n-la-8;i++){ double ph=6.283185307*f[t]*i/Fs; double y=G*out[(i+la)*ch+c]; sr+=y*sin(ph); si+=y*cos(ph); } double amp=2*sqrt(sr*sr+si*si)/(n-la-8-skip); if(amp>best){ best=amp; bi=t; } if(t==c) own=amp; }
      if(bi!=c){ vc_viol("ms:channel-identity","family %d, %d channels, sample format %d: output channel %d is dominated by the tone of input channel %d (own tone %.4f, other %.4f) Fs=%d",fam,ch,api,c,bi,own,best,Fs); goto out; }
      double lv=20*log10(own/a[c]+1e-9); vc_max(fam==3?"projection_level_error_db":"ms_level_error_db",fabs(lv)); if(c!=lfe&&fabs(lv)>C04_LEVEL_DB){ vc_viol("ms:channel-level","family %d, %d channels, sample format %d: channel %d comes back at %.2f dB (Fs=%d)",fam,ch,api,c,lv,Fs); goto out; }
      /* sign: correlation with the own input positive */
      double cc=0; for(long i=skip;i<n-la-8;i++) cc+=(double)out[(i+la)*ch+c]*in[i*ch+c]; if(cc<=0){ vc_viol("ms:channel-sign","family %d, %d channels: channel %d comes back inverted",fam,ch,c); goto out; } vc_count("ms_channels_checked",1); } }
  vc_sig3((uint64_t)fam|((uint64_t)ch<<8),(uint64_t)(Fs/8000),api);
out:
  free(in); free(out); free(pk); free(s16); free(o16); free(s24); free(o24); if(me) opus_multistream_encoder_destroy(me); if(md) opus_multistream_decoder_destroy(md); if(pe) opus_projection_encoder_destroy(pe); if(pd) opus_projection_decoder_destroy(pd);
}


/* ---------------------------------------------------------------- switch
 * Streams whose settings change while they run (bitrate jumps that flip the channel / mode / bandwidth decisions, forced channels,
 * bandwidth caps, forced modes, complexity), the application possibly changed by ctl before the first frame.  The same schedule runs on
 * the tree build and on the frozen build.  Oracles: (a) the lookahead reported after the last OPUS_SET_APPLICATION is the documented one
 * for that application and equals the frozen build's; (b) segmental level monitor: for every 2.5 ms block and output channel whose
 * input is audible, the frozen build reproduces within C04_SEG_REF_DB and the tree build made the same coding decisions (identical TOC
 * sequence), the tree's block energy must be within C04_SEG_DB of the frozen build's and of the input's -- a drop-out, a burst or a
 * gain error that lasts a few frames after a transition shows here and is invisible in whole-stream averages. */
#ifndef C04_SEG_DB
#define C04_SEG_DB 8.0   /* largest value seen on the pinned tree: 4.7 dB over 5.8e6 blocks */
#define C04_SEG_REF_DB 3.0
#define C04_SEG_GROSS_DB 15.0      /* (unused: in frames below the rates that follow the block energies of two correct builds differ arbitrarily: a 3-byte MDCT frame is mostly noise filling; such blocks are skipped) */
#define C04_SEG_RATE_MDCT 48000.0   /* bits per second and channel from which 2.5 ms block energies are expected to be preserved */
#define C04_SEG_RATE_HYBRID 24000.0
#define C04_SEG_RATE_SILK 14000.0
#endif
typedef struct { int at, what, val; } swev;   /* what: 0 bitrate 1 force_channels 2 bandwidth 3 max_bandwidth 4 force_mode 5 complexity 6 vbr */
typedef struct { int Fs,ch,app0,app1,fidx,bitrate,vbr,cx,nsw; swev sw[12]; } swcfg;
#define DEFINE_SWRUN(NAME,P) \
static int NAME(const swcfg *c,const float *in,long n,float *out,unsigned char *tocs,int *lens,int *la_created,int *la_after){ int err; OpusEncoder *e=P##opus_encoder_create(c->Fs,c->ch,c->app0,&err); OpusDecoder *d=P##opus_decoder_create(c->Fs,c->ch,&err); if(!e||!d) return -1; opus_int32 la=0; P##opus_encoder_ctl(e,OPUS_GET_LOOKAHEAD(&la)); *la_created=la; \
  if(c->app1!=c->app0){ int rc=P##opus_encoder_ctl(e,OPUS_SET_APPLICATION(c->app1)); if(rc!=OPUS_OK) return -4; } P##opus_encoder_ctl(e,OPUS_SET_BITRATE(c->bitrate)); P##opus_encoder_ctl(e,OPUS_SET_VBR(c->vbr)); P##opus_encoder_ctl(e,OPUS_SET_COMPLEXITY(c->cx)); P##opus_encoder_ctl(e,OPUS_GET_LOOKAHEAD(&la)); *la_after=la; \
  int fs=vk_frame_samples(c->Fs,c->fidx); unsigned char pk[4000]; int k=0; \
  for(long pos=0;pos+fs<=n;pos+=fs,k++){ for(int j=0;j<c->nsw;j++) if(c->sw[j].at==k){ int v=c->sw[j].val; switch(c->sw[j].what){ case 0: P##opus_encoder_ctl(e,OPUS_SET_BITRATE(v)); break; case 1: P##opus_encoder_ctl(e,OPUS_SET_FORCE_CHANNELS(v)); break; case 2: P##opus_encoder_ctl(e,OPUS_SET_BANDWIDTH(v)); break; case 3: P##opus_encoder_ctl(e,OPUS_SET_MAX_BANDWIDTH(v)); break; case 4: P##opus_encoder_ctl(e,VK_SET_FORCE_MODE_REQUEST,v); break; case 5: P##opus_encoder_ctl(e,OPUS_SET_COMPLEXITY(v)); break; default: P##opus_encoder_ctl(e,OPUS_SET_VBR(v)); } } \
    int len=P##opus_encode_float(e,in+pos*c->ch,fs,pk,4000); if(len<=0){ la=-2; break; } tocs[k]=pk[0]; lens[k]=len; int rc=P##opus_decode_float(d,pk,len,out+pos*c->ch,fs,0); if(rc!=fs){ la=-3; break; } } \
  P##opus_encoder_destroy(e); P##opus_decoder_destroy(d); return la; }
DEFINE_SWRUN(swrun_tree,)
#ifdef FIXED_POINT
DEFINE_SWRUN(swrun_ref,rfx_)
#else
DEFINE_SWRUN(swrun_ref,ref_)
#endif
static void mode_switch(void){
  vc_rng r; vc_case_rng(&r,6); swcfg c; memset(&c,0,sizeof c); c.Fs=vc_chance(&r,1,2)?48000:VC_PICK(&r,vk_rates); c.ch=vc_chance(&r,2,3)?2:1; c.app0=VC_PICK(&r,vk_apps); c.app1=vc_chance(&r,1,3)?VC_PICK(&r,vk_apps):c.app0; c.fidx=vc_range(&r,0,5); if(c.app1!=OPUS_APPLICATION_RESTRICTED_LOWDELAY&&c.fidx<2&&vc_chance(&r,2,3)) c.fidx=vc_range(&r,2,5);
  static const int rates[]={10000,12000,16000,24000,32000,48000,64000,96000,128000}; c.bitrate=VC_PICK(&r,rates)*(vc_chance(&r,1,2)?c.ch:1); c.vbr=vc_below(&r,2); c.cx=VC_PICK(&r,((const int[]){0,3,5,10}));
  int fs=vk_frame_samples(c.Fs,c.fidx); double secs=2.4+vc_unit(&r); long n=(long)(secs*c.Fs)/fs*fs; int nfr=(int)(n/fs); c.nsw=vc_range(&r,1,6);
  for(int j=0;j<c.nsw;j++){ swev *w=&c.sw[j]; w->at=vc_range(&r,nfr/6,nfr-nfr/6); int q=(int)vc_below(&r,10); if(q<4){ w->what=0; w->val=VC_PICK(&r,rates)*(vc_chance(&r,1,2)?c.ch:1); } else if(q<6){ w->what=1; w->val=vc_chance(&r,1,3)?OPUS_AUTO:1+(int)vc_below(&r,c.ch); } else if(q==6){ w->what=2; w->val=vc_chance(&r,1,3)?OPUS_AUTO:OPUS_BANDWIDTH_NARROWBAND+(int)vc_below(&r,5); } else if(q==7){ w->what=3; w->val=OPUS_BANDWIDTH_NARROWBAND+(int)vc_below(&r,5); } else if(q==8){ w->what=4; w->val=vc_chance(&r,1,3)?OPUS_AUTO:VK_MODE_SILK+(int)vc_below(&r,3); } else { w->what=5; w->val=vc_below(&r,11); } }
  float *in=(float*)malloc(sizeof(float)*n*c.ch), *yt=(float*)calloc(n*2+16,sizeof(float)), *yr=(float*)calloc(n*2+16,sizeof(float)); unsigned char *tt=(unsigned char*)calloc(nfr+1,1), *tr=(unsigned char*)calloc(nfr+1,1); int *lt=(int*)calloc(nfr+1,sizeof(int)), *lr=(int*)calloc(nfr+1,sizeof(int));
  int sig=VC_PICK(&r,((const int[]){VS_SPEECHLIKE,VS_MULTITONE,VS_BANDNOISE,VS_WHITE,VS_VOICED})); vc_siggen g; vs_init(&g,sig,c.Fs,c.ch,(float)(0.15+0.35*vc_unit(&r)),vc_next(&r)); vs_fill(&g,in,(int)n);
  if(c.ch==2){ vc_siggen g2; vs_init(&g2,VS_MULTITONE,c.Fs,1,0.25f,vc_next(&r)); float *m=(float*)malloc(sizeof(float)*n); vs_fill(&g2,m,(int)n); double lr2=vc_chance(&r,1,2)?1.0:0.3+0.5*vc_unit(&r); for(long i=0;i<n;i++) in[2*i+1]=(float)(lr2*(0.6f*in[2*i+1]+0.4f*m[i])); free(m); }
  char desc[500]; int o=snprintf(desc,sizeof desc,"Fs=%d ch=%d app %d->%d frame=%d bitrate=%d vbr=%d cx=%d signal=%s switches:",c.Fs,c.ch,c.app0,c.app1,fs,c.bitrate,c.vbr,c.cx,vs_names[sig]); for(int j=0;j<c.nsw&&o<470;j++) o+=snprintf(desc+o,sizeof desc-o," @%d:%d=%d",c.sw[j].at,c.sw[j].what,c.sw[j].val);
  int lct=0,lcr=0,lat=0,lar=0; int la=swrun_tree(&c,in,n,yt,tt,lt,&lct,&lat), lb=swrun_ref(&c,in,n,yr,tr,lr,&lcr,&lar);
  if(la==-4||lb==-4){ if(la!=lb){ vc_viol("switch:set-application","OPUS_SET_APPLICATION before the first frame: tree %s, frozen reference %s (%s)",la==-4?"refused":"accepted",lb==-4?"refused":"accepted",desc); } else vc_count("switch_application_change_refused",1); goto out; }
  if(la<0||lb<0){ vc_viol("roundtrip:failed","encode/decode failed (tree %d, reference %d) %s",la,lb,desc); goto out; }
  /* (a) lookahead */
  { int e0=c.Fs/400+(c.app0==OPUS_APPLICATION_RESTRICTED_LOWDELAY?0:c.Fs/250), e1=c.Fs/400+(c.app1==OPUS_APPLICATION_RESTRICTED_LOWDELAY?0:c.Fs/250); if(lct!=e0||lat!=e1||lat!=lar){ vc_viol("lookahead:value","OPUS_GET_LOOKAHEAD=%d after creation (documented %d), %d after OPUS_SET_APPLICATION (documented %d, frozen reference %d) (%s)",lct,e0,lat,e1,lar,desc); goto out; } vc_count("switch_lookaheads_checked",1); if(c.app0!=c.app1) vc_count("switch_application_changed_before_first_frame",1); }
  vc_count("switch_roundtrips",1);
  /* delay after an application change: cross-correlation estimate against the reported lookahead, relative to the frozen build */
  if(c.app0!=c.app1&&(sig==VS_SPEECHLIKE||sig==VS_BANDNOISE||sig==VS_WHITE)){ int maxd=(int)(0.003*c.Fs); long skip=c.Fs/5; double dt=est_delay(in,yt,n,c.ch,0,lat,maxd,skip), dr=est_delay(in,yr,n,c.ch,0,lat,maxd,skip); if(fabs(dr)<=0.5+0.1*c.Fs/1000.0&&snr_db(in,yr,n,c.ch,0,lat,skip)>=10){ if(fabs(dt-dr)>C04_DELAY_VS_REF_SAMPLES+0.02*c.Fs/1000.0){ vc_viol("delay:mismatch","after OPUS_SET_APPLICATION the decoded signal is delayed by lookahead%+.3f samples (frozen reference %+.3f) (%s)",dt,dr,desc); goto out; } vc_count("switch_delays_checked",1); } }
  /* (b) segmental level monitor */
  { int same=1; for(int k=0;k<nfr;k++) if(tt[k]!=tr[k]||(lt[k]<=2)!=(lr[k]<=2)){ same=0; break; } if(!same){ vc_count("switch_streams_decisions_differ_from_frozen_build",1); goto sig_; }
    int B=c.Fs/400; long nb=(n-lat-8)/B; long bad=0, checked=0; long firstbad=-1; int badch=0; double bt=0,br=0,bi=0; long skipb=(long)(0.2*c.Fs)/B;
    for(int ci=0;ci<c.ch;ci++) for(long b=skipb;b<nb;b++){ double ei=0,et=0,er=0; for(long i=b*B;i<(b+1)*B;i++){ double x=in[i*c.ch+ci], a=yt[(i+lat)*c.ch+ci], q=yr[(i+lat)*c.ch+ci]; ei+=x*x; et+=a*a; er+=q*q; } if(ei<B*1e-4) continue; /* below -40 dBFS */
        double dr=10*log10((er+1e-12)/ei); if(fabs(dr)>C04_SEG_REF_DB) continue;
        /* the frame(s) this output block comes from (the output lags the input by the lookahead): well funded = enough bits per second and channel for the layer in use that block energies are preserved */
        int k0=(int)((b*B+lat)/fs), k1=(int)(((b+1)*B-1+lat)/fs); if(k1>=nfr) k1=nfr-1; if(k0>0) k0--; /* overlap with the previous frame */ int funded=1; for(int k=k0;k<=k1;k++){ double rate=(double)(lt[k]<lr[k]?lt[k]:lr[k])*8.0*c.Fs/fs/((tt[k]&4)?2:1); double need=(tt[k]&0x80)?C04_SEG_RATE_MDCT:((tt[k]&0x60)==0x60?C04_SEG_RATE_HYBRID:C04_SEG_RATE_SILK); if(rate<need) funded=0; }
        if(!funded){ vc_count("switch_blocks_in_low_rate_frames_skipped",1); continue; } checked++; double dtr=10*log10((et+1e-12)/(er+1e-12)), dti=10*log10((et+1e-12)/ei); double lim=funded?C04_SEG_DB:C04_SEG_GROSS_DB; vc_max(funded?"switch_block_level_tree_vs_frozen_db_funded":"switch_block_level_tree_vs_frozen_db_starved",fabs(dtr)<fabs(dti)?fabs(dtr):fabs(dti)); if(funded) vc_count("switch_blocks_checked_well_funded",1);
        if(vc_verbose>1) fprintf(stderr,"ch %d block %ld (%.1f ms) frames %d-%d toc %02x len %d/%d funded %d: in %.1f dBFS tree %+.1f ref %+.1f\n",ci,b,b*2.5,k0,k1,tt[k1],lt[k1],lr[k1],funded,10*log10(ei/B),dti,dr);
        if(fabs(dtr)>lim&&fabs(dti)>lim){ bad++; if(firstbad<0){ firstbad=b; badch=ci; bt=et; br=er; bi=ei; } } }
    vc_count("switch_blocks_checked",checked);
    if(bad){ int fr=(int)(firstbad*B/fs); vc_viol("switch:block-level","%ld of %ld audible 2.5 ms blocks of well-funded frames come back more than %.0f dB away from both the input and the frozen build's output, which is within %.0f dB of the input there; first: channel %d, block at %.1f ms (frame %d, TOC %02x after %02x): input %.1f dBFS, tree %+.1f dB, frozen build %+.1f dB (%s)",bad,checked,C04_SEG_DB,C04_SEG_REF_DB,badch,firstbad*2.5,fr,tt[fr],fr>0?tt[fr-1]:0,10*log10(bi/B+1e-12),10*log10((bt+1e-12)/bi),10*log10((br+1e-12)/bi),desc); goto out; }
    vc_count("switch_streams_segmentally_checked",1); }
sig_:
  { int trans=0, chsw=0, modesw=0; for(int k=1;k<nfr;k++){ if((tt[k]>>3)!=(tt[k-1]>>3)) trans++; if((tt[k]&4)!=(tt[k-1]&4)) chsw++; int m0=(tt[k-1]&0x80)?2:((tt[k-1]&0x60)==0x60?1:0), m1=(tt[k]&0x80)?2:((tt[k]&0x60)==0x60?1:0); if(m0!=m1) modesw++; } vc_count("switch_config_transitions",trans); vc_count("switch_channel_transitions",chsw); vc_count("switch_mode_transitions",modesw); vc_sig3((uint64_t)c.fidx|((uint64_t)(c.Fs/8000)<<4)|((uint64_t)c.ch<<8),(uint64_t)(trans<7?trans:7)|((uint64_t)(chsw<3?chsw:3)<<3)|((uint64_t)(modesw<3?modesw:3)<<5),(uint64_t)(c.app0&7)|((uint64_t)(c.app1&7)<<3)); }
  if(vc_want_sample()) vc_sample("{\"mode\":\"switch\",\"config\":\"%s\",\"lookahead\":%d}",desc,lat);
out:
  free(in); free(yt); free(yr); free(tt); free(tr); free(lt); free(lr);
}

int main(int argc,char **argv){
  static const vc_mode_t modes[]={{"rt",mode_rt},{"ms",mode_ms},{"switch",mode_switch},{0,0}};
  return vc_main(argc,argv,"C04",modes);
}
