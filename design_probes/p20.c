#include <stdio.h>
#include <stdlib.h>
#include <string.h>
#include <math.h>
#include "opus.h"
#include "opus_private.h"
int main(int argc,char**argv){ int err; int Fs=48000,ch=1; int g=atoi(argv[1]);
  OpusEncoder*e=opus_encoder_create(Fs,ch,OPUS_APPLICATION_AUDIO,&err); opus_encoder_ctl(e,OPUS_SET_BITRATE(atoi(argv[2])));
  OpusDecoder*d0=opus_decoder_create(Fs,ch,&err),*dg=opus_decoder_create(Fs,ch,&err); opus_decoder_ctl(dg,OPUS_SET_GAIN(g));
  double G=pow(10,g/5120.0); int fs=960; static float in[960],o0[960],og[960]; unsigned char pk[1500];
  for(int k=0;k<60;k++){ int mode=((k/10)%2)?MODE_CELT_ONLY:MODE_SILK_ONLY; opus_encoder_ctl(e,OPUS_SET_FORCE_MODE(mode));
    for(int i=0;i<fs;i++){ double t=(k*fs+i)/(double)Fs; in[i]=0.2f*(float)(sin(2*M_PI*300*t)+0.5*sin(2*M_PI*1234*t)); }
    int l=opus_encode_float(e,in,fs,pk,1500); if(k%10==0 && k>0) { printf("skip k=%d\n",k); continue; } int r0=opus_decode_float(d0,pk,l,o0,fs,0), rg=opus_decode_float(dg,pk,l,og,fs,0); unsigned a,b; opus_decoder_ctl(d0,OPUS_GET_FINAL_RANGE(&a)); opus_decoder_ctl(dg,OPUS_GET_FINAL_RANGE(&b));
    double maxdev=0; int at=-1; for(int i=0;i<r0;i++){ if(fabs(o0[i])>1e-3){ double ratio=og[i]/o0[i]; double dev=fabs(ratio/G-1); if(dev>maxdev){maxdev=dev;at=i;} } }
    if(k==11||k==21){ double s=0; int n=0; for(int i=0;i<120;i++) if(fabs(o0[i])>1e-3){ s+=og[i]/o0[i]; n++; } printf("   first 2.5ms mean ratio og/o0 = %.4f (G=%.4f, G^2=%.4f) n=%d\n", s/n, G, G*G, n);} printf("k=%2d mode=%s len=%3d toc=%02x r=%d/%d rng %s maxdev=%.4f at %d\n",k,mode==MODE_CELT_ONLY?"celt":"silk",l,pk[0],r0,rg,a==b?"eq":"NE",maxdev,at);
  } return 0; }
