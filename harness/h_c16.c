/* C16 -- packet extensions round-trip through generate, parse and repacketize.
 * Modes:
 *   gen     generator-first: legal lists -> dry run == written size, exact buffer ok, smaller refused, parse gives the list back
 *   bytes   arbitrary / grammar-aware byte strings: count, count_ext, parse, parse_ext and a hand-driven iterator agree, stay in
 *           bounds, and parse -> generate -> parse is a fixed point
 *   repack  packets carrying ground-truth extensions are merged / split by the repacketizer (and padded with extra extensions);
 *           every output frame must carry exactly the extensions of its audio frame
 */
#include "vpacket.h"

#define BIGN 9100
static opus_extension_data L0[BIGN], L1[BIGN], L2[BIGN], L3[BIGN];
static unsigned char *store; static int storecap=400000;

static int lists_equal(const opus_extension_data *a,int na,const opus_extension_data *b,int nb,int *where){ if(na!=nb){ *where=-1; return 0; } for(int i=0;i<na;i++) if(!vp_ext_eq(&a[i],&b[i])){ *where=i; return 0; } return 1; }
static int in_bounds(const opus_extension_data *e,int n,const unsigned char *buf,int len,int nbf,int *why){ for(int i=0;i<n;i++){ if(e[i].id<3||e[i].id>127){ *why=1; return i+1; } if(e[i].frame<0||e[i].frame>=nbf){ *why=2; return i+1; } if(e[i].len<0||(e[i].id<32&&e[i].len>1)){ *why=3; return i+1; } if(e[i].len>0&&(e[i].data<buf||e[i].data+e[i].len>buf+len)){ *why=4; return i+1; } if(e[i].len==0&&e[i].data&&(e[i].data<buf||e[i].data>buf+len)){ *why=5; return i+1; } } return 0; }

/* parse buf with every API; returns number of extensions delivered (in L1, bitstream order; L2 = frame order via parse_ext) or -1 on violation */
static int cross_parse(const unsigned char *buf,int len,int nbf,int *pret,const char *ctx){
  int c=opus_packet_extensions_count(buf,len,nbf); if(c<0||c>BIGN-2){ if(c<0) vc_viol("count:negative","%s: count returned %d",ctx,c); return -1; }
  opus_int32 nb=c+2; int ret=opus_packet_extensions_parse(buf,len,L1,&nb,nbf); *pret=ret;
  if(ret!=0&&ret!=OPUS_INVALID_PACKET){ vc_viol("parse:undocumented-return","%s: parse returned %d",ctx,ret); return -1; }
  if(nb!=c){ vc_viol("agree:count-vs-parse","%s: count=%d but parse delivered %d (ret %d)",ctx,c,nb,ret); return -1; }
  int why=0, bi=in_bounds(L1,nb,buf,len,nbf,&why); if(bi){ vc_viol(why==4||why==5?"parse:extension-outside-buffer":why==2?"parse:nonexistent-frame":"parse:illegal-extension","%s: extension %d of %d: id=%d frame=%d len=%d (nbf=%d, reason %d)",ctx,bi-1,nb,L1[bi-1].id,L1[bi-1].frame,L1[bi-1].len,nbf,why); return -1; }
  if(c>0){ opus_int32 small=c-1; int r2=opus_packet_extensions_parse(buf,len,L3,&small,nbf); if(r2!=OPUS_BUFFER_TOO_SMALL) vc_viol("parse:small-array-not-refused","%s: parse with room for %d of %d returned %d",ctx,c-1,c,r2); }
  /* per-frame counts */
  opus_int32 fc[48], hist[48]; memset(hist,0,sizeof hist); for(int i=0;i<nb;i++) hist[L1[i].frame]++;
  for(int i=0;i<48;i++) fc[i]=-99; int c2=opus_packet_extensions_count_ext(buf,len,fc,nbf);
  if(c2!=c){ vc_viol("agree:count_ext-total","%s: count_ext=%d count=%d",ctx,c2,c); return -1; }
  for(int f=0;f<nbf;f++) if(fc[f]!=hist[f]){ vc_viol("agree:count_ext-per-frame","%s: frame %d count_ext=%d parse saw %d",ctx,f,fc[f],hist[f]); return -1; }
  for(int f=nbf;f<48;f++) if(fc[f]!=-99){ vc_viol("count_ext:wrote-past-nb_frames","%s: nb_frame_exts[%d] written with nb_frames=%d",ctx,f,nbf); return -1; }
  /* frame order */
  opus_int32 nb2=c; int r3=opus_packet_extensions_parse_ext(buf,len,L2,&nb2,fc,nbf);
  if(r3!=ret||nb2!=c){ vc_viol("agree:parse_ext","%s: parse_ext ret=%d n=%d, parse ret=%d n=%d",ctx,r3,nb2,ret,c); return -1; }
  memcpy(L3,L1,sizeof(L1[0])*nb); vp_sort_exts(L3,nb); int w; if(!lists_equal(L3,nb,L2,nb,&w)){ vc_viol("agree:parse_ext-order","%s: parse_ext differs from the stable frame-sort of parse at %d",ctx,w); return -1; }
  return nb; }

static void iterator_checks(const unsigned char *buf,int len,int nbf,int n,vc_rng *r,const char *ctx){
  OpusExtensionIterator it; opus_extension_data e; opus_extension_iterator_init(&it,buf,len,nbf);
  for(int pass=0;pass<2;pass++){ int k=0,rc; while((rc=opus_extension_iterator_next(&it,&e))>0){ if(k>=n||!vp_ext_eq(&e,&L1[k])){ vc_viol("agree:iterator","%s: iterator pass %d item %d differs from parse",ctx,pass,k); return; } k++; } if(k!=n){ vc_viol("agree:iterator","%s: iterator pass %d delivered %d of %d",ctx,pass,k,n); return; } opus_extension_iterator_reset(&it); }
  /* frame_max */
  { int fm=vc_range(r,0,nbf); opus_extension_iterator_reset(&it); opus_extension_iterator_set_frame_max(&it,fm); int k=0,rc; int j=0; while((rc=opus_extension_iterator_next(&it,&e))>0){ while(j<n&&L1[j].frame>=fm) j++; if(j>=n||!vp_ext_eq(&e,&L1[j])){ vc_viol("agree:frame_max","%s: set_frame_max(%d) item %d is not the next extension with frame<%d",ctx,fm,k,fm); return; } if(e.frame>=fm){ vc_viol("agree:frame_max","%s: set_frame_max(%d) delivered frame %d",ctx,fm,e.frame); return; } j++; k++; }
    int expect=0; for(int i=0;i<n;i++) if(L1[i].frame<fm) expect++; if(k!=expect){ vc_viol("agree:frame_max","%s: set_frame_max(%d) delivered %d, expected %d",ctx,fm,k,expect); return; } vc_count("frame_max_checked",1); }
  /* find */
  if(n>0){ int id=vc_chance(r,3,4)?L1[vc_below(r,n)].id:vc_range(r,3,127); opus_extension_iterator_init(&it,buf,len,nbf); int rc=opus_extension_iterator_find(&it,&e,id); int j=0; while(j<n&&L1[j].id!=id) j++;
    if(j<n){ if(rc<=0||!vp_ext_eq(&e,&L1[j])) vc_viol("agree:find","%s: find(%d) rc=%d is not the first extension with that id",ctx,id,rc); } else if(rc>0) vc_viol("agree:find","%s: find(%d) returned an extension parse never saw",ctx,id); vc_count("find_checked",1); }
}

/* ---------------------------------------------------------------- gen */
static void mode_gen(void){
  vc_rng r; vc_case_rng(&r,16); if(!store) store=(unsigned char*)malloc(storecap);
  int heavy=vc_chance(&r,1,60); int nbf=vc_chance(&r,1,4)?1:vc_chance(&r,1,6)?48:vc_range(&r,1,vc_chance(&r,1,2)?4:48);
  int n=vp_gen_exts(&r,nbf,heavy?9000:(vc_chance(&r,1,5)?200:12),heavy?70000:(vc_chance(&r,1,5)?3000:300),L0,store,storecap);
  int dry=opus_packet_extensions_generate(NULL,1<<24,L0,n,nbf,0);
  if(dry<0){ vc_viol("generate:legal-refused","dry run of a legal list (n=%d nbf=%d) returned %d",n,nbf,dry); return; }
  if(n>0&&dry==0) vc_viol("generate:empty","%d extensions serialised to 0 bytes",n);
  vc_gbuf g=vc_galloc(dry); int w=opus_packet_extensions_generate(g.p,dry,L0,n,nbf,0); vc_count("generate_calls",1);
  if(vc_gcheck(&g)) vc_viol("write:outside-buffer","generate into an exact %d-byte buffer damaged a canary",dry);
  if(w!=dry){ vc_viol("generate:dry-run-mismatch","dry run said %d bytes, exact-size write returned %d (n=%d nbf=%d)",dry,w,n,nbf); vc_gfree(&g); return; }
  /* smaller buffers are refused, nothing written outside */
  if(dry>0) for(int t=0;t<2;t++){ int ml=t==0?dry-1:(int)vc_below(&r,dry); vc_gbuf h=vc_galloc(ml); int w2=opus_packet_extensions_generate(h.p,ml,L0,n,nbf,vc_chance(&r,1,4)); if(vc_gcheck(&h)) vc_viol("write:outside-buffer","generate into %d of %d needed bytes damaged a canary",ml,dry); if(w2!=OPUS_BUFFER_TOO_SMALL) vc_viol("generate:small-not-refused","buffer of %d bytes, need %d, returned %d",ml,dry,w2); else vc_count("generate_refused_small",1); int w3=opus_packet_extensions_generate(NULL,ml,L0,n,nbf,0); if(w3!=OPUS_BUFFER_TOO_SMALL) vc_viol("generate:dry-run-small-not-refused","dry run with len %d, need %d, returned %d",ml,dry,w3); vc_gfree(&h); }
  /* parse back */
  unsigned char *b=vc_exact_copy(g.p,dry); int ret=0; int nb=cross_parse(b,dry,nbf,&ret,"generated");
  if(nb>=0){ if(ret!=0) vc_viol("roundtrip:parse-error","generator output does not parse cleanly (ret %d, n=%d nbf=%d)",ret,n,nbf);
    memcpy(L3,L0,sizeof(L0[0])*n); vp_sort_exts(L3,n); int wv; /* L2 = frame order from parse_ext */
    if(!lists_equal(L3,n,L2,nb,&wv)){ if(wv<0) vc_viol("roundtrip:count","generated %d extensions, parsed %d (nbf=%d)",n,nb,nbf); else vc_viol("roundtrip:content","extension %d (frame order) differs after round trip: in id=%d frame=%d len=%d, out id=%d frame=%d len=%d (n=%d nbf=%d)",wv,L3[wv].id,L3[wv].frame,L3[wv].len,L2[wv].id,L2[wv].frame,L2[wv].len,n,nbf); }
    else { vc_count("roundtrip_ok",1); iterator_checks(b,dry,nbf,nb,&r,"generated"); } }
  /* pad option fills exactly len */
  { int extra=vc_range(&r,1,vc_chance(&r,1,4)?600:6); vc_gbuf h=vc_galloc(dry+extra); int w2=opus_packet_extensions_generate(h.p,dry+extra,L0,n,nbf,1); if(vc_gcheck(&h)) vc_viol("write:outside-buffer","generate(pad=1) damaged a canary");
    if(w2!=dry+extra) vc_viol("generate:pad-length","pad=1 with len %d returned %d",dry+extra,w2); else { unsigned char *b2=vc_exact_copy(h.p,w2); opus_int32 nb2=n+2; int r2=opus_packet_extensions_parse(b2,w2,L1,&nb2,nbf); memcpy(L3,L0,sizeof(L0[0])*n); vp_sort_exts(L3,n); vp_sort_exts(L1,nb2); int wv; if(r2!=0||!lists_equal(L3,n,L1,nb2,&wv)) vc_viol("roundtrip:padded","padded serialisation parses to a different list (ret %d, %d vs %d)",r2,nb2,n); else vc_count("roundtrip_padded_ok",1); free(b2); } vc_gfree(&h); }
  /* illegal inputs */
  if(n>0){ int i=vc_below(&r,n); opus_extension_data sv=L0[i]; int k=vc_below(&r,6); const char *nm="";
    switch(k){ case 0: L0[i].id=vc_range(&r,-3,2); nm="id<3"; break; case 1: L0[i].id=vc_range(&r,128,300); nm="id>127"; break; case 2: L0[i].frame=nbf+(int)vc_below(&r,3); nm="frame>=nb_frames"; break; case 3: L0[i].frame=-1-(int)vc_below(&r,3); nm="frame<0"; break; case 4: L0[i].id=vc_range(&r,3,31); L0[i].len=vc_range(&r,2,9); nm="short len>1"; break; default: L0[i].len=-1-(int)vc_below(&r,5); nm="len<0"; break; }
    int e1=opus_packet_extensions_generate(NULL,1<<24,L0,n,nbf,0); vc_gbuf h=vc_galloc(dry+64); int e2=opus_packet_extensions_generate(h.p,dry+64,L0,n,nbf,0); if(vc_gcheck(&h)) vc_viol("write:outside-buffer","generate with illegal input damaged a canary");
    /* the property speaks about legal lists only; what is asserted for an illegal one is that it is never serialised (any error
       code: the generator may run out of space before it reaches the illegal entry) and nothing is written outside the buffer */
    if(e1>=0||e2>=0) vc_viol("generate:illegal-accepted","list with %s returned %d (dry) / %d",nm,e1,e2); else { vc_count("illegal_refused",1); if(e1==OPUS_BAD_ARG&&e2==OPUS_BAD_ARG) vc_count("illegal_refused_bad_arg",1); } vc_gfree(&h); L0[i]=sv; }
  { int e=opus_packet_extensions_generate(NULL,1<<24,L0,0,49+(int)vc_below(&r,20),0); if(e!=OPUS_BAD_ARG) vc_viol("generate:illegal-accepted","nb_frames>48 returned %d",e); }
  { int longs=0,shorts=0; for(int i=0;i<n;i++) if(L0[i].id>=32) longs++; else shorts++; int mx=0; for(int i=0;i<n;i++) if(L0[i].len>mx) mx=L0[i].len;
    vc_sig3((uint64_t)(nbf>3?(nbf==48?5:4):nbf)|((uint64_t)(n>3?(n>100?(n>2000?7:6):4):n)<<3),(uint64_t)(longs>0)|((shorts>0)<<1)|((uint64_t)(mx>=255)<<2)|((uint64_t)(mx>=510)<<3)|((uint64_t)(mx>10000)<<4),(uint64_t)(dry<300?dry/30:10+(dry>5000)));
    if(n>=2000) vc_count("lists_over_2000_entries",1); if(mx>=60000) vc_count("payload_over_60000",1);
    if(vc_want_sample()) vc_sample("{\"mode\":\"gen\",\"nb_frames\":%d,\"extensions\":%d,\"long\":%d,\"short\":%d,\"max_payload\":%d,\"serialised_bytes\":%d}",nbf,n,longs,shorts,mx,dry); }
  free(b); vc_gfree(&g);
}

/* ---------------------------------------------------------------- bytes */
static int gen_grammar(vc_rng *r,unsigned char *b,int cap){ int pos=0; int items=vc_range(r,0,vc_chance(r,1,5)?60:10);
  for(int i=0;i<items&&pos<cap-600;i++){ int k=vc_below(r,12);
    if(k==0) b[pos++]=0; else if(k==1) b[pos++]=1; else if(k==2) b[pos++]=2; else if(k==3){ b[pos++]=3; b[pos++]=vc_chance(r,1,3)?0:(unsigned char)vc_below(r,5); }
    else if(k==4) b[pos++]=4; else if(k==5) b[pos++]=5;
    else if(k<9){ int id=vc_range(r,3,31), L=vc_below(r,2); b[pos++]=(unsigned char)(id*2+L); if(L) b[pos++]=(unsigned char)vc_u32(r); }
    else { int id=vc_range(r,32,127), L=vc_chance(r,4,5); b[pos++]=(unsigned char)(id*2+L); if(L){ int n=vc_chance(r,1,6)?VC_PICK(r,vp_lens):(int)vc_below(r,20); if(n>560) n=560; int rem=n; while(rem>=255){ b[pos++]=255; rem-=255; } b[pos++]=(unsigned char)rem; if(vc_chance(r,1,15)) n=vc_below(r,n+1); for(int j=0;j<n;j++) b[pos++]=(unsigned char)vc_u32(r); } else { int n=vc_below(r,12); for(int j=0;j<n;j++) b[pos++]=(unsigned char)vc_u32(r); } } }
  return pos; }

static void mode_bytes(void){
  vc_rng r; vc_case_rng(&r,17); if(!store) store=(unsigned char*)malloc(storecap);
  static unsigned char tmp[70000]; int len; int nbf=vc_chance(&r,1,30)?0:vc_chance(&r,1,3)?1:vc_range(&r,1,vc_chance(&r,1,2)?5:48); int kind=vc_below(&r,6);
  if(kind==0){ len=vc_below(&r,vc_chance(&r,1,5)?3000:40); for(int i=0;i<len;i++) tmp[i]=(unsigned char)vc_u32(&r); }
  else if(kind==1){ len=vc_below(&r,60); for(int i=0;i<len;i++){ static const unsigned char al[]={0,1,2,3,4,5,6,7,64,65,0x40,0xFE,0xFF,0x80,0x81}; tmp[i]=VC_PICK(&r,al); } }
  else if(kind<5) len=gen_grammar(&r,tmp,4000);
  else { /* mutated generator output */ int n=vp_gen_exts(&r,nbf?nbf:1,10,300,L0,store,storecap); len=opus_packet_extensions_generate(tmp,6000,L0,n,nbf?nbf:1,0); if(len<0) len=0; int m=vc_range(&r,1,4); for(int i=0;i<m&&len>0;i++){ int k=vc_below(&r,4); if(k==0) tmp[vc_below(&r,len)]^=1u<<vc_below(&r,8); else if(k==1) len=vc_below(&r,len+1); else if(k==2&&len<5990){ int a=vc_below(&r,len+1); memmove(tmp+a+1,tmp+a,len-a); tmp[a]=(unsigned char)vc_u32(&r); len++; } else tmp[vc_below(&r,len)]=(unsigned char)vc_below(&r,8); } }
  unsigned char *b=vc_exact_copy(tmp,len); int ret=0; int nb=cross_parse(b,len,nbf,&ret,"bytes"); vc_count("byte_strings",1);
  if(nb>=0){ iterator_checks(b,len,nbf,nb,&r,"bytes"); if(ret==0) vc_count("byte_strings_fully_valid",1); else vc_count("byte_strings_error_tail",1);
    /* fixed point: parse -> generate -> parse */
    if(nbf>=1){ memcpy(L0,L1,sizeof(L1[0])*nb); int dry=opus_packet_extensions_generate(NULL,1<<24,L0,nb,nbf,0);
      if(dry<0) vc_viol("fixedpoint:generate-refused","generate refused the list parse delivered (%d extensions, nbf=%d): %d",nb,nbf,dry);
      else { vc_gbuf g=vc_galloc(dry); int w=opus_packet_extensions_generate(g.p,dry,L0,nb,nbf,0); if(vc_gcheck(&g)) vc_viol("write:outside-buffer","fixed point generate damaged a canary");
        if(w!=dry) vc_viol("generate:dry-run-mismatch","fixed point: dry %d written %d",dry,w); else { unsigned char *b2=vc_exact_copy(g.p,dry); memcpy(L3,L0,sizeof(L0[0])*nb); vp_sort_exts(L3,nb); /* keep: cross_parse overwrites L1..L3, so save the expectation */
            static opus_extension_data EXP[BIGN]; memcpy(EXP,L3,sizeof(L3[0])*nb); int r2=0; int nb2=cross_parse(b2,dry,nbf,&r2,"regenerated"); int wv;
            if(nb2>=0){ if(r2!=0||!lists_equal(EXP,nb,L2,nb2,&wv)) vc_viol("fixedpoint:differs","parse(generate(parse(x))) != parse(x): ret %d, %d vs %d extensions, first difference %d",r2,nb2,nb,wv); else vc_count("fixedpoint_ok",1); }
            free(b2); }
        vc_gfree(&g); } }
    vc_sig3((uint64_t)kind|((uint64_t)(nbf>3?(nbf==48?5:4):nbf)<<3)|((uint64_t)(ret!=0)<<6),(uint64_t)(nb>3?(nb>20?5:4):nb),(uint64_t)(len<4?len:(len<40?5:(len<400?6:7))));
    if(vc_want_sample()&&nb>0){ char hx[100]; vc_hex(hx,sizeof hx,b,len<40?len:40); vc_sample("{\"mode\":\"bytes\",\"kind\":%d,\"len\":%d,\"nb_frames\":%d,\"extensions\":%d,\"parse_ret\":%d,\"head\":\"%s\"}",kind,len,nbf,nb,ret,hx); } }
  free(b);
}

/* ---------------------------------------------------------------- repack */
static void mode_repack(void){
  vc_rng r; vc_case_rng(&r,18); int config6=vc_below(&r,64); int maxfr=5760/rfc_dur48((unsigned char)(config6<<2)); if(maxfr>48) maxfr=48;
  OpusRepacketizer *rp=opus_repacketizer_create(); vp_pkt pk[24]; int npk=0; int start[24]; int nfr=0;
  int want=vc_range(&r,1,6);
  for(int k=0;k<want&&npk<24;k++){ int M=vc_chance(&r,1,3)?1:vc_range(&r,1,vc_chance(&r,1,4)?maxfr:5); if(nfr+M>maxfr) M=maxfr-nfr; if(M<1) break; int sizes[48]; vp_rand_sizes(&r,M,sizes,600);
    int padkind=vc_chance(&r,1,4)?VP_PAD_NONE:vc_chance(&r,1,6)?VP_PAD_ZERO:(vc_chance(&r,1,3)?VP_PAD_EXT_ONES:VP_PAD_EXT);
    vp_build(&r,&pk[npk],config6,M,sizes,vc_chance(&r,1,4),vc_below(&r,2),padkind,NULL,0);
    int rc=opus_repacketizer_cat(rp,pk[npk].buf,pk[npk].len); if(rc!=OPUS_OK){ vc_viol("repack:cat-rejected","valid packet with extensions rejected: %d",rc); vp_free(&pk[npk]); break; }
    start[npk]=nfr; nfr+=M; npk++; }
  if(nfr==0){ opus_repacketizer_destroy(rp); return; }
  for(int t=0;t<4;t++){ int b=vc_below(&r,nfr), e=b+1+(int)vc_below(&r,nfr-b); if(t==0){ b=0; e=nfr; } int M=e-b;
    /* expectation: ground-truth extensions of frames b..e-1, frame order */
    int ne=0; int extras=0; static unsigned char xs[64]; opus_extension_data xt[4];
    int use_impl=vc_chance(&r,1,2); int sd=use_impl&&vc_chance(&r,1,3); int pad=use_impl&&vc_chance(&r,1,3);
    if(use_impl&&vc_chance(&r,1,2)){ extras=vc_range(&r,1,3); for(int i=0;i<extras;i++){ xt[i].id=vc_range(&r,3,127); xt[i].frame=vc_below(&r,M); xt[i].len=xt[i].id<32?(int)vc_below(&r,2):(int)vc_below(&r,12); for(int j=0;j<xt[i].len;j++) xs[i*16+j]=(unsigned char)vc_u32(&r); xt[i].data=xs+i*16; L0[ne++]=xt[i]; } }
    for(int p=0;p<npk;p++) for(int i=0;i<pk[p].next;i++){ int f=start[p]+pk[p].ext[i].frame; if(f>=b&&f<e){ L0[ne]=pk[p].ext[i]; L0[ne].frame=f-b; ne++; } }
    vp_sort_exts(L0,ne);
    int big=1277*M+70000; vc_gbuf g=vc_galloc(big); int S=opus_repacketizer_out_range_impl(rp,b,e,g.p,big,sd,pad,extras?xt:NULL,extras); vc_count("repack_out_calls",1);
    if(vc_gcheck(&g)) vc_viol("write:outside-buffer","out_range_impl damaged a canary");
    if(S<=0){ vc_viol("repack:out-failed","out_range(%d,%d) of %d frames (%d packets, %d expected extensions, sd=%d pad=%d extras=%d) returned %d",b,e,nfr,npk,ne,sd,pad,extras,S); vc_gfree(&g); continue; }
    if(pad&&S!=big) vc_viol("repack:pad-length","pad=1 with maxlen %d returned %d",big,S);
    rfc_pkt m; rfc_parse(g.p,S,sd,&m); if(!m.valid||m.count!=M||m.consumed!=S){ vc_viol("repack:invalid-output","out_range(%d,%d) output invalid or wrong frame count",b,e); vc_gfree(&g); continue; }
    unsigned char *padc=vc_exact_copy(g.p+m.padding_off,m.pad); opus_int32 nb=BIGN; int ret=opus_packet_extensions_parse(padc,m.pad,L1,&nb,M);
    if(ret!=0){ vc_viol("repack:padding-unparsable","extensions written by the repacketizer do not parse (ret %d)",ret); }
    else { vp_sort_exts(L1,nb); int wv; if(!lists_equal(L0,ne,L1,nb,&wv)){ if(wv<0) vc_viol(nb<ne?"repack:extensions-lost":"repack:extensions-added","out_range(%d,%d) of %d frames in %d packets: expected %d extensions, output carries %d",b,e,nfr,npk,ne,nb); else vc_viol("repack:extension-misplaced","out_range(%d,%d): extension %d expected id=%d frame=%d len=%d, got id=%d frame=%d len=%d",b,e,wv,L0[wv].id,L0[wv].frame,L0[wv].len,L1[wv].id,L1[wv].frame,L1[wv].len); }
      else { vc_count("repack_carried_ok",1); if(ne) vc_count("repack_carried_nonempty",1); } }
    vc_sig3((uint64_t)M|((uint64_t)(b>0)<<6)|((uint64_t)(e<nfr)<<7)|((uint64_t)sd<<8)|((uint64_t)pad<<9)|((uint64_t)extras<<10),(uint64_t)(ne>3?(ne>20?5:4):ne),(uint64_t)npk);
    if(t==0&&vc_want_sample()) vc_sample("{\"mode\":\"repack\",\"packets\":%d,\"frames\":%d,\"range\":[%d,%d],\"expected_extensions\":%d,\"out_len\":%d}",npk,nfr,b,e,ne,S);
    free(padc); vc_gfree(&g); }
  /* opus_packet_pad_impl with extra extensions keeps both sets */
  { vp_pkt *p=&pk[vc_below(&r,npk)]; int M=p->M; int extras=vc_range(&r,1,3); static unsigned char xs[64]; opus_extension_data xt[4]; int ne=0;
    for(int i=0;i<extras;i++){ xt[i].id=vc_range(&r,3,127); xt[i].frame=vc_below(&r,M); xt[i].len=xt[i].id<32?(int)vc_below(&r,2):(int)vc_below(&r,12); for(int j=0;j<xt[i].len;j++) xs[i*16+j]=(unsigned char)vc_u32(&r); xt[i].data=xs+i*16; L0[ne++]=xt[i]; }
    for(int i=0;i<p->next;i++) L0[ne++]=p->ext[i]; vp_sort_exts(L0,ne);
    int nl=p->len+200+16*extras+(int)vc_below(&r,300); int pad=vc_below(&r,2); vc_gbuf g=vc_galloc(nl); memcpy(g.p,p->buf,p->len); int S=opus_packet_pad_impl(g.p,p->len,nl,pad,xt,extras);
    if(vc_gcheck(&g)) vc_viol("write:outside-buffer","pad_impl damaged a canary");
    if(S<=0||S>nl||(pad&&S!=nl)) vc_viol("repack:pad_impl-failed","pad_impl(%d->%d, pad=%d, %d extra) returned %d",p->len,nl,pad,extras,S);
    else { rfc_pkt m; rfc_parse(g.p,S,0,&m); if(!m.valid||m.count!=M) vc_viol("repack:invalid-output","pad_impl output invalid"); else { unsigned char *padc=vc_exact_copy(g.p+m.padding_off,m.pad); opus_int32 nb=BIGN; int ret=opus_packet_extensions_parse(padc,m.pad,L1,&nb,M); vp_sort_exts(L1,nb); int wv; if(ret!=0||!lists_equal(L0,ne,L1,nb,&wv)) vc_viol("repack:pad_impl-extensions","pad_impl with %d extra + %d own extensions: output carries %d (ret %d, first diff %d)",extras,p->next,nb,ret,wv); else vc_count("pad_impl_ok",1); for(int i=0;i<M;i++) if(m.sizes[i]!=p->sizes[i]||memcmp(g.p+m.offsets[i],p->buf+p->off[i],p->sizes[i])){ vc_viol("repack:frames-differ","pad_impl changed frame %d",i); break; } free(padc); } }
    vc_gfree(&g); }
  for(int i=0;i<npk;i++) vp_free(&pk[i]); opus_repacketizer_destroy(rp);
}

int main(int argc,char **argv){
  static const vc_mode_t modes[]={{"gen",mode_gen},{"bytes",mode_bytes},{"repack",mode_repack},{0,0}};
  return vc_main(argc,argv,"C16",modes);
}
