/* C15 -- optimised (SIMD, run-time dispatched) kernels match the portable C code.
 * Every SIMD entry point named in the x86 dispatch tables is interposed at link time (-Wl,--wrap): whenever the codec calls it, the
 * wrapper runs the portable *_c twin on copies of the same arguments and state and compares -- bit for bit for integer kernels
 * (incl. every byte of the state structs they update), within a floating-point reassociation bound for float kernels.  So the
 * argument shapes are exactly those the codec passes.   Modes:
 *   live    whole-codec encode + decode workloads with the RTCD level capped by hook H1 (arg cap=1..4); wrappers compare every call
 *   direct  synthetic calls to the vector kernels: every length 1..1024 residue, misaligned pointers, extreme data
 *   codec   twin codecs created at different RTCD levels: fixed build -> byte-identical packets and PCM; float build -> every decoder
 *           level reproduces the final range of packets produced at every encoder level
 */
#include "vcodec.h"
#include "arch.h"
#include "pitch.h"
#include "celt.h"
#include "vq.h"
#include "celt_lpc.h"
#include "main.h"
#include "cpu_support.h"
#ifdef FIXED_POINT
#include "main_FIX.h"
#else
#include "SigProc_FLP.h"
#endif
#include <float.h>

static long ncmp=0;
/* the SSE2 PVQ search takes greedy decisions with approximate reciprocals: it may pick a slightly different vector. What is asserted
   is that its objective is not worse than the portable search's by more than PVQ_TOL (committed in calib/c15.json, measured on the pinned tree). */
#ifndef PVQ_TOL
#define PVQ_TOL 0.05     /* measured maximum 0.0238 over 1e7 calls */
#define PVQ_FRAC 0.002   /* measured 0.00023 of the calls are worse by more than 0.1% */
#endif
#define KCOUNT(name) do{ vc_count("kernel_calls:" name,1); ncmp++; }while(0)
static int viol_once(const char *key){ static char seen[40][64]; static int n=0; for(int i=0;i<n;i++) if(!strcmp(seen[i],key)) return 0; if(n<40) snprintf(seen[n++],64,"%s",key); return 1; }

/* ---------------------------------------------------------------- SILK integer kernels (both builds) */
opus_int __real_silk_VAD_GetSA_Q8_sse4_1(silk_encoder_state *psEncC,const opus_int16 pIn[]);
opus_int __wrap_silk_VAD_GetSA_Q8_sse4_1(silk_encoder_state *psEncC,const opus_int16 pIn[]){ static silk_encoder_state cp; memcpy(&cp,psEncC,sizeof cp); opus_int a=__real_silk_VAD_GetSA_Q8_sse4_1(psEncC,pIn); opus_int b=silk_VAD_GetSA_Q8_c(&cp,pIn); KCOUNT("silk_VAD_GetSA_Q8_sse4_1");
  if(a!=b||memcmp(&cp,psEncC,sizeof cp)){ if(viol_once("vad")) vc_viol("kernel:silk_VAD_GetSA_Q8_sse4_1","SSE4.1 VAD differs from silk_VAD_GetSA_Q8_c: return %d vs %d, speech_activity_Q8 %d vs %d, input_tilt_Q15 %d vs %d (fs_kHz %d frame %d)",a,b,psEncC->speech_activity_Q8,cp.speech_activity_Q8,psEncC->input_tilt_Q15,cp.input_tilt_Q15,psEncC->fs_kHz,psEncC->frame_length); } return a; }
static const char *nsq_field(const silk_nsq_state *a,const silk_nsq_state *b,int *idx){ *idx=-1;
#define NF(f) if(memcmp(&a->f,&b->f,sizeof a->f)){ const char *x=(const char*)&a->f,*y=(const char*)&b->f; for(size_t q=0;q<sizeof a->f;q++) if(x[q]!=y[q]){ *idx=(int)q; break; } return #f; }
  NF(xq) NF(sLTP_shp_Q14) NF(sLPC_Q14) NF(sAR2_Q14) NF(sLF_AR_shp_Q14) NF(sDiff_shp_Q14) NF(lagPrev) NF(sLTP_buf_idx) NF(sLTP_shp_buf_idx) NF(rand_seed) NF(prev_gain_Q16) NF(rewhite_flag)
#undef NF
  return "padding"; }
#define NSQ_ARGS const silk_encoder_state *psEncC,silk_nsq_state *NSQ,SideInfoIndices *psIndices,const opus_int16 x16[],opus_int8 pulses[],const opus_int16 *PredCoef_Q12,const opus_int16 LTPCoef_Q14[],const opus_int16 AR_Q13[],const opus_int HarmShapeGain_Q14[],const opus_int Tilt_Q14[],const opus_int32 LF_shp_Q14[],const opus_int32 Gains_Q16[],const opus_int pitchL[],const opus_int Lambda_Q10,const opus_int LTP_scale_Q14
#define NSQ_PASS(n,i,p) psEncC,n,i,x16,p,PredCoef_Q12,LTPCoef_Q14,AR_Q13,HarmShapeGain_Q14,Tilt_Q14,LF_shp_Q14,Gains_Q16,pitchL,Lambda_Q10,LTP_scale_Q14
#define NSQ_WRAPPER(simd,cfn,label) void __real_##simd(NSQ_ARGS); void __wrap_##simd(NSQ_ARGS){ static silk_nsq_state n2; SideInfoIndices i2; static opus_int8 p2[MAX_FRAME_LENGTH+16]; memcpy(&n2,NSQ,sizeof n2); i2=*psIndices; int fl=psEncC->frame_length; memset(p2,0x55,sizeof p2); \
  __real_##simd(NSQ_PASS(NSQ,psIndices,pulses)); cfn(NSQ_PASS(&n2,&i2,p2)); KCOUNT(label); \
  if(memcmp(p2,pulses,fl)||memcmp(&n2,NSQ,sizeof n2)||memcmp(&i2,psIndices,sizeof i2)){ \
    /* one signature is classified separately: everything equal except xq samples that saturate with opposite signs (the 32-bit product of silk_SMULWW wraps in C) */ \
    int only_xq=!memcmp(p2,pulses,fl)&&!memcmp(&i2,psIndices,sizeof i2), nx=0; if(only_xq){ static silk_nsq_state t; memcpy(&t,&n2,sizeof t); for(int q=0;q<2*MAX_FRAME_LENGTH;q++) if(t.xq[q]!=NSQ->xq[q]){ nx++; if(!((t.xq[q]==-32768&&NSQ->xq[q]==32767)||(t.xq[q]==32767&&NSQ->xq[q]==-32768))) only_xq=0; t.xq[q]=NSQ->xq[q]; } if(memcmp(&t,NSQ,sizeof t)) only_xq=0; } \
    if(only_xq&&nx>0){ if(viol_once(label ":xq")) vc_viol("kernel:" label ":xq-saturates-with-opposite-sign",label " and " #cfn " produce the same pulses, indices and state except %d reconstructed samples xq[] that saturate to +32767 in one and -32768 in the other (fs_kHz %d, frame %d, nStatesDelayedDecision %d, signalType %d, gains %d %d %d %d)",nx,psEncC->fs_kHz,fl,psEncC->nStatesDelayedDecision,psIndices->signalType,Gains_Q16[0],Gains_Q16[1],Gains_Q16[2],Gains_Q16[3]); } \
    else if(viol_once(label)){ int fp=-1, fidx=-1; const char *fname=nsq_field(&n2,NSQ,&fidx); for(int q=0;q<fl;q++) if(p2[q]!=pulses[q]){ fp=q; break; } vc_viol("kernel:" label,label " differs from " #cfn ": first differing pulse %d, state %s (first field %s, byte %d), indices %s (fs_kHz %d, frame %d, nb_subfr %d, nStatesDelayedDecision %d, signalType %d)",fp,memcmp(&n2,NSQ,sizeof n2)?"differs":"equal",fname,fidx,memcmp(&i2,psIndices,sizeof i2)?"differ":"equal",psEncC->fs_kHz,fl,psEncC->nb_subfr,psEncC->nStatesDelayedDecision,psIndices->signalType); } } }
NSQ_WRAPPER(silk_NSQ_sse4_1,silk_NSQ_c,"silk_NSQ_sse4_1")
NSQ_WRAPPER(silk_NSQ_del_dec_sse4_1,silk_NSQ_del_dec_c,"silk_NSQ_del_dec_sse4_1")
NSQ_WRAPPER(silk_NSQ_del_dec_avx2,silk_NSQ_del_dec_c,"silk_NSQ_del_dec_avx2")
#define VQ_ARGS opus_int8 *ind,opus_int32 *res_nrg_Q15,opus_int32 *rate_dist_Q8,opus_int *gain_Q7,const opus_int32 *XX_Q17,const opus_int32 *xX_Q17,const opus_int8 *cb_Q7,const opus_uint8 *cb_gain_Q7,const opus_uint8 *cl_Q5,const opus_int subfr_len,const opus_int32 max_gain_Q7,const opus_int L
void __real_silk_VQ_WMat_EC_sse4_1(VQ_ARGS);
void __wrap_silk_VQ_WMat_EC_sse4_1(VQ_ARGS){ opus_int8 i2=*ind; opus_int32 r2=*res_nrg_Q15, d2=*rate_dist_Q8; opus_int g2=*gain_Q7; __real_silk_VQ_WMat_EC_sse4_1(ind,res_nrg_Q15,rate_dist_Q8,gain_Q7,XX_Q17,xX_Q17,cb_Q7,cb_gain_Q7,cl_Q5,subfr_len,max_gain_Q7,L); silk_VQ_WMat_EC_c(&i2,&r2,&d2,&g2,XX_Q17,xX_Q17,cb_Q7,cb_gain_Q7,cl_Q5,subfr_len,max_gain_Q7,L); KCOUNT("silk_VQ_WMat_EC_sse4_1");
  if(i2!=*ind||r2!=*res_nrg_Q15||d2!=*rate_dist_Q8||g2!=*gain_Q7){ if(viol_once("vq")) vc_viol("kernel:silk_VQ_WMat_EC_sse4_1","SSE4.1 LTP codebook search differs from C: index %d/%d energy %d/%d rate-dist %d/%d gain %d/%d (L=%d)",*ind,i2,*res_nrg_Q15,r2,*rate_dist_Q8,d2,*gain_Q7,g2,L); } }

#ifndef FIXED_POINT
/* ---------------------------------------------------------------- float kernels: reassociation bounds */
static double absdot(const float *x,const float *y,int n){ double s=0; for(int i=0;i<n;i++) s+=fabs((double)x[i]*y[i]); return s; }
static double worst_rel=0;
static int fclose_enough(double a,double b,double S,int n,const char *what,const char *detail){ double tol=2.5*(n+2)*FLT_EPSILON*S+1e-30; double d=fabs(a-b); if(S>0&&d/(S*FLT_EPSILON*(n+2))>worst_rel) worst_rel=d/(S*FLT_EPSILON*(n+2)); if(!(d<=tol)||!isfinite(a)){ if(viol_once(what)) vc_viol(what,"%s: SIMD %.9g vs C %.9g differ by %.3g, bound %.3g (n=%d, sum|x y|=%.6g)",detail,a,b,d,tol,n,S); return 0; } return 1; }
void __real_xcorr_kernel_sse(const opus_val16 *x,const opus_val16 *y,opus_val32 sum[4],int len);
void __wrap_xcorr_kernel_sse(const opus_val16 *x,const opus_val16 *y,opus_val32 sum[4],int len){ opus_val32 s2[4]={sum[0],sum[1],sum[2],sum[3]}, s0[4]={sum[0],sum[1],sum[2],sum[3]}; __real_xcorr_kernel_sse(x,y,sum,len); xcorr_kernel_c(x,y,s2,len); KCOUNT("xcorr_kernel_sse"); for(int k=0;k<4;k++){ double S=absdot(x,y+k,len)+fabs(s0[k]); if(isfinite(S)) fclose_enough(sum[k],s2[k],S,len,"kernel:xcorr_kernel_sse","xcorr_kernel lag"); } }
opus_val32 __real_celt_inner_prod_sse(const opus_val16 *x,const opus_val16 *y,int N);
opus_val32 __wrap_celt_inner_prod_sse(const opus_val16 *x,const opus_val16 *y,int N){ opus_val32 a=__real_celt_inner_prod_sse(x,y,N), b=celt_inner_prod_c(x,y,N); KCOUNT("celt_inner_prod_sse"); { double S=absdot(x,y,N); if(isfinite(S)) fclose_enough(a,b,S,N,"kernel:celt_inner_prod_sse","celt_inner_prod"); } return a; }
void __real_dual_inner_prod_sse(const opus_val16 *x,const opus_val16 *y01,const opus_val16 *y02,int N,opus_val32 *xy1,opus_val32 *xy2);
void __wrap_dual_inner_prod_sse(const opus_val16 *x,const opus_val16 *y01,const opus_val16 *y02,int N,opus_val32 *xy1,opus_val32 *xy2){ opus_val32 a1,a2; __real_dual_inner_prod_sse(x,y01,y02,N,xy1,xy2); dual_inner_prod_c(x,y01,y02,N,&a1,&a2); KCOUNT("dual_inner_prod_sse"); { double S1=absdot(x,y01,N), S2=absdot(x,y02,N); if(isfinite(S1)) fclose_enough(*xy1,a1,S1,N,"kernel:dual_inner_prod_sse","dual_inner_prod first"); if(isfinite(S2)) fclose_enough(*xy2,a2,S2,N,"kernel:dual_inner_prod_sse","dual_inner_prod second"); } }
void __real_comb_filter_const_sse(opus_val32 *y,opus_val32 *x,int T,int N,opus_val16 g10,opus_val16 g11,opus_val16 g12);
void __wrap_comb_filter_const_sse(opus_val32 *y,opus_val32 *x,int T,int N,opus_val16 g10,opus_val16 g11,opus_val16 g12){ static float xc[4096], yc[2048]; if(N>2048||T+2>2040){ __real_comb_filter_const_sse(y,x,T,N,g10,g11,g12); return; } /* x[-T-2 .. N) is read; copy so that in-place operation (y==x) is reproduced on the copy */
  memcpy(xc,x-T-2,sizeof(float)*(N+T+2)); const float *xx=xc+T+2; int inplace=(y==x); __real_comb_filter_const_sse(y,x,T,N,g10,g11,g12); KCOUNT("comb_filter_const_sse");
  /* each output sample is checked against the exact value of its own operands (for in-place operation the operands at non-negative
     indices are the kernel's earlier outputs), so recursion through the period does not accumulate into the bound */
#define OP(j) ((double)((inplace&&(j)>=0)?y[(j)]:xx[(j)]))
  for(int i=0;i<N;i++){ double e=(double)xx[i]+(double)g10*OP(i-T)+(double)g11*(OP(i-T+1)+OP(i-T-1))+(double)g12*(OP(i-T+2)+OP(i-T-2)); double S=fabs((double)xx[i])+fabs((double)g10*OP(i-T))+fabs((double)g11)*(fabs(OP(i-T+1))+fabs(OP(i-T-1)))+fabs((double)g12)*(fabs(OP(i-T+2))+fabs(OP(i-T-2))); double d=fabs((double)y[i]-e);
    if(!(d<=8*FLT_EPSILON*S+1e-30)){ if(viol_once("comb")) vc_viol("kernel:comb_filter_const_sse","comb_filter_const sample %d of %d: SIMD %.9g, exact value of its operands %.9g (difference %.3g, bound %.3g; T=%d, in-place %d)",i,N,y[i],e,d,8*FLT_EPSILON*S,T,inplace); break; } }
#undef OP
  /* and the portable version gives the same within the same bound when fed the same (not in-place) operands */
  if(!inplace){ comb_filter_const_c(yc,(float*)xx,T,N,g10,g11,g12); for(int i=0;i<N;i++){ double S=fabs(yc[i])+fabs(y[i])+fabs(xx[i])+fabs(xx[i-T])+1e-30; if(!(fabs((double)yc[i]-y[i])<=16*FLT_EPSILON*S)){ if(viol_once("combc")) vc_viol("kernel:comb_filter_const_sse","comb_filter_const sample %d: SIMD %.9g vs C %.9g",i,y[i],yc[i]); break; } } } }
opus_val16 __real_op_pvq_search_sse2(celt_norm *X,int *iy,int K,int N,int arch);
opus_val16 __wrap_op_pvq_search_sse2(celt_norm *X,int *iy,int K,int N,int arch){ static float X0[1024], X2[1024]; static int iy2[1024]; if(N>1000){ return __real_op_pvq_search_sse2(X,iy,K,N,arch); } memcpy(X0,X,sizeof(float)*N); memcpy(X2,X,sizeof(float)*N); opus_val16 a=__real_op_pvq_search_sse2(X,iy,K,N,arch); opus_val16 b=op_pvq_search_c(X2,iy2,K,N,arch); KCOUNT("op_pvq_search_sse2");
  long s1=0,s2=0; double xy1=0,yy1=0,xy2=0,yy2=0; for(int j=0;j<N;j++){ s1+=labs((long)iy[j]); s2+=labs((long)iy2[j]); xy1+=(double)X0[j]*iy[j]; yy1+=(double)iy[j]*iy[j]; xy2+=(double)X0[j]*iy2[j]; yy2+=(double)iy2[j]*iy2[j]; if((iy[j]>0&&X0[j]<0)||(iy[j]<0&&X0[j]>0)){ if(viol_once("pvqsign")) vc_viol("kernel:op_pvq_search_sse2","pulse %d has the wrong sign (x=%.6g iy=%d)",j,X0[j],iy[j]); } }
  if(s1!=K||s2!=K){ if(viol_once("pvqK")) vc_viol("kernel:op_pvq_search_sse2","pulse count %ld (SIMD) / %ld (C), expected K=%d (N=%d)",s1,s2,K,N); }
  else { double nx=0; for(int j=0;j<N;j++) nx+=(double)X0[j]*X0[j]; nx=sqrt(nx); if(!(nx>1e-6&&nx<8)){ vc_count("pvq_unnormalised_inputs",1); return a; } /* band vectors have norm <= 1 (sub-splits less); for near-silence (norm < 1e-6, where the portable code falls back to a fixed vector) only a valid K-pulse vector is required */
    double o1=yy1>0?xy1/sqrt(yy1):0, o2=yy2>0?xy2/sqrt(yy2):0; double rel=(o2-o1)/(fabs(o2)+1e-30); vc_max("op_pvq_search_objective_relative_difference",rel); { static long tot=0,over=0; tot++; if(rel>1e-3) over++; if(tot>=300000&&over>tot*PVQ_FRAC){ if(viol_once("pvqfrac")) vc_viol("kernel:op_pvq_search_sse2:often-worse","the SSE2 search is worse than the portable search by more than 0.1%% on %ld of %ld calls (limit %.2g of the calls)",over,tot,(double)PVQ_FRAC); } }
    if(rel>1e-3) vc_count("pvq_objective_diff_over_1e-3",1); if(rel>1e-2) vc_count("pvq_objective_diff_over_1e-2",1); if(rel>0.02&&getenv("C15_DEBUG_PVQ")){ fprintf(stderr,"PVQ K=%d N=%d o_simd=%.9g o_c=%.9g X0:",K,N,o1,o2); for(int j=0;j<N&&j<24;j++) fprintf(stderr," %.4g",X0[j]); fprintf(stderr," | simd:"); for(int j=0;j<N&&j<24;j++) fprintf(stderr," %d",iy[j]); fprintf(stderr," | c:"); for(int j=0;j<N&&j<24;j++) fprintf(stderr," %d",iy2[j]); fprintf(stderr,"\n"); }
    if(o1<o2*(1-PVQ_TOL)){ if(viol_once("pvqobj")) vc_viol("kernel:op_pvq_search_sse2","search objective Rxy/sqrt(Ryy): SIMD %.9g vs C %.9g (relative %.3g) K=%d N=%d",o1,o2,rel,K,N); }
    if(fabs((double)a-yy1)>1e-3*(yy1+1)){ if(viol_once("pvqyy")) vc_viol("kernel:op_pvq_search_sse2","returned energy %.6g but the vector's energy is %.6g",(double)a,yy1); } (void)b; }
  return a; }
void __real_celt_pitch_xcorr_avx2(const float *_x,const float *_y,float *xcorr,int len,int max_pitch,int arch);
void __wrap_celt_pitch_xcorr_avx2(const float *_x,const float *_y,float *xcorr,int len,int max_pitch,int arch){ static float c2[4096]; if(max_pitch>4096){ __real_celt_pitch_xcorr_avx2(_x,_y,xcorr,len,max_pitch,arch); return; } __real_celt_pitch_xcorr_avx2(_x,_y,xcorr,len,max_pitch,arch); celt_pitch_xcorr_c(_x,_y,c2,len,max_pitch,0); KCOUNT("celt_pitch_xcorr_avx2"); for(int i=0;i<max_pitch;i++){ double S=absdot(_x,_y+i,len); if(!isfinite(S)) continue; /* a non-finite sample inside this lag's window: no bound */ if(!fclose_enough(xcorr[i],c2[i],S,len,"kernel:celt_pitch_xcorr_avx2","pitch xcorr lag")) break; } }
double __real_silk_inner_product_FLP_avx2(const silk_float *data1,const silk_float *data2,opus_int dataSize);
double __wrap_silk_inner_product_FLP_avx2(const silk_float *data1,const silk_float *data2,opus_int dataSize){ double a=__real_silk_inner_product_FLP_avx2(data1,data2,dataSize), b=silk_inner_product_FLP_c(data1,data2,dataSize); KCOUNT("silk_inner_product_FLP_avx2"); double S=absdot(data1,data2,dataSize); if(!(fabs(a-b)<=1e-12*(dataSize+2)*S+1e-300)){ if(viol_once("flp")) vc_viol("kernel:silk_inner_product_FLP_avx2","double inner product: AVX2 %.17g vs C %.17g (n=%d)",a,b,dataSize); } return a; }
#else
/* ---------------------------------------------------------------- fixed-point kernels: bit exact */
void __real_celt_fir_sse4_1(const opus_val16 *x,const opus_val16 *num,opus_val16 *y,int N,int ord,int arch);
void __wrap_celt_fir_sse4_1(const opus_val16 *x,const opus_val16 *num,opus_val16 *y,int N,int ord,int arch){ static opus_val16 xc[8192], y2[4096]; if(N>4096||ord>64){ __real_celt_fir_sse4_1(x,num,y,N,ord,arch); return; } memcpy(xc,x-ord,sizeof(opus_val16)*(N+ord)); __real_celt_fir_sse4_1(x,num,y,N,ord,arch); celt_fir_c(xc+ord,num,y2,N,ord,0); KCOUNT("celt_fir_sse4_1"); if(memcmp(y,y2,sizeof(opus_val16)*N)){ if(viol_once("fir")){ int q=0; while(y[q]==y2[q]) q++; long long corr=0; for(int j=0;j<ord;j++) corr+=(long long)num[ord-1-j]*xc[q+j]; vc_viol("kernel:celt_fir_sse4_1","celt_fir differs from C (N=%d ord=%d): sample %d SSE4.1 %d vs C %d; x=%d, exact correlation %lld (x<<12 + corr = %lld)",N,ord,q,y[q],y2[q],xc[q+ord],corr,((long long)xc[q+ord]<<12)+corr); } } }
void __real_xcorr_kernel_sse4_1(const opus_int16 *x,const opus_int16 *y,opus_val32 sum[4],int len);
void __wrap_xcorr_kernel_sse4_1(const opus_int16 *x,const opus_int16 *y,opus_val32 sum[4],int len){ opus_val32 s2[4]={sum[0],sum[1],sum[2],sum[3]}; __real_xcorr_kernel_sse4_1(x,y,sum,len); xcorr_kernel_c(x,y,s2,len); KCOUNT("xcorr_kernel_sse4_1"); if(memcmp(sum,s2,sizeof s2)){ if(viol_once("xk")) vc_viol("kernel:xcorr_kernel_sse4_1","xcorr_kernel differs from C (len=%d): %d %d %d %d vs %d %d %d %d",len,sum[0],sum[1],sum[2],sum[3],s2[0],s2[1],s2[2],s2[3]); } }
#define IP_WRAPPER(simd,label) opus_val32 __real_##simd(const opus_int16 *x,const opus_int16 *y,int N); opus_val32 __wrap_##simd(const opus_int16 *x,const opus_int16 *y,int N){ opus_val32 a=__real_##simd(x,y,N), b=celt_inner_prod_c(x,y,N); KCOUNT(label); if(a!=b){ if(viol_once(label)) vc_viol("kernel:" label,label " = %d, C = %d (N=%d)",a,b,N); } return a; }
IP_WRAPPER(celt_inner_prod_sse2,"celt_inner_prod_sse2")
IP_WRAPPER(celt_inner_prod_sse4_1,"celt_inner_prod_sse4_1")
opus_int64 __real_silk_inner_prod16_sse4_1(const opus_int16 *a,const opus_int16 *b,const opus_int len);
opus_int64 __wrap_silk_inner_prod16_sse4_1(const opus_int16 *a,const opus_int16 *b,const opus_int len){ opus_int64 r=__real_silk_inner_prod16_sse4_1(a,b,len), c=silk_inner_prod16_c(a,b,len); KCOUNT("silk_inner_prod16_sse4_1"); if(r!=c){ if(viol_once("ip16")) vc_viol("kernel:silk_inner_prod16_sse4_1","SSE4.1 %lld vs C %lld (len=%d)",(long long)r,(long long)c,len); } return r; }
void __real_silk_burg_modified_sse4_1(opus_int32 *res_nrg,opus_int *res_nrg_Q,opus_int32 A_Q16[],const opus_int16 x[],const opus_int32 minInvGain_Q30,const opus_int subfr_length,const opus_int nb_subfr,const opus_int D,int arch);
void __wrap_silk_burg_modified_sse4_1(opus_int32 *res_nrg,opus_int *res_nrg_Q,opus_int32 A_Q16[],const opus_int16 x[],const opus_int32 minInvGain_Q30,const opus_int subfr_length,const opus_int nb_subfr,const opus_int D,int arch){ opus_int32 rn; opus_int rq; opus_int32 A2[32]; __real_silk_burg_modified_sse4_1(res_nrg,res_nrg_Q,A_Q16,x,minInvGain_Q30,subfr_length,nb_subfr,D,arch); silk_burg_modified_c(&rn,&rq,A2,x,minInvGain_Q30,subfr_length,nb_subfr,D,0); KCOUNT("silk_burg_modified_sse4_1"); if(rn!=*res_nrg||rq!=*res_nrg_Q||memcmp(A2,A_Q16,sizeof(opus_int32)*D)){ if(viol_once("burg")) vc_viol("kernel:silk_burg_modified_sse4_1","Burg analysis differs from C: res_nrg %d/%d Q %d/%d (D=%d subfr %d x %d)",*res_nrg,rn,*res_nrg_Q,rq,D,nb_subfr,subfr_length); } }
#endif

/* ---------------------------------------------------------------- live */
static void mode_live(void){
  vc_rng r; vc_case_rng(&r,15); int err; int cap=(int)vc_argl("cap",4); if(!&opus_verif_arch_cap){ fprintf(stderr,"hook H1 missing\n"); exit(3); } opus_verif_arch_cap=cap;
  int Fs=VC_PICK(&r,vk_rates), ch=1+vc_below(&r,2); OpusEncoder *e=opus_encoder_create(Fs,ch,VC_PICK(&r,vk_apps),&err); OpusDecoder *d=opus_decoder_create(VC_PICK(&r,vk_rates),1+vc_below(&r,2),&err); vk_encset set; vk_encset_default(&set,OPUS_APPLICATION_AUDIO);
  int sig=vc_chance(&r,1,4)?VS_SQUARE:(int)vc_below(&r,VS_NFINITE); vc_siggen g; vs_init(&g,sig,Fs,ch,vc_chance(&r,1,3)?1.0f:(float)(0.05+0.9*vc_unit(&r)),vc_next(&r)); static float in[5760*2], out[5760*2]; static opus_int16 s16[5760*2]; unsigned char pk[1500]; int fidx=vc_below(&r,9); long before=ncmp;
  if(vc_chance(&r,1,2)) opus_encoder_ctl(e,VK_SET_FORCE_MODE_REQUEST,VK_MODE_SILK+(int)vc_below(&r,3));
  for(int k=0;k<24;k++){ if(vc_chance(&r,1,3)) vk_enc_random_ctl(e,&set,&r,ch,NULL,0); if(vc_chance(&r,1,5)) fidx=vc_below(&r,9); if(vc_chance(&r,1,10)){ g.kind=vc_chance(&r,1,3)?VS_SQUARE:(int)vc_below(&r,VS_NFINITE); g.amp=vc_chance(&r,1,2)?1.0f:0.3f; }
    int fs=vk_frame_samples(Fs,fidx); vs_fill(&g,in,fs); int len; if(vc_chance(&r,1,3)){ /* full-scale alternating samples: extreme integer data for the SILK kernels */ if(vc_chance(&r,1,3)) for(int i=0;i<fs*ch;i++) in[i]=((i/ch)&1)?1.0f:-1.0f; for(int i=0;i<fs*ch;i++) s16[i]=vc_f2s(in[i]); len=opus_encode(e,s16,fs,pk,1500); } else len=opus_encode_float(e,in,fs,pk,1500);
    if(len>0){ if(vc_chance(&r,1,8)) opus_decode_float(d,NULL,0,out,960,0); else opus_decode_float(d,pk,len,out,5760,0); } }
  vc_count("live_kernel_comparisons",ncmp-before); vc_sig3(cap,(uint64_t)(Fs/4000)|((uint64_t)ch<<4),sig);
  if(vc_want_sample()) vc_sample("{\"mode\":\"live\",\"arch_cap\":%d,\"Fs\":%d,\"ch\":%d,\"signal\":\"%s\",\"kernel_calls_compared_in_this_case\":%ld}",cap,Fs,ch,vs_names[sig],ncmp-before);
#ifndef FIXED_POINT
  vc_max("float_kernel_worst_error_over_bound_unit",worst_rel);
#endif
  opus_encoder_destroy(e); opus_decoder_destroy(d);
}

/* ---------------------------------------------------------------- direct */
static void mode_direct(void){
  vc_rng r; vc_case_rng(&r,16); if(&opus_verif_arch_cap) opus_verif_arch_cap=1000;
#ifndef FIXED_POINT
  static float xb[1200+32], yb[2400+32], o1[1200+32]; int style=vc_below(&r,6);
  for(int t=0;t<40;t++){ int len=vc_chance(&r,1,2)?vc_range(&r,1,64):vc_range(&r,1,1024); int ox=vc_below(&r,4), oy=vc_below(&r,4); float *x=xb+ox, *y=yb+oy; float sc= style==0?1.f: style==1?1e-20f: style==2?1e15f: style==3?32768.f:1.f;
    for(int i=0;i<len+8;i++) x[i]=sc*(style==4?((i&1)?1.f:-1.f):(style==5?(vc_chance(&r,1,8)?1e10f:1e-10f)*(float)(2*vc_unit(&r)-1):(float)(2*vc_unit(&r)-1))); for(int i=0;i<2*len+16;i++) y[i]=sc*(float)(2*vc_unit(&r)-1);
    /* calls go through the real dispatch of this build at the machine's level; the wrappers compare with C */
    int arch=opus_select_arch();
    { opus_val32 sum[4]={0,0,0,0}; if(len>=4) xcorr_kernel(x,y,sum,len,arch); /* the codec never correlates fewer than 4 samples */ } (void)celt_inner_prod(x,y,len,arch); { opus_val32 a,b; dual_inner_prod(x,y,y+len,len,&a,&b,arch); }
    { int mp=vc_range(&r,4,len<256?64:16)&~3; if(len>=4) celt_pitch_xcorr(x,y,o1,len,mp,arch); }
    /* exact-size heap blocks: x has len floats, y has len+max_pitch-1 (all the kernels may read); an over-read hits ASan's red zone.
       Half of the time the last y sample is +Inf: lags whose window does not contain it must stay finite and equal to the C result */
    if(len>=4){ int mp=vc_range(&r,1,24); float *hx=(float*)malloc(sizeof(float)*len), *hy=(float*)malloc(sizeof(float)*(len+mp-1)), *ho=(float*)malloc(sizeof(float)*mp); memcpy(hx,x,sizeof(float)*len); for(int i=0;i<len+mp-1;i++) hy[i]=y[i%(2*len)]; if(vc_chance(&r,1,2)&&mp>1) hy[len+mp-2]=INFINITY;
      celt_pitch_xcorr(hx,hy,ho,len,mp,arch); (void)celt_inner_prod(hx,hy,len,arch); { opus_val32 a,b; if(mp>1) dual_inner_prod(hx,hy,hy+mp-1,len,&a,&b,arch); } free(hx); free(hy); free(ho); vc_count("direct_exact_size_calls",1); }
    { int T=vc_range(&r,15,200); int N=(vc_range(&r,1,len)+3)&~3; /* the codec filters multiples of 4 samples */ static float cb[1600]; for(int i=0;i<1600;i++) cb[i]=sc*(float)(2*vc_unit(&r)-1); float *cx=cb+T+2+vc_below(&r,4); if(N+T+8<1500) comb_filter_const(cx,cx,T,N,0.3f,0.2f,0.1f,arch); }
    { int N=vc_range(&r,2,176); int K=vc_range(&r,1,N<32?64:20); static float pv[200]; static int iy[200]; for(int i=0;i<N;i++) pv[i]=(float)vc_gauss(&r)*(vc_chance(&r,1,6)?1e-6f:1.f);
      /* degenerate bands: both searches replace a vector whose magnitude sum is not inside (EPSILON, 64) -- all-zero, vanishing, huge,
         infinite or not-a-number -- by a unit pulse at position 0, so the result is defined and must still be a K-pulse codeword */
      if(vc_chance(&r,1,6)){ int st=vc_below(&r,5); if(st==0) memset(pv,0,sizeof(float)*N); else if(st==1) for(int i=0;i<N;i++) pv[i]*=1e-20f; else if(st==2) for(int i=0;i<N;i++) pv[i]*=1e6f; else if(st==3) pv[vc_below(&r,N)]=vc_chance(&r,1,2)?INFINITY:-INFINITY; else pv[vc_below(&r,N)]=NAN; vc_count("direct_pvq_degenerate_bands",1); }
      op_pvq_search(pv,iy,K,N,arch); }
    { static float da[1100], db[1100]; int n=vc_range(&r,1,1024); for(int i=0;i<n;i++){ da[i]=x[i%(len+8)]; db[i]=y[i%(len+8)]; } (void)silk_inner_product_FLP(da,db,n,arch); }
    vc_sig3(len&15,(uint64_t)ox|((uint64_t)oy<<2)|((uint64_t)style<<4),len>>4); }
  vc_max("float_kernel_worst_error_over_bound_unit",worst_rel);
#else
  static opus_int16 xb[1200+32], yb[2400+32]; int style=vc_below(&r,4);
  for(int t=0;t<40;t++){ int len=vc_chance(&r,1,2)?vc_range(&r,1,64):vc_range(&r,1,1024); int ox=vc_below(&r,8), oy=vc_below(&r,8); opus_int16 *x=xb+ox,*y=yb+oy; int A=(int)sqrt(2147483000.0/(len+4)); if(A>32767) A=32767; /* keeps 32-bit accumulation in range, as the codec's scaling does */ for(int i=0;i<len+16;i++) x[i]=(opus_int16)(style==0?vc_range(&r,-A,A):style==1?((i&1)?A:-A):style==2?-A:vc_range(&r,-300,300)); for(int i=0;i<2*len+16;i++) y[i]=(opus_int16)(style==2?-A:style==1?((i&1)?-A:A):vc_range(&r,-A,A));
    int arch=opus_select_arch(); { opus_val32 sum[4]={0,0,0,0}; if(len>=4) xcorr_kernel(x,y,sum,len,arch); /* the codec never correlates fewer than 4 samples */ } (void)celt_inner_prod(x,y,len,arch); (void)silk_inner_prod16(x,y,len,arch);
    { int ord=vc_range(&r,1,24)&~3; if(ord<4) ord=4; int N=vc_range(&r,1,len); static opus_int16 num[32], fo[1100]; for(int i=0;i<ord;i++) num[i]=(opus_int16)vc_range(&r,-4096,4096); static opus_int16 fx[1200]; for(int i=0;i<N+ord;i++) fx[i]=(opus_int16)vc_range(&r,-8000,8000); celt_fir(fx+ord,num,fo,N,ord,arch); }
    vc_sig3(len&15,(uint64_t)ox|((uint64_t)oy<<3)|((uint64_t)style<<6),len>>4); }
#endif
  vc_count("direct_kernel_comparisons",ncmp);
  ncmp=0;
}

/* ---------------------------------------------------------------- codec: twin codecs at different RTCD levels */
static void mode_codec(void){
  vc_rng r; vc_case_rng(&r,17); int err; if(!&opus_verif_arch_cap){ fprintf(stderr,"hook H1 missing\n"); exit(3); }
  int Fs=VC_PICK(&r,vk_rates), ch=1+vc_below(&r,2), app=VC_PICK(&r,vk_apps); OpusEncoder *e[5]; OpusDecoder *d[5]; int dFs=VC_PICK(&r,vk_rates), dch=1+vc_below(&r,2);
  for(int a=0;a<5;a++){ opus_verif_arch_cap=a; e[a]=opus_encoder_create(Fs,ch,app,&err); d[a]=opus_decoder_create(dFs,dch,&err); } opus_verif_arch_cap=1000;
  vk_encset set[5]; for(int a=0;a<5;a++) vk_encset_default(&set[a],app); vc_siggen g; vs_init(&g,vc_below(&r,VS_NFINITE),Fs,ch,(float)(0.05+0.9*vc_unit(&r)),vc_next(&r)); static float in[5760*2]; static float out[5][5760*2]; static unsigned char pk[5][1500]; int fidx=vc_below(&r,9);
  for(int k=0;k<20;k++){ if(vc_chance(&r,1,3)){ vc_rng rs=r; for(int a=0;a<5;a++){ vc_rng rc=rs; vk_enc_random_ctl(e[a],&set[a],&rc,ch,NULL,0); if(a==4) r=rc; } } if(vc_chance(&r,1,5)) fidx=vc_below(&r,9); int fs=vk_frame_samples(Fs,fidx); vs_fill(&g,in,fs);
    int len[5]; opus_uint32 er[5]; for(int a=0;a<5;a++){ len[a]=opus_encode_float(e[a],in,fs,pk[a],1500); er[a]=0; opus_encoder_ctl(e[a],OPUS_GET_FINAL_RANGE(&er[a])); } vc_count("codec_level_frames",1);
#ifdef FIXED_POINT
    for(int a=1;a<5;a++) if(len[a]!=len[0]||(len[0]>0&&memcmp(pk[a],pk[0],len[0]))||er[a]!=er[0]){ vc_viol("codec:fixed-packets-differ","fixed-point build: packet %d at RTCD level %d differs from level 0 (len %d vs %d)",k,a,len[a],len[0]); goto out; }
    if(len[0]>0){ int lost=vc_chance(&r,1,8); int rc[5]; for(int a=0;a<5;a++) rc[a]=opus_decode_float(d[a],lost?NULL:pk[0],lost?0:len[0],out[a],lost?dFs/50:5760,0); for(int a=1;a<5;a++) if(rc[a]!=rc[0]||(rc[0]>0&&memcmp(out[a],out[0],sizeof(float)*rc[0]*dch))){ vc_viol("codec:fixed-pcm-differs","fixed-point build: decoder at RTCD level %d differs from level 0 on packet %d (ret %d/%d, lost %d)",a,k,rc[a],rc[0],lost); goto out; } }
#else
    /* float build: the streams of different levels may legitimately differ; every decoder level must follow every encoder level */
    { int a=vc_below(&r,5); if(len[a]>0) for(int b=0;b<5;b++){ int rc=opus_decode_float(d[b],pk[a],len[a],out[b],5760,0); opus_uint32 dr=0; opus_decoder_ctl(d[b],OPUS_GET_FINAL_RANGE(&dr)); if(rc<=0||dr!=er[a]){ vc_viol("codec:float-range-differs","float build: decoder at RTCD level %d gives final range %08x (ret %d) for a packet encoded at level %d with range %08x",b,dr,rc,a,er[a]); goto out; } vc_count("codec_cross_level_decodes",1); } }
#endif
    vc_sig3((uint64_t)(len[0]>0?pk[0][0]:0),(uint64_t)(Fs/4000)|((uint64_t)ch<<4),(uint64_t)fidx); }
out:
  for(int a=0;a<5;a++){ opus_encoder_destroy(e[a]); opus_decoder_destroy(d[a]); }
}

int main(int argc,char **argv){
  static const vc_mode_t modes[]={{"live",mode_live},{"direct",mode_direct},{"codec",mode_codec},{0,0}};
  return vc_main(argc,argv,"C15",modes);
}
