/* rfc_framing.h -- independent executable model of RFC 6716 section 3 (R1-R7) and Appendix B
 * (self-delimited framing).  Written from the RFC text, declaratively: header -> list of frame
 * lengths -> rule checks.  It is part of the trusted base of C01 C02 C05 C06 C07 C10 C16.
 * (DESIGN.md Appendix A.)  It never looks at /repo code. */
#ifndef RFC_FRAMING_H
#define RFC_FRAMING_H
#include <stddef.h>

typedef struct {
  int valid;
  unsigned char toc;
  int count;
  int sizes[48];
  int offsets[48];
  int payload_offset;   /* offset of the first frame */
  int pad;              /* total number of padding bytes excluding the pad-length bytes */
  int padding_off;      /* offset just after the last frame (where padding data starts) */
  int consumed;         /* bytes consumed by this packet (== len in standard framing) */
  int cbr;
} rfc_pkt;

static int rfc_dur48(unsigned char toc){ int c=toc>>3; if(c<12){ static const int d[4]={480,960,1920,2880}; return d[c&3]; } if(c<16) return (c&1)?960:480; { static const int d[4]={120,240,480,960}; return d[c&3]; } }
/* samples per frame at rate Fs */
static int rfc_spf(unsigned char toc,int Fs){ return (int)((long long)rfc_dur48(toc)*Fs/48000); }
/* bandwidth per RFC table 2: 0 NB,1 MB,2 WB,3 SWB,4 FB */
static int rfc_bandwidth(unsigned char toc){ int c=toc>>3; if(c<12) return c>>2; if(c<16) return (c<14)?3:4; { int b=(c-16)>>2; return b==0?0:b+1; } }
/* mode: 0 SILK, 1 hybrid, 2 CELT */
static int rfc_mode(unsigned char toc){ int c=toc>>3; return c<12?0:(c<16?1:2); }
static int rfc_channels(unsigned char toc){ return (toc&4)?2:1; }

static int rfc_len(const unsigned char *b,int pos,int end,int *L){ if(pos>=end) return 0; int x=b[pos]; if(x<252){ *L=x; return 1; } if(pos+1>=end) return 0; *L=4*b[pos+1]+x; return 2; }

static void rfc_parse(const unsigned char *b,int N,int self_delimited,rfc_pkt *o){
  int pos=1,M,vbr=0,pad=0,code,i,k,L; o->valid=0; o->count=0; o->pad=0;
  if(N<1) return;                                   /* R1 */
  o->toc=b[0]; code=b[0]&3;
  if(code==0){ M=1; } else if(code==1){ M=2; } else if(code==2){ M=2; vbr=1; }
  else { int fc,P; if(N<2) return; fc=b[1]; pos=2; M=fc&63; vbr=(fc&128)!=0; P=(fc&64)!=0;
    if(M==0) return;                                /* R5 */
    if(M*rfc_dur48(b[0])>5760) return;              /* R5: at most 120 ms */
    if(P){ int p; do { if(pos>=N) return; p=b[pos++]; pad+=(p==255)?254:p; } while(p==255); } }
  { int end=N-pad; int sum=0; if(end<pos) return;
    if(vbr) for(i=0;i<M-1;i++){ k=rfc_len(b,pos,end,&L); if(!k) return; o->sizes[i]=L; sum+=L; pos+=k; }
    if(self_delimited){ k=rfc_len(b,pos,end,&L); if(!k) return; pos+=k;
      if(vbr){ o->sizes[M-1]=L; sum+=L; } else { for(i=0;i<M;i++) o->sizes[i]=L; sum=L*M; }
      if(pos+sum>end) return; o->consumed=pos+sum+pad; }
    else { int rem=end-pos; if(vbr){ if(sum>rem) return; o->sizes[M-1]=rem-sum; } else { if(rem%M) return; for(i=0;i<M;i++) o->sizes[i]=rem/M; } o->consumed=N; } }
  for(i=0;i<M;i++) if(o->sizes[i]>1275) return;     /* R2 */
  { int off=pos; for(i=0;i<M;i++){ o->offsets[i]=off; off+=o->sizes[i]; } o->padding_off=off; }
  o->payload_offset=pos; o->count=M; o->pad=pad; o->cbr=!vbr; o->valid=1;
}
#endif
