#!/usr/bin/env python3
"""Print the prompt given to an independent sub-agent asked to break one property (no /verif knowledge)."""
import json, sys
pid = sys.argv[1]
wt = sys.argv[2]
# optional: names for the two mutations (default A B) and a note about earlier rounds (places to avoid)
names = (sys.argv[3], sys.argv[4]) if len(sys.argv) > 4 else ('A', 'B')
avoid = sys.argv[5] if len(sys.argv) > 5 else ''
p = [json.loads(l) for l in open('/verif/properties.jsonl') if json.loads(l)['id'] == pid][0]
print(f"""You are helping to evaluate how well a codebase's guarantees are protected against regressions. The codebase is libopus (xiph/opus, the reference C implementation of the Opus audio codec). Work ONLY inside the git worktree at {wt} (a full checkout of the repository). Do NOT read, list or modify anything under /verif or /repo, and do not look for other verification material on this machine: your work must be independent.

PROPERTY that users of libopus rely on ("{p['title']}"):
{p['statement']}
Scope of the property: {p['quantifier']['text']}

YOUR TASK: produce TWO different, realistic source changes to libopus (files under celt/, silk/, src/ or include/), called mutation {names[0]} and mutation {names[1]}, each of which BREAKS this property, while
 (a) still compiling with the standard CMake build,
 (b) still passing the ENTIRE existing test suite (all 5 test programs), and
 (c) needing something specific in order to manifest: a particular input class, a multi-step sequence of calls, an unusual configuration, a boundary value, a particular interleaving, a fault at a particular point, or two cooperating sites that each look fine alone. NOT something that ordinary use (encode a normal signal, decode it) would expose at once, and not something that crashes everything.
Each should look like a plausible bug a maintainer could introduce by accident (off-by-one, missed edge case, wrong constant, dropped or weakened check, stale state, wrong order of two operations, an "optimisation" shortcut), in different parts of the code and breaking different clauses of the property if possible. Keep each patch small (a few lines).

HOW TO BUILD AND TEST (offline; no network):
  cd {wt}
  cmake -G Ninja -B _build -DCMAKE_BUILD_TYPE=RelWithDebInfo -DCMAKE_C_FLAGS=-Wno-error -DOPUS_BUILD_TESTING=ON && cmake --build _build
  ctest --test-dir _build -j8 --timeout 900        # ~12-15 minutes, dominated by test_opus_encode; all tests must pass
Internal headers are available with -I{wt}/include -I{wt}/celt -I{wt}/silk -I{wt}/src -I{wt} -I{wt}/_build -DHAVE_CONFIG_H, library at _build/libopus.a (link with -lm).

{avoid}

DELIVERABLES, under {wt}/mutation/{names[0]}/ and {wt}/mutation/{names[1]}/ :
  patch.diff     `git diff` of the library change only (must apply with `git apply` at the repository root of a clean checkout)
  demo.c         a small C program that demonstrates the breakage: exit status 0 on the UNMODIFIED tree, non-zero on the modified tree (print what it observed)
  build_demo.sh  builds demo.c against {wt}/_build/libopus.a  (usage: ./build_demo.sh ; produces ./demo next to it)
  NOTES.md       which clause of the property breaks, why the test suite does not notice, and exactly what is needed for it to manifest; paste the ctest summary line you observed with the patch applied
You MUST actually verify, for each mutation: (1) ctest passes 100% with the patch applied; (2) demo exits non-zero with the patch and 0 without. If a candidate fails (1), pick another. Run the two test-suite runs one after the other, not concurrently.
When done, leave the worktree with NO patch applied to tracked files (`git -C {wt} diff --stat` empty); only the untracked mutation/ directory and _build/ remain. Finish with a short report: for {names[0]} and {names[1]}, the file/function changed, what breaks, what is needed to trigger it.""")
