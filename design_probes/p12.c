#include <stdio.h>
#include <stdlib.h>
#include <string.h>
#include <math.h>
#include "opus.h"
#include "opus_multistream.h"
#include "opus_private.h"
static unsigned long long rs=1; static unsigned rnd(void){ rs=rs*6364136223846793005ULL+1442695040888963407ULL; return (unsigned)(rs>>33); }
int main(int argc,char**argv){ int N=atoi(argv[1]); rs=atoi(argv[2]); int err; long cmp=0,bad=0, hostile_ok=0, hostile=0;
 for(int it=0;it<N;it++){
  int Fs=(int[]){8000,12000,16000,24000,48000}[rnd()%5]; int ch=1+rnd()%8; int fam=(ch<=2&&rnd()%2)?0:((rnd()%3==0)?255:1);
  int streams,coupled; unsigned char mapping[255];
  OpusMSEncoder*e=opus_multistream_surround_encoder_create(Fs,ch,fam,&streams,&coupled,mapping,OPUS_APPLICATION_AUDIO,&err); if(!e){printf("create fail %d ch=%d fam=%d\n",err,ch,fam);continue;}
  /* decoder with possibly altered mapping: mute or duplicate some */
  unsigned char dmap[255]; memcpy(dmap,mapping,ch); int dch=ch; if(rnd()%2){ for(int c=0;c<dch;c++){ if(rnd()%5==0) dmap[c]=255; else if(rnd()%5==0) dmap[c]=rnd()%(streams+coupled); } }
  OpusMSDecoder*df=opus_multistream_decoder_create(Fs,dch,streams,coupled,dmap,&err); OpusMSDecoder*di=opus_multistream_decoder_create(Fs,dch,streams,coupled,dmap,&err);
  OpusDecoder* sf[16]; OpusDecoder* si[16]; for(int s=0;s<streams;s++){ sf[s]=opus_decoder_create(Fs,s<coupled?2:1,&err); si[s]=opus_decoder_create(Fs,s<coupled?2:1,&err);} 
  opus_multistream_encoder_ctl(e,OPUS_SET_BITRATE(20000*ch+rnd()%(60000*ch)));
  int fs=(int[]){Fs/400,Fs/200,Fs/100,Fs/50,Fs/25,3*Fs/50}[rnd()%6];
  static float in[2880*8]; static float of[5760*8], sfo[5760*2]; static short oi[5760*8], sio[5760*2]; unsigned char pkt[8000];
  for(int k=0;k<15;k++){
    float amp=(k%5==4)?2.5f:0.6f; for(int i=0;i<fs;i++) for(int c=0;c<ch;c++) in[i*ch+c]=amp*sinf((k*fs+i)*0.01f*(c+2))+0.05f*((rnd()%2001)/1000.f-1);
    int len=opus_multistream_encode_float(e,in,fs,pkt,8000); if(len<0){printf("enc fail %d\n",len);break;}
    int lost=(rnd()%6==0); int fec=0;
    int r1=opus_multistream_decode_float(df,lost?NULL:pkt,lost?0:len,of,fs,fec); int r2=opus_multistream_decode(di,lost?NULL:pkt,lost?0:len,oi,fs,fec);
    /* split */
    const unsigned char*p=pkt; int left=len; 
    for(int s=0;s<streams;s++){ unsigned char toc; short sz[48]; int po; opus_int32 pko=0; int sd=(s!=streams-1);
      int nn; int a,b;
      if(lost){ a=opus_decode_float(sf[s],NULL,0,sfo,fs,0); b=opus_decode(si[s],NULL,0,sio,fs,0);} else {
       nn=opus_packet_parse_impl(p,left,sd,&toc,NULL,sz,&po,&pko,NULL,NULL); if(nn<0){printf("split fail\n");break;}
       /* rebuild standard packet for standalone: use repacketizer-free approach: decode_native with self_delimited */
       a=opus_decode_native(sf[s],p,left,sfo,fs,0,sd,&pko,0,NULL,0); 
       { static float tmp[5760*2]; opus_int32 pk2; b=opus_decode_native(si[s],p,left,tmp,fs,0,sd,&pk2,1,NULL,0); for(int i=0;i<b*(s<coupled?2:1);i++){ float x=tmp[i]*32768.f; x = x>32767?32767:(x<-32768?-32768:x); sio[i]=(short)lrintf(x);} }
       p+=pko; left-=pko; }
      if(a!=r1||b!=r2){ bad++; printf("count mismatch a=%d b=%d r1=%d r2=%d\n",a,b,r1,r2); break; }
      int sc=s<coupled?2:1;
      for(int c=0;c<dch;c++){ int side=-1; if(s<coupled){ if(dmap[c]==2*s) side=0; else if(dmap[c]==2*s+1) side=1;} else if(dmap[c]==s+coupled) side=0; if(side<0) continue;
        for(int i=0;i<r1;i++){ cmp++; if(of[i*dch+c]!=sfo[i*sc+side]){bad++; if(bad<5)printf("float mismatch s=%d c=%d i=%d\n",s,c,i); break;} if(oi[i*dch+c]!=sio[i*sc+side]){bad++; if(bad<5)printf("int mismatch s=%d c=%d i=%d %d %d\n",s,c,i,oi[i*dch+c],sio[i*sc+side]); break;} } }
    }
    for(int c=0;c<dch;c++) if(dmap[c]==255) for(int i=0;i<r1;i++) if(of[i*dch+c]!=0||oi[i*dch+c]!=0){bad++; break;}
  }
  /* hostile */
  for(int k=0;k<20;k++){ int len=rnd()%300; for(int i=0;i<len;i++) pkt[i]=rnd(); int r=opus_multistream_decode_float(df,pkt,len,of,5760,rnd()%2); hostile++; if(r>0) hostile_ok++; if(r==OPUS_INTERNAL_ERROR) {bad++; printf("INTERNAL\n");} }
  opus_multistream_encoder_destroy(e); opus_multistream_decoder_destroy(df); opus_multistream_decoder_destroy(di); for(int s=0;s<streams;s++){opus_decoder_destroy(sf[s]);opus_decoder_destroy(si[s]);}
 }
 printf("cmp=%ld bad=%ld hostile=%ld ok=%ld\n",cmp,bad,hostile,hostile_ok); return 0; }
