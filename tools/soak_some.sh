#!/bin/sh
# soak_some.sh <tier> "<checks>" <seeds...> : like soak_tier.sh for the named checks only (scratch evidence); logs ./soak_some.log, ./soak_some_fail.log
tier=$1; checks=$2; shift 2
python3 verif.py setup > /dev/null 2>&1
for sd in "$@"; do
  for c in $checks; do
    out=$(VERIF_SEED=$sd VERIF_NO_EVIDENCE=1 python3 verif.py check $c --tier $tier 2>&1 | grep -v "^WARNING" | grep -v "^KNOWN-FINDING" | tail -30 | cut -c1-700)
    echo "seed=$sd $c :: $(echo "$out" | tail -1)" >> soak_some.log
    echo "$out" | grep -q "held on what was observed" || { echo "---- seed=$sd $c" >> soak_some_fail.log; echo "$out" >> soak_some_fail.log; }
  done
done
echo "soak done $tier $checks $@" >> soak_some.log
