/* C14 -- independent codec instances do not interfere when used concurrently.
 * One case = one forked child process (so first-use paths -- CPU detection, static tables -- race in every case): T threads are
 * released together by a barrier with no prior libopus call in the process, each creating, driving and destroying its own objects
 * (encoder / hostile-input decoder / encoder+decoder pair / surround multistream pair / repacketizer / projection pair / original and
 * memcpy clone of an encoder driven by two threads) with
 * yields and sleeps injected at API boundaries and random CPU pinning.  Oracles: (1) ThreadSanitizer (tsan flavour) must report
 * nothing; (2) every thread's output digest must equal the digest of the same workload run serially afterwards.
 * Monitor state is thread-private; the only shared word is a relaxed atomic sequence counter (no happens-before edges) used to
 * record which interleaving was observed.
 */
#define _GNU_SOURCE
#include "vpacket.h"
#include <pthread.h>
#include <sched.h>
#include <sys/wait.h>
#include <errno.h>

#define MAXT 32
#define MAXEV 400
typedef struct { int idx, role, pair; uint64_t seed; int jitter; uint64_t digest; long ops; int failed; char fail[160]; unsigned ev[MAXEV]; int nev; } tctx;
static unsigned seqctr;   /* relaxed atomic */
static pthread_barrier_t bar;

static inline void mark(tctx *t){ if(t->nev<MAXEV) t->ev[t->nev++]=__atomic_fetch_add(&seqctr,1,__ATOMIC_RELAXED); }
static inline void jitter(tctx *t,vc_rng *r){ int k=vc_below(r,16); int us=vc_below(r,200); /* the draws are made in the serial re-run too, so both runs see the same workload */ if(!t->jitter) return; if(k==0) sched_yield(); else if(k==1) usleep(us); else if(k==2){ for(volatile int i=0;i<2000;i++); } }
static inline void dg(tctx *t,const void *p,size_t n){ t->digest=vc_hash64(t->digest,vc_hash_bytes(p,n)); }
static inline void dgi(tctx *t,long v){ t->digest=vc_hash64(t->digest,(uint64_t)v); }
#define FAIL(t,...) do{ if(!(t)->failed){ (t)->failed=1; snprintf((t)->fail,sizeof (t)->fail,__VA_ARGS__); } }while(0)

static void work_encoder(tctx *t,vc_rng *r){ int err; int Fs=VC_PICK(r,vk_rates), ch=1+vc_below(r,2), app=VC_PICK(r,vk_apps); mark(t); OpusEncoder *e=opus_encoder_create(Fs,ch,app,&err); if(!e){ FAIL(t,"encoder_create %d",err); return; }
  vk_encset set; vk_encset_default(&set,app); vc_siggen g; vs_init(&g,vc_below(r,VS_NFINITE),Fs,ch,0.5f,vc_next(r)); float *in=(float*)malloc(sizeof(float)*5760*2); unsigned char *pk=(unsigned char*)malloc(1500); int n=vc_range(r,6,24); int fidx=vc_below(r,9);
  if(vc_chance(r,1,3)){ opus_encoder_ctl(e,OPUS_SET_VBR(0)); opus_encoder_ctl(e,VK_SET_FORCE_MODE_REQUEST,VK_MODE_SILK); opus_encoder_ctl(e,OPUS_SET_BITRATE(vc_range(r,20000,90000))); }   /* CBR SILK: packets are padded internally */
  for(int k=0;k<n;k++){ if(vc_chance(r,1,3)) vk_enc_random_ctl(e,&set,r,ch,NULL,0); if(vc_chance(r,1,5)) fidx=vc_below(r,9); int fs=vk_frame_samples(Fs,fidx); vs_fill(&g,in,fs); jitter(t,r); mark(t); int len=opus_encode_float(e,in,fs,pk,1500); dgi(t,len); if(len>0) dg(t,pk,len); opus_uint32 fr=0; opus_encoder_ctl(e,OPUS_GET_FINAL_RANGE(&fr)); dgi(t,fr); t->ops++; }
  mark(t); opus_encoder_destroy(e); free(in); free(pk); }
static void work_hostile_decoder(tctx *t,vc_rng *r){ int err; int Fs=VC_PICK(r,vk_rates), ch=1+vc_below(r,2); mark(t); OpusDecoder *d=opus_decoder_create(Fs,ch,&err); if(!d){ FAIL(t,"decoder_create %d",err); return; } float *out=(float*)malloc(sizeof(float)*5760*2); unsigned char *hb=(unsigned char*)malloc(4200); int n=vc_range(r,10,40);
  for(int k=0;k<n;k++){ memset(hb,0,1600); /* vk_hostile may extend the length past the bytes it wrote */ int len=vk_hostile(r,hb,1500,0); jitter(t,r); mark(t); int rc= vc_chance(r,1,8)?opus_decode_float(d,NULL,0,out,Fs/50,0):opus_decode_float(d,hb,len,out,5760,0); dgi(t,rc); if(rc>0) dg(t,out,sizeof(float)*rc*ch); if(vc_chance(r,1,10)) opus_decoder_ctl(d,OPUS_RESET_STATE); t->ops++; }
  mark(t); opus_decoder_destroy(d); free(out); free(hb); }
static void work_pair(tctx *t,vc_rng *r){ int err; int Fs=VC_PICK(r,vk_rates), ch=1+vc_below(r,2); mark(t); OpusEncoder *e=opus_encoder_create(Fs,ch,VC_PICK(r,vk_apps),&err); OpusDecoder *d=opus_decoder_create(VC_PICK(r,vk_rates),1+vc_below(r,2),&err); if(!e||!d){ FAIL(t,"pair create"); return; }
  opus_encoder_ctl(e,OPUS_SET_BITRATE(vc_range(r,8000,96000)*ch)); opus_encoder_ctl(e,OPUS_SET_COMPLEXITY(vc_below(r,11))); if(vc_chance(r,1,2)) opus_encoder_ctl(e,VK_SET_FORCE_MODE_REQUEST,VK_MODE_SILK+(int)vc_below(r,3)); if(vc_chance(r,1,3)){ opus_encoder_ctl(e,OPUS_SET_INBAND_FEC(1)); opus_encoder_ctl(e,OPUS_SET_PACKET_LOSS_PERC(20)); }
  vc_siggen g; vs_init(&g,vc_below(r,VS_NFINITE),Fs,ch,0.5f,vc_next(r)); float *in=(float*)malloc(sizeof(float)*5760*2), *out=(float*)malloc(sizeof(float)*5760*2); opus_int16 *o16=(opus_int16*)malloc(2*5760*2); unsigned char *pk=(unsigned char*)malloc(1500); int n=vc_range(r,6,20); int fidx=vc_range(r,0,6); opus_int32 dch=0;
  for(int k=0;k<n;k++){ int fs=vk_frame_samples(Fs,fidx); vs_fill(&g,in,fs); jitter(t,r); mark(t); int len=opus_encode_float(e,in,fs,pk,1500); if(len<=0){ FAIL(t,"encode %d",len); break; } dg(t,pk,len); jitter(t,r); mark(t); int lost=vc_chance(r,1,8); int rc; if(vc_chance(r,1,2)){ rc=opus_decode_float(d,lost?NULL:pk,lost?0:len,out,5760,0); if(rc>0){ opus_int32 x=0; (void)x; dg(t,out,sizeof(float)*rc); } } else { rc=opus_decode(d,lost?NULL:pk,lost?0:len,o16,lost?960:5760,0); if(rc>0) dg(t,o16,2*rc); } dgi(t,rc); (void)dch; t->ops++; }
  mark(t); opus_encoder_destroy(e); opus_decoder_destroy(d); free(in); free(out); free(o16); free(pk); }
static void work_ms(tctx *t,vc_rng *r){ int err; int Fs=VC_PICK(r,vk_rates); int fam=vc_chance(r,1,2)?1:255; int ch=fam==1?vc_range(r,1,8):vc_range(r,1,4); int S,C; unsigned char map[255]; mark(t); OpusMSEncoder *me=opus_multistream_surround_encoder_create(Fs,ch,fam,&S,&C,map,OPUS_APPLICATION_AUDIO,&err); if(!me){ FAIL(t,"ms create %d",err); return; } OpusMSDecoder *md=opus_multistream_decoder_create(Fs,ch,S,C,map,&err);
  opus_multistream_encoder_ctl(me,OPUS_SET_BITRATE(vc_range(r,16000,64000)*ch)); vc_siggen g; vs_init(&g,vc_below(r,VS_NFINITE),Fs,ch,0.5f,vc_next(r)); float *in=(float*)malloc(sizeof(float)*1920*ch), *out=(float*)malloc(sizeof(float)*1920*ch); unsigned char *pk=(unsigned char*)malloc(8000); int fs=vk_frame_samples(Fs,vc_range(r,1,4)); int n=vc_range(r,4,10);
  for(int k=0;k<n;k++){ vs_fill(&g,in,fs); jitter(t,r); mark(t); int len=opus_multistream_encode_float(me,in,fs,pk,8000); if(len<=0){ FAIL(t,"ms encode %d",len); break; } dg(t,pk,len); jitter(t,r); mark(t); int rc=opus_multistream_decode_float(md,pk,len,out,fs,0); dgi(t,rc); if(rc>0) dg(t,out,sizeof(float)*rc*ch); t->ops++; }
  mark(t); opus_multistream_encoder_destroy(me); opus_multistream_decoder_destroy(md); free(in); free(out); free(pk); }
static void work_repack(tctx *t,vc_rng *r){ mark(t); OpusRepacketizer *rp=opus_repacketizer_create(); if(!rp){ FAIL(t,"rp create"); return; } unsigned char *out=(unsigned char*)malloc(1277*48+70000); int n=vc_range(r,5,20);
  for(int k=0;k<n;k++){ int config6=vc_below(r,64); int maxfr=5760/rfc_dur48((unsigned char)(config6<<2)); opus_repacketizer_init(rp); unsigned char *bufs[6]; int nb=0; int frames=0;
    for(int q=0;q<vc_range(r,1,5)&&nb<6;q++){ int M=vc_range(r,1,3); if(frames+M>maxfr||frames+M>48) break; unsigned char *b=(unsigned char*)malloc(3*300+8); int pos=0; b[pos++]=(unsigned char)((config6<<2)|(M==1?0:3)); if(M>1) b[pos++]=(unsigned char)(M|0x80); int sz[3]; for(int i=0;i<M;i++) sz[i]=vc_below(r,250); if(M>1) for(int i=0;i<M-1;i++) b[pos++]=(unsigned char)sz[i]; for(int i=0;i<M;i++) for(int j=0;j<sz[i];j++) b[pos++]=(unsigned char)vc_u32(r); jitter(t,r); mark(t); int rc=opus_repacketizer_cat(rp,b,pos); dgi(t,rc); bufs[nb++]=b; if(rc==OPUS_OK) frames+=M; }
    jitter(t,r); mark(t); int len=opus_repacketizer_out(rp,out,1277*48+70000); dgi(t,len); if(len>0){ dg(t,out,len); mark(t); int rc=opus_packet_pad(out,len,len+vc_range(r,1,300)); dgi(t,rc); } for(int i=0;i<nb;i++) free(bufs[i]); t->ops++; }
  mark(t); opus_repacketizer_destroy(rp); free(out); }
static void work_projection(tctx *t,vc_rng *r){ int err; int Fs=VC_PICK(r,vk_rates); int ch=vc_chance(r,1,2)?4:9; int S,C; mark(t); OpusProjectionEncoder *pe=opus_projection_ambisonics_encoder_create(Fs,ch,3,&S,&C,OPUS_APPLICATION_AUDIO,&err); if(!pe){ FAIL(t,"projection create %d",err); return; }
  opus_int32 msz=0; opus_projection_encoder_ctl(pe,OPUS_PROJECTION_GET_DEMIXING_MATRIX_SIZE(&msz)); unsigned char *mt=(unsigned char*)malloc(msz); opus_projection_encoder_ctl(pe,OPUS_PROJECTION_GET_DEMIXING_MATRIX(mt,msz)); OpusProjectionDecoder *pd=opus_projection_decoder_create(Fs,ch,S,C,mt,msz,&err);
  vc_siggen g; vs_init(&g,vc_below(r,VS_NFINITE),Fs,ch,0.4f,vc_next(r)); int fs=vk_frame_samples(Fs,3); float *in=(float*)malloc(sizeof(float)*fs*ch), *out=(float*)malloc(sizeof(float)*fs*ch); unsigned char *pk=(unsigned char*)malloc(12000);
  for(int k=0;k<5;k++){ vs_fill(&g,in,fs); jitter(t,r); mark(t); int len=opus_projection_encode_float(pe,in,fs,pk,12000); if(len<=0){ FAIL(t,"projection encode %d",len); break; } dg(t,pk,len); mark(t); int rc=opus_projection_decode_float(pd,pk,len,out,fs,0); dgi(t,rc); if(rc>0) dg(t,out,sizeof(float)*rc*ch); t->ops++; }
  mark(t); opus_projection_encoder_destroy(pe); opus_projection_decoder_destroy(pd); free(mt); free(in); free(out); free(pk); }

/* roles 6/7: a state copied with memcpy is an independent object.  Thread A creates an encoder (single-stream or surround), codes two frames, clones it with memcpy(get_size) and hands the
   clone to thread B (mutex + condition variable: a proper happens-before edge); from then on A drives the original and B the clone, each with its own input, concurrently. */
static struct { pthread_mutex_t m; pthread_cond_t c; int ready; void *clone; int kind,Fs,ch,S,C; } mbox[MAXT];
static void mbox_put(int p,void *clone,int kind,int Fs,int ch){ pthread_mutex_lock(&mbox[p].m); mbox[p].clone=clone; mbox[p].kind=kind; mbox[p].Fs=Fs; mbox[p].ch=ch; mbox[p].ready=1; pthread_cond_broadcast(&mbox[p].c); pthread_mutex_unlock(&mbox[p].m); }
static int clone_encode(tctx *t,vc_rng *r,void *obj,int kind,int Fs,int ch,vc_siggen *g,float *in,unsigned char *pk,int fs){ vs_fill(g,in,fs); jitter(t,r); mark(t); int len= kind?opus_multistream_encode_float((OpusMSEncoder*)obj,in,fs,pk,8000):opus_encode_float((OpusEncoder*)obj,in,fs,pk,8000); dgi(t,len); if(len>0) dg(t,pk,len); t->ops++; return len; }
static void work_clone_producer(tctx *t,vc_rng *r){ int err; int kind=vc_below(r,2); int Fs=VC_PICK(r,vk_rates); int ch= kind?vc_range(r,3,8):1+(int)vc_below(r,2); int S,C; unsigned char map[255]; void *obj; int sz; mark(t);
  if(kind){ obj=opus_multistream_surround_encoder_create(Fs,ch,1,&S,&C,map,OPUS_APPLICATION_AUDIO,&err); sz=opus_multistream_surround_encoder_get_size(ch,1); } else { obj=opus_encoder_create(Fs,ch,VC_PICK(r,vk_apps),&err); sz=opus_encoder_get_size(ch); }
  if(!obj){ FAIL(t,"clone producer create %d",err); mbox_put(t->pair,NULL,kind,Fs,ch); return; }
  if(kind) opus_multistream_encoder_ctl((OpusMSEncoder*)obj,OPUS_SET_BITRATE(vc_range(r,24000,64000)*ch)); else opus_encoder_ctl((OpusEncoder*)obj,OPUS_SET_BITRATE(vc_range(r,12000,96000)*ch));
  vc_siggen g; vs_init(&g,vc_below(r,VS_NFINITE),Fs,ch,0.5f,vc_next(r)); float *in=(float*)malloc(sizeof(float)*1920*ch); unsigned char *pk=(unsigned char*)malloc(8000); int fs=vk_frame_samples(Fs,vc_range(r,1,3));
  for(int k=0;k<2;k++) clone_encode(t,r,obj,kind,Fs,ch,&g,in,pk,fs);
  void *clone=malloc(sz); memcpy(clone,obj,sz); mbox_put(t->pair,clone,kind,Fs,ch);
  int n=vc_range(r,6,14); for(int k=0;k<n;k++) if(clone_encode(t,r,obj,kind,Fs,ch,&g,in,pk,fs)<=0){ FAIL(t,"original encode"); break; }
  mark(t); if(kind) opus_multistream_encoder_destroy((OpusMSEncoder*)obj); else opus_encoder_destroy((OpusEncoder*)obj); free(in); free(pk); }
static void work_clone_consumer(tctx *t,vc_rng *r){ int p=t->pair; pthread_mutex_lock(&mbox[p].m); while(!mbox[p].ready) pthread_cond_wait(&mbox[p].c,&mbox[p].m); void *obj=mbox[p].clone; int kind=mbox[p].kind, Fs=mbox[p].Fs, ch=mbox[p].ch; pthread_mutex_unlock(&mbox[p].m); if(!obj) return;
  vc_siggen g; vs_init(&g,vc_below(r,VS_NFINITE),Fs,ch,0.5f,vc_next(r)); float *in=(float*)malloc(sizeof(float)*1920*ch); unsigned char *pk=(unsigned char*)malloc(8000); int fs=vk_frame_samples(Fs,vc_range(r,1,3));
  int n=vc_range(r,6,14); for(int k=0;k<n;k++) if(clone_encode(t,r,obj,kind,Fs,ch,&g,in,pk,fs)<=0){ FAIL(t,"clone encode"); break; }
  mark(t); free(obj); free(in); free(pk); }

static void run_work(tctx *t){ vc_rng r; vc_rng_seed(&r,t->seed); t->digest=0x1234; t->ops=0; t->nev=0; t->failed=0;
  switch(t->role){ case 0: work_encoder(t,&r); break; case 1: work_hostile_decoder(t,&r); break; case 2: work_pair(t,&r); break; case 3: work_ms(t,&r); break; case 4: work_repack(t,&r); break; case 6: work_clone_producer(t,&r); break; case 7: work_clone_consumer(t,&r); break; default: work_projection(t,&r); break; } }
static void *thread_main(void *arg){ tctx *t=(tctx*)arg; if(t->jitter&&(t->seed&3)==0){ cpu_set_t cs; CPU_ZERO(&cs); CPU_SET((int)((t->seed>>8)%16),&cs); pthread_setaffinity_np(pthread_self(),sizeof cs,&cs); }
  pthread_barrier_wait(&bar); run_work(t); return NULL; }

/* child: returns exit status 0 ok / 5 digest mismatch / 6 worker failure; TSan adds 66 on its own */
static int child(uint64_t caseseed,int pipefd){ vc_rng r; vc_rng_seed(&r,caseseed); int T=vc_chance(&r,1,4)?vc_range(&r,17,MAXT):vc_range(&r,2,16); static tctx tc[MAXT], sc[MAXT]; pthread_t th[MAXT]; int homog=vc_chance(&r,1,3); int hrole=vc_below(&r,6);
  for(int i=0;i<T;i++){ memset(&tc[i],0,sizeof tc[i]); tc[i].idx=i; tc[i].role=homog?hrole:(int)vc_below(&r,6); tc[i].seed=vc_next(&r); tc[i].jitter=1; }
  { int np=0; for(int i=0;i+1<T;i++) if(vc_chance(&r,1,5)){ tc[i].role=6; tc[i+1].role=7; tc[i].pair=tc[i+1].pair=np; pthread_mutex_init(&mbox[np].m,NULL); pthread_cond_init(&mbox[np].c,NULL); mbox[np].ready=0; np++; i++; } }
  pthread_barrier_init(&bar,NULL,T); for(int i=0;i<T;i++) pthread_create(&th[i],NULL,thread_main,&tc[i]); for(int i=0;i<T;i++) pthread_join(th[i],NULL);
  /* serial reference: same workloads, one after the other, no jitter */
  for(int i=0;i<MAXT;i++) mbox[i].ready=0;
  int bad=0; char msg[400]; msg[0]=0; long ops=0; for(int i=0;i<T;i++){ sc[i]=tc[i]; sc[i].jitter=0; run_work(&sc[i]); ops+=tc[i].ops; if(tc[i].failed&&!bad){ bad=6; snprintf(msg,sizeof msg,"thread %d role %d: %s",i,tc[i].role,tc[i].fail); } if(sc[i].digest!=tc[i].digest&&!bad){ bad=5; snprintf(msg,sizeof msg,"thread %d (role %d, %ld ops) produced digest %016llx concurrently, %016llx when run alone",i,tc[i].role,tc[i].ops,(unsigned long long)tc[i].digest,(unsigned long long)sc[i].digest); } }
  /* interleaving signature: thread order of the merged event sequence */
  uint64_t sig=7; { int pos[MAXT]; memset(pos,0,sizeof pos); for(;;){ int best=-1; for(int i=0;i<T;i++) if(pos[i]<tc[i].nev&&(best<0||tc[i].ev[pos[i]]<tc[best].ev[pos[best]])) best=i; if(best<0) break; sig=vc_hash64(sig,(uint64_t)best); pos[best]++; } }
  char line[600]; int roles=0; for(int i=0;i<T;i++) roles|=1<<tc[i].role; int n=snprintf(line,sizeof line,"R %d %ld %016llx %d %d %s\n",T,ops,(unsigned long long)sig,roles,bad,msg); if(write(pipefd,line,n)<0){} return bad; }

static void mode_threads(void){
  vc_rng r; vc_case_rng(&r,14); uint64_t cs=vc_next(&r); int pr[2]; FILE *ef=tmpfile();   /* the child's stderr goes to an unlinked temporary file: a pipe would fill up on many sanitizer reports and block the child */
  if(pipe(pr)||!ef){ fprintf(stderr,"pipe/tmpfile failed\n"); exit(3); } fflush(stdout);
  pid_t pid=fork(); if(pid<0){ fprintf(stderr,"fork failed\n"); exit(3); }
  if(pid==0){ close(pr[0]); dup2(fileno(ef),2); int rc=child(cs,pr[1]); _exit(rc); }
  close(pr[1]); char rbuf[700]; int rn=0; for(;;){ int k=(int)read(pr[0],rbuf+rn,sizeof rbuf-1-rn); if(k<=0) break; rn+=k; } rbuf[rn]=0; close(pr[0]);
  int st=0; waitpid(pid,&st,0); static char ebuf[60000]; int en=0; rewind(ef); en=(int)fread(ebuf,1,sizeof ebuf-1,ef); if(en<0) en=0; ebuf[en]=0; fclose(ef); int T=0,roles=0,bad=0; long ops=0; unsigned long long sig=0; char msg[400]; msg[0]=0; if(rn>0) sscanf(rbuf,"R %d %ld %llx %d %d %399[^\n]",&T,&ops,&sig,&roles,&bad,msg);
  vc_count("processes",1); vc_count("threads",T); vc_count("api_operations",ops); if(sig) vc_sig(sig); for(int q=0;q<8;q++) if(roles&(1<<q)) vc_named("role-%d-run-concurrently",q);
  int ex=WIFEXITED(st)?WEXITSTATUS(st):-WTERMSIG(st);
  if(strstr(ebuf,"ThreadSanitizer")){ /* name the report by its SUMMARY line(s) */ char key[160]="tsan:report"; char *s=strstr(ebuf,"SUMMARY: ThreadSanitizer: "); char sum[300]=""; if(s){ snprintf(sum,sizeof sum,"%.290s",s+26); char *nl=strchr(sum,'\n'); if(nl) *nl=0; char kind[60]="report", fn[80]=""; sscanf(sum,"%59[^(/] ",kind); char *in=strstr(sum," in "); if(in) sscanf(in+4,"%79s",fn); for(char *p=kind;*p;p++) if(*p==' ') *p='-'; while(kind[0]&&kind[strlen(kind)-1]=='-') kind[strlen(kind)-1]=0; snprintf(key,sizeof key,"tsan:%s@%s",kind,fn[0]?fn:"?"); }
    int nrep=0; for(char *p=ebuf;(p=strstr(p,"WARNING: ThreadSanitizer"));p++) nrep++; vc_viol(key,"%d ThreadSanitizer report(s) with %d threads; first: %s",nrep,T,sum); if(vc_verbose) fprintf(stderr,"%s\n",ebuf); }
  else if(ex==5) vc_viol("serial-equality","%s",msg);
  else if(ex==6) vc_viol("worker-failed","%s",msg);
  else if(ex!=0) vc_viol(ex<0?"child-signal":"child-exit","child ended with status %d (T=%d): %.300s",ex,T,ebuf);
  if(vc_want_sample()&&T) vc_sample("{\"mode\":\"threads\",\"threads\":%d,\"operations\":%ld,\"interleaving_signature\":\"%016llx\",\"roles_mask\":%d}",T,ops,sig,roles);
}

int main(int argc,char **argv){
  static const vc_mode_t modes[]={{"threads",mode_threads},{0,0}};
  return vc_main(argc,argv,"C14",modes);
}
