/* C11 -- settings are validated, read back, and honoured in the bitstream.
 * Modes:
 *   ctl     set/get model (table re-typed from opus_defines.h) over a value grid per request on encoder and decoder objects,
 *           interleaved with encode calls; illegal values / NULL / unknown requests must fail and leave the whole getter snapshot alone
 *   msctl   the same through multistream and projection objects, with per-stream fan-out
 *   create  create/init argument validation for every object kind; allocation faults (countdown on interposed malloc): NULL +
 *           OPUS_ALLOC_FAIL, no crash, no leak
 *   honour  history checker over packets: duration, forced channels (3-packet latency after a mid-stream change), bandwidth vs forced /
 *           maximum / Nyquist, MDCT-only for low-delay and < 10 ms frames
 */
#include "vcodec.h"
#include <limits.h>

/* ---------------------------------------------------------------- request table (from include/opus_defines.h) */
enum { R_APPLICATION, R_BITRATE, R_VBR, R_CVBR, R_COMPLEXITY, R_BANDWIDTH, R_MAXBW, R_FORCECH, R_FEC, R_LOSS, R_DTX, R_LSB, R_PRED, R_PHASEINV, R_EXPERT, R_SIGNAL, R_N };
static const struct { const char *name; int set,get; } rq[R_N]={
 {"APPLICATION",OPUS_SET_APPLICATION_REQUEST,OPUS_GET_APPLICATION_REQUEST},{"BITRATE",OPUS_SET_BITRATE_REQUEST,OPUS_GET_BITRATE_REQUEST},{"VBR",OPUS_SET_VBR_REQUEST,OPUS_GET_VBR_REQUEST},
 {"VBR_CONSTRAINT",OPUS_SET_VBR_CONSTRAINT_REQUEST,OPUS_GET_VBR_CONSTRAINT_REQUEST},{"COMPLEXITY",OPUS_SET_COMPLEXITY_REQUEST,OPUS_GET_COMPLEXITY_REQUEST},{"BANDWIDTH",OPUS_SET_BANDWIDTH_REQUEST,OPUS_GET_BANDWIDTH_REQUEST},
 {"MAX_BANDWIDTH",OPUS_SET_MAX_BANDWIDTH_REQUEST,OPUS_GET_MAX_BANDWIDTH_REQUEST},{"FORCE_CHANNELS",OPUS_SET_FORCE_CHANNELS_REQUEST,OPUS_GET_FORCE_CHANNELS_REQUEST},{"INBAND_FEC",OPUS_SET_INBAND_FEC_REQUEST,OPUS_GET_INBAND_FEC_REQUEST},
 {"PACKET_LOSS_PERC",OPUS_SET_PACKET_LOSS_PERC_REQUEST,OPUS_GET_PACKET_LOSS_PERC_REQUEST},{"DTX",OPUS_SET_DTX_REQUEST,OPUS_GET_DTX_REQUEST},{"LSB_DEPTH",OPUS_SET_LSB_DEPTH_REQUEST,OPUS_GET_LSB_DEPTH_REQUEST},
 {"PREDICTION_DISABLED",OPUS_SET_PREDICTION_DISABLED_REQUEST,OPUS_GET_PREDICTION_DISABLED_REQUEST},{"PHASE_INVERSION_DISABLED",OPUS_SET_PHASE_INVERSION_DISABLED_REQUEST,OPUS_GET_PHASE_INVERSION_DISABLED_REQUEST},
 {"EXPERT_FRAME_DURATION",OPUS_SET_EXPERT_FRAME_DURATION_REQUEST,OPUS_GET_EXPERT_FRAME_DURATION_REQUEST},{"SIGNAL",OPUS_SET_SIGNAL_REQUEST,OPUS_GET_SIGNAL_REQUEST} };
static int legal(int r,int v,int ch){ switch(r){
  case R_APPLICATION: return v==OPUS_APPLICATION_VOIP||v==OPUS_APPLICATION_AUDIO||v==OPUS_APPLICATION_RESTRICTED_LOWDELAY;
  case R_BITRATE: return v==OPUS_AUTO||v==OPUS_BITRATE_MAX||v>0;
  case R_VBR: case R_CVBR: case R_DTX: case R_PRED: case R_PHASEINV: return v==0||v==1;
  case R_COMPLEXITY: return v>=0&&v<=10;
  case R_BANDWIDTH: return v==OPUS_AUTO||(v>=OPUS_BANDWIDTH_NARROWBAND&&v<=OPUS_BANDWIDTH_FULLBAND);
  case R_MAXBW: return v>=OPUS_BANDWIDTH_NARROWBAND&&v<=OPUS_BANDWIDTH_FULLBAND;
  case R_FORCECH: return v==OPUS_AUTO||(v>=1&&v<=ch);
  case R_FEC: return v>=0&&v<=2;
  case R_LOSS: return v>=0&&v<=100;
  case R_LSB: return v>=8&&v<=24;
  case R_EXPERT: return v==OPUS_FRAMESIZE_ARG||(v>=OPUS_FRAMESIZE_2_5_MS&&v<=OPUS_FRAMESIZE_120_MS);
  case R_SIGNAL: return v==OPUS_AUTO||v==OPUS_SIGNAL_VOICE||v==OPUS_SIGNAL_MUSIC; } return 0; }
static int grid_value(vc_rng *r,int rr,int ch){ static const int common[]={INT_MIN,INT_MIN+1,-32769,-1001,OPUS_AUTO,-999,-2,-1,0,1,2,3,7,8,9,10,11,16,23,24,25,99,100,101,255,499,500,501,1000,2047,2048,2049,2050,2051,2052,3000,3001,3002,3003,4999,5000,5001,5005,5009,5010,6000,64000,299999,300000,300001,512000,599999,600000,600001,1000000,INT_MAX-1,INT_MAX};
  if(vc_chance(r,1,2)) return VC_PICK(r,common);
  switch(rr){ case R_APPLICATION: return 2047+(int)vc_below(r,6); case R_BITRATE: return vc_chance(r,1,2)?vc_range(r,-10,700):vc_range(r,250000,700000); case R_COMPLEXITY: return vc_range(r,-2,12); case R_BANDWIDTH: case R_MAXBW: return vc_chance(r,1,6)?OPUS_AUTO:vc_range(r,1099,1107); case R_FORCECH: return vc_range(r,-1,4); case R_FEC: return vc_range(r,-1,4); case R_LOSS: return vc_range(r,-2,103); case R_LSB: return vc_range(r,6,26); case R_EXPERT: return vc_range(r,4998,5011); case R_SIGNAL: return vc_chance(r,1,4)?OPUS_AUTO:vc_range(r,3000,3003); default: return vc_range(r,-2,3); } }
/* value the getter must report after a legal set; *alt = second acceptable value (AUTO/MAX bitrate depends on the last frame size) */
static const int fsizes_400[9]={1,2,4,8,16,24,32,40,48};
static int getter_ok(int r,int v,int got,int Fs,int ch){ if(r!=R_BITRATE) return got==v;
  if(v==OPUS_AUTO){ for(int i=0;i<9;i++) if(got==60*400/fsizes_400[i]+Fs*ch) return 1; return 0; }
  if(v==OPUS_BITRATE_MAX){ for(int i=0;i<9;i++) if(got==(int)(1276LL*8*400/fsizes_400[i])) return 1; return 0; }
  long long c=v; if(c<500) c=500; if(c>300000LL*ch) c=300000LL*ch; return got==(int)c; }

typedef struct { opus_int32 v[R_N]; opus_int32 fs, la; } esnap;
static void enc_snap(OpusEncoder *e,esnap *s){ for(int i=0;i<R_N;i++){ s->v[i]=-777777; opus_encoder_ctl(e,rq[i].get,&s->v[i]); } opus_encoder_ctl(e,OPUS_GET_SAMPLE_RATE(&s->fs)); opus_encoder_ctl(e,OPUS_GET_LOOKAHEAD(&s->la)); }
static int snap_diff(const esnap *a,const esnap *b){ for(int i=0;i<R_N;i++) if(a->v[i]!=b->v[i]) return i+1; if(a->fs!=b->fs||a->la!=b->la) return 100; return 0; }
static const int unknown_req[]={0,1,2,3,-1,-4000,7777,20000,99999,3999,4100,4101,123456789};

static void mode_ctl(void){
  vc_rng r; vc_case_rng(&r,11); int err; int Fs=VC_PICK(&r,vk_rates), ch=1+vc_below(&r,2), app=VC_PICK(&r,vk_apps); OpusEncoder *e=opus_encoder_create(Fs,ch,app,&err); if(!e){ vc_viol("create:legal-rejected","encoder %d/%d/%d: %d",Fs,ch,app,err); return; }
  vc_siggen g; vs_init(&g,vc_below(&r,VS_NFINITE),Fs,ch,0.5f,vc_next(&r)); static float in[5760*2]; unsigned char pk[1500]; int encoded=0; char last[80]=""; int bitrate_explicit=0;
  for(int step=0;step<120;step++){
    int k=vc_below(&r,20);
    esnap before,after; enc_snap(e,&before);
    if(k<2){ /* an encode call is not a control request: every setting's getter must still report what it reported before the call (the
         getter of an AUTO/MAX bitrate follows the frame size and OPUS_GET_BANDWIDTH reports the bandwidth in use: finding F13) */
      int fs=vk_frame_samples(Fs,vc_below(&r,9)); vs_fill(&g,in,fs); int el=opus_encode_float(e,in,fs,pk,vc_chance(&r,1,4)?vc_range(&r,2,60):1500); encoded++; enc_snap(e,&after); vc_count("ctl_encode_calls_between_sets",1);
      for(int i=0;i<R_N;i++){ if(i==R_BANDWIDTH) continue; if(i==R_BITRATE&&!bitrate_explicit) continue; if(after.v[i]!=before.v[i]){ vc_viol("ctl:encode-changed-setting","an encode call (%d samples at %d Hz, %d ch, returned %d) changed OPUS_GET_%s from %d to %d (last set: %s)",fs,Fs,ch,el,rq[i].name,before.v[i],after.v[i],last); break; } }
      if(after.fs!=before.fs||after.la!=before.la) vc_viol("ctl:encode-changed-setting","an encode call changed the sample rate or lookahead query"); continue; }
    if(k==2){ int q=VC_PICK(&r,unknown_req); int rc=opus_encoder_ctl(e,q,0); enc_snap(e,&after); if(rc!=OPUS_UNIMPLEMENTED) vc_viol("ctl:unknown-request","encoder request %d returned %d, expected OPUS_UNIMPLEMENTED",q,rc); else vc_count("ctl_unknown_refused",1); int d=snap_diff(&before,&after); if(d) vc_viol("ctl:rejected-changed-state","unknown request %d changed getter %s",q,d<=R_N?rq[d-1].name:"rate/lookahead"); continue; }
    if(k==3){ int rr=vc_below(&r,R_N); int rc=opus_encoder_ctl(e,rq[rr].get,(opus_int32*)NULL); enc_snap(e,&after); if(rc!=OPUS_BAD_ARG) vc_viol("ctl:null-accepted","OPUS_GET_%s(NULL) returned %d",rq[rr].name,rc); else vc_count("ctl_null_refused",1); if(snap_diff(&before,&after)) vc_viol("ctl:rejected-changed-state","NULL getter changed state"); continue; }
    int rr=vc_below(&r,R_N); int v=grid_value(&r,rr,ch); int rc=opus_encoder_ctl(e,rq[rr].set,v); enc_snap(e,&after); vc_count("ctl_sets",1); snprintf(last,sizeof last,"OPUS_SET_%s(%d)=%d",rq[rr].name,v,rc);
    int lg=legal(rr,v,ch);
    if(rr==R_APPLICATION&&lg&&encoded&&v!=before.v[R_APPLICATION]){ /* changing the application after the first frame may be refused; if so nothing may change */ if(rc!=OPUS_OK){ if(snap_diff(&before,&after)) vc_viol("ctl:rejected-changed-state","%s changed state",last); continue; } }
    if(lg){ if(rc!=OPUS_OK){ vc_viol("ctl:legal-rejected","%s on a %d Hz %d-channel encoder (application %d)",last,Fs,ch,app); continue; }
      if(rr==R_BITRATE) bitrate_explicit=(v>0);
      if(!getter_ok(rr,v,after.v[rr],Fs,ch)){ vc_viol(rr==R_BANDWIDTH?"ctl:getter-mismatch:BANDWIDTH":"ctl:getter-mismatch","%s then OPUS_GET_%s reports %d (Fs=%d ch=%d, %d frames encoded before)",last,rq[rr].name,after.v[rr],Fs,ch,encoded); }
      else vc_count("ctl_legal_readback_ok",1);
      /* a legal set changes its own setting only */
      for(int i=0;i<R_N;i++) if(i!=rr&&after.v[i]!=before.v[i]){ vc_viol("ctl:side-effect","%s changed OPUS_GET_%s from %d to %d",last,rq[i].name,before.v[i],after.v[i]); break; } }
    else { if(rc==OPUS_OK){ vc_viol("ctl:illegal-accepted","%s accepted (getter now %d)",last,after.v[rr]); continue; } if(rc!=OPUS_BAD_ARG) vc_viol("ctl:wrong-error","%s: documented error is OPUS_BAD_ARG",last); int d=snap_diff(&before,&after); if(d) vc_viol("ctl:rejected-changed-state","%s was rejected but OPUS_GET_%s changed from %d to %d",last,d<=R_N?rq[d-1].name:"?",d<=R_N?before.v[d-1]:0,d<=R_N?after.v[d-1]:0); else vc_count("ctl_illegal_refused",1); }
    vc_sig3(rr,(uint64_t)lg|((uint64_t)(encoded>0)<<1)|((uint64_t)ch<<2),(uint64_t)(v<0?0:v<3?1:v<1000?2:3));
    if(step==60&&vc_want_sample()) vc_sample("{\"mode\":\"ctl\",\"Fs\":%d,\"ch\":%d,\"app\":%d,\"frames_encoded_so_far\":%d,\"call\":\"%s\",\"legal\":%d,\"getter_after\":%d}",Fs,ch,app,encoded,last,lg,after.v[rr]);
  }
  opus_encoder_destroy(e);
  /* decoder */
  { int dFs=VC_PICK(&r,vk_rates), dch=1+vc_below(&r,2); OpusDecoder *d=opus_decoder_create(dFs,dch,&err); if(!d){ vc_viol("create:legal-rejected","decoder"); return; } vk_pool_init(); static float out[5760*2];
    for(int step=0;step<60;step++){ int k=vc_below(&r,8); opus_int32 g0=-7,p0=-7,c0=-7,g1=-7,p1=-7,c1=-7; opus_decoder_ctl(d,OPUS_GET_GAIN(&g0)); opus_decoder_ctl(d,OPUS_GET_PHASE_INVERSION_DISABLED(&p0)); opus_decoder_ctl(d,OPUS_GET_COMPLEXITY(&c0));
      int rc=0, lg=1, which=0, v=0; char w[60];
      if(k==0){ vk_stream *st=&vk_pool[vc_below(&r,vk_pool_n)]; int q=vc_below(&r,st->n); opus_decode_float(d,st->pkt[q],st->len[q],out,5760,0); continue; }
      else if(k<4){ v=vc_chance(&r,1,2)?vc_range(&r,-32770,32770):VC_PICK(&r,((const int[]){INT_MIN,-32769,-32768,-1,0,1,32767,32768,INT_MAX})); rc=opus_decoder_ctl(d,OPUS_SET_GAIN(v)); lg=v>=-32768&&v<=32767; which=0; snprintf(w,sizeof w,"OPUS_SET_GAIN(%d)",v); }
      else if(k<6){ v=vc_range(&r,-2,3); rc=opus_decoder_ctl(d,OPUS_SET_PHASE_INVERSION_DISABLED(v)); lg=v==0||v==1; which=1; snprintf(w,sizeof w,"OPUS_SET_PHASE_INVERSION_DISABLED(%d)",v); }
      else if(k==6){ v=vc_range(&r,-2,12); rc=opus_decoder_ctl(d,OPUS_SET_COMPLEXITY(v)); lg=v>=0&&v<=10; which=2; snprintf(w,sizeof w,"decoder OPUS_SET_COMPLEXITY(%d)",v); }
      else { int q=VC_PICK(&r,unknown_req); rc=opus_decoder_ctl(d,q,0); lg=-1; snprintf(w,sizeof w,"decoder request %d",q); }
      opus_decoder_ctl(d,OPUS_GET_GAIN(&g1)); opus_decoder_ctl(d,OPUS_GET_PHASE_INVERSION_DISABLED(&p1)); opus_decoder_ctl(d,OPUS_GET_COMPLEXITY(&c1)); vc_count("dec_ctl_calls",1);
      if(lg==1){ int got=which==0?g1:which==1?p1:c1; if(rc!=OPUS_OK||got!=v) vc_viol("ctl:decoder-legal","%s returned %d, getter %d",w,rc,got); if((which!=0&&g1!=g0)||(which!=1&&p1!=p0)||(which!=2&&c1!=c0)) vc_viol("ctl:side-effect","%s changed another decoder setting",w); }
      else { if(lg==0&&rc!=OPUS_BAD_ARG) vc_viol(rc==OPUS_OK?"ctl:illegal-accepted":"ctl:wrong-error","%s returned %d",w,rc); if(lg==-1&&rc!=OPUS_UNIMPLEMENTED) vc_viol("ctl:unknown-request","%s returned %d",w,rc); if(g1!=g0||p1!=p0||c1!=c0) vc_viol("ctl:rejected-changed-state","%s was rejected but changed a decoder setting",w); }
    }
    { int rc=opus_decoder_ctl(d,OPUS_GET_GAIN((opus_int32*)NULL)); if(rc!=OPUS_BAD_ARG) vc_viol("ctl:null-accepted","decoder OPUS_GET_GAIN(NULL) returned %d",rc); rc=opus_decoder_ctl(d,OPUS_GET_LAST_PACKET_DURATION((opus_int32*)NULL)); if(rc!=OPUS_BAD_ARG) vc_viol("ctl:null-accepted","decoder OPUS_GET_LAST_PACKET_DURATION(NULL) returned %d",rc); }
    opus_decoder_destroy(d); }
}

/* ---------------------------------------------------------------- msctl */
static void mode_msctl(void){
  vc_rng r; vc_case_rng(&r,27); int err; int Fs=VC_PICK(&r,vk_rates), app=VC_PICK(&r,vk_apps); static const int fams[4]={0,1,255,3}; int fam=VC_PICK(&r,fams); int ch; if(fam==0) ch=vc_range(&r,1,2); else if(fam==1) ch=vc_range(&r,1,8); else if(fam==255) ch=vc_range(&r,1,5); else ch=vc_chance(&r,1,2)?4:6;
  int S,C; unsigned char map[255]; OpusMSEncoder *me=NULL; OpusProjectionEncoder *pe=NULL; if(fam==3) pe=opus_projection_ambisonics_encoder_create(Fs,ch,3,&S,&C,app,&err); else me=opus_multistream_surround_encoder_create(Fs,ch,fam,&S,&C,map,app,&err); if(!me&&!pe){ vc_viol("create:legal-rejected","family %d ch %d",fam,ch); return; }
#define MSCTL(...) (me?opus_multistream_encoder_ctl(me,__VA_ARGS__):opus_projection_encoder_ctl(pe,__VA_ARGS__))
  static const int reqs[]={R_VBR,R_CVBR,R_COMPLEXITY,R_BANDWIDTH,R_MAXBW,R_FEC,R_LOSS,R_DTX,R_LSB,R_PRED,R_PHASEINV,R_SIGNAL,R_EXPERT,R_FORCECH,R_BITRATE};
  for(int step=0;step<60;step++){ int rr=VC_PICK(&r,reqs); int v=grid_value(&r,rr,2);
    esnap before[8],after[8]; OpusEncoder *se[8]; for(int s=0;s<S&&s<8;s++){ se[s]=NULL; MSCTL(OPUS_MULTISTREAM_GET_ENCODER_STATE_REQUEST,s,&se[s]); if(!se[s]){ vc_viol("msctl:no-stream-state","stream %d of %d not accessible",s,S); goto out; } enc_snap(se[s],&before[s]); }
    opus_int32 mb=-7,ma=-7; MSCTL(rq[rr].get,&mb); int rc=MSCTL(rq[rr].set,v); int grc=MSCTL(rq[rr].get,&ma); if(grc!=OPUS_OK){ vc_viol("msctl:getter-unimplemented","family %d: OPUS_GET_%s on the multistream/projection encoder returns %d",fam,rq[rr].name,grc); continue; } for(int s=0;s<S&&s<8;s++) enc_snap(se[s],&after[s]); vc_count("msctl_sets",1);
    int lg= rr==R_FORCECH?(v==OPUS_AUTO||v==1||(v==2&&C==S)) : legal(rr,v,2);   /* a forced channel count must be legal for every stream */
    if(rr==R_BITRATE){ if(lg){ if(rc!=OPUS_OK) vc_viol("msctl:legal-rejected","multistream OPUS_SET_BITRATE(%d) returned %d",v,rc); } else if(rc!=OPUS_BAD_ARG) vc_viol(rc==OPUS_OK?"msctl:illegal-accepted":"ctl:wrong-error","multistream OPUS_SET_BITRATE(%d) returned %d",v,rc); continue; }
    if(lg){ if(rc!=OPUS_OK){ vc_viol("msctl:legal-rejected","family %d: OPUS_SET_%s(%d) returned %d",fam,rq[rr].name,v,rc); continue; }
      if(rr!=R_BANDWIDTH&&ma!=v) vc_viol("msctl:getter-mismatch","family %d: OPUS_SET_%s(%d) then the multistream getter reports %d",fam,rq[rr].name,v,ma);
      if(rr!=R_EXPERT&&rr!=R_BANDWIDTH) for(int s=0;s<S&&s<8;s++) if(after[s].v[rr]!=v){ vc_viol("msctl:not-forwarded","family %d: OPUS_SET_%s(%d) did not reach stream %d of %d (getter %d)",fam,rq[rr].name,v,s,S,after[s].v[rr]); break; }
      vc_count("msctl_legal_ok",1); }
    else { if(rc==OPUS_OK){ vc_viol(rr==R_EXPERT?"msctl:illegal-accepted:EXPERT_FRAME_DURATION":"msctl:illegal-accepted","family %d (%d streams, %d coupled): OPUS_SET_%s(%d) accepted, getter now %d",fam,S,C,rq[rr].name,v,ma); continue; }
      int changed=-1; for(int s=0;s<S&&s<8;s++) if(snap_diff(&before[s],&after[s])) changed=s; if(ma!=mb) changed=99;
      if(changed>=0) vc_viol(rr==R_FORCECH?"msctl:rejected-changed-state:FORCE_CHANNELS":"msctl:rejected-changed-state","family %d (%d streams, %d coupled): OPUS_SET_%s(%d) returned %d but stream %d changed",fam,S,C,rq[rr].name,v,rc,changed); else vc_count("msctl_illegal_refused",1); }
    vc_sig3((uint64_t)fam|((uint64_t)rr<<8),(uint64_t)lg,(uint64_t)ch); }
  /* multistream decoder: gain and phase inversion reach every stream */
  if(me){ OpusMSDecoder *md=opus_multistream_decoder_create(Fs,ch,S,C,map,&err); if(md){ int gv=vc_range(&r,-32768,32767); int rc=opus_multistream_decoder_ctl(md,OPUS_SET_GAIN(gv)); int rc2=opus_multistream_decoder_ctl(md,OPUS_SET_GAIN(40000)); for(int s=0;s<S;s++){ OpusDecoder *sd=NULL; opus_int32 g1=-7; opus_multistream_decoder_ctl(md,OPUS_MULTISTREAM_GET_DECODER_STATE(s,&sd)); if(sd) opus_decoder_ctl(sd,OPUS_GET_GAIN(&g1)); if(rc!=OPUS_OK||rc2!=OPUS_BAD_ARG||g1!=gv){ vc_viol("msctl:decoder-gain","multistream decoder gain %d: rc %d/%d, stream %d has %d",gv,rc,rc2,s,g1); break; } } vc_count("msdec_gain_ok",1);
      { OpusDecoder *sd=(OpusDecoder*)1; int rq2=opus_multistream_decoder_ctl(md,OPUS_MULTISTREAM_GET_DECODER_STATE(S+vc_range(&r,0,3),&sd)); int rq3=opus_multistream_decoder_ctl(md,OPUS_MULTISTREAM_GET_DECODER_STATE(-1,&sd)); if(rq2!=OPUS_BAD_ARG||rq3!=OPUS_BAD_ARG) vc_viol("msctl:stream-index","GET_DECODER_STATE with a bad stream index returned %d/%d",rq2,rq3); }
      opus_multistream_decoder_destroy(md); } }
out:
  if(me) opus_multistream_encoder_destroy(me); if(pe) opus_projection_encoder_destroy(pe);
}

/* ---------------------------------------------------------------- create (allocation faults through interposed malloc/free) */
static long fail_at=-2, nalloc=0, live=0;
void *__real_malloc(size_t n); void __real_free(void *p);
void *__wrap_malloc(size_t n){ if(fail_at>=0){ if(nalloc++==fail_at) return NULL; } void *p=__real_malloc(n); if(p&&fail_at>=-1) live++; return p; }
void __wrap_free(void *p){ if(p&&fail_at>=-1) live--; __real_free(p); }
static void mode_create(void){
  vc_rng r; vc_case_rng(&r,28); int err;
  static const int fsv[]={0,-1,4000,8000,11025,12000,16000,22050,24000,32000,44100,48000,48001,96000,INT_MAX}; static const int chv[]={-1,0,1,2,3,255,256}; static const int apv[]={0,2047,2048,2049,2050,2051,2052,-1000};
  int Fs=VC_PICK(&r,fsv), ch=VC_PICK(&r,chv), app=VC_PICK(&r,apv); int fsok=(Fs==8000||Fs==12000||Fs==16000||Fs==24000||Fs==48000), chok=(ch==1||ch==2), apok=(app==2048||app==2049||app==2051);
  fail_at=-1; live=0;   /* allocation accounting on, no faults: a rejected creation must leave no allocation behind */
#define LEAKCHK(what) do{ if(live!=0){ vc_viol("create:leak","%s (Fs=%d ch=%d app=%d): %ld allocation(s) still live after the call returned",what,Fs,ch,app,live); live=0; } else vc_count("create_no_leak_checked",1); }while(0)
  { err=12345; OpusEncoder *e=opus_encoder_create(Fs,ch,app,&err); int ok=fsok&&chok&&apok; if(ok){ if(!e||err!=OPUS_OK) vc_viol("create:legal-rejected","opus_encoder_create(%d,%d,%d) failed %d",Fs,ch,app,err); } else if(e||err!=OPUS_BAD_ARG) vc_viol("create:illegal-accepted","opus_encoder_create(%d,%d,%d) returned %p err %d",Fs,ch,app,(void*)e,err); if(e) opus_encoder_destroy(e); vc_count("create_calls",1);
    if(chok){ int sz=opus_encoder_get_size(ch); void *m=malloc(sz); int rc=opus_encoder_init((OpusEncoder*)m,Fs,ch,app); if(ok?rc!=OPUS_OK:rc!=OPUS_BAD_ARG) vc_viol("create:init","opus_encoder_init(%d,%d,%d) returned %d",Fs,ch,app,rc); free(m); } else if(opus_encoder_get_size(ch)!=0) vc_viol("create:size","opus_encoder_get_size(%d) nonzero",ch); LEAKCHK("opus_encoder_create/init"); }
  { err=12345; OpusDecoder *d=opus_decoder_create(Fs,ch,&err); int ok=fsok&&chok; if(ok){ if(!d||err!=OPUS_OK) vc_viol("create:legal-rejected","opus_decoder_create(%d,%d) failed %d",Fs,ch,err); } else if(d||err!=OPUS_BAD_ARG) vc_viol("create:illegal-accepted","opus_decoder_create(%d,%d) returned %p err %d",Fs,ch,(void*)d,err); if(d) opus_decoder_destroy(d); if(!chok&&opus_decoder_get_size(ch)!=0) vc_viol("create:size","opus_decoder_get_size(%d) nonzero",ch); LEAKCHK("opus_decoder_create"); }
  { unsigned char map[2]={0,1}; err=12345; OpusMSEncoder *m=opus_multistream_encoder_create(Fs,chok?ch:2,1,chok?ch-1:1,map,app,&err); int ok=fsok&&apok; if(ok){ if(!m||err!=OPUS_OK) vc_viol("create:legal-rejected","multistream encoder (%d,%d) failed %d",Fs,app,err); } else if(m||err==OPUS_OK) vc_viol("create:illegal-accepted","multistream encoder create(Fs=%d,app=%d) accepted",Fs,app); if(m) opus_multistream_encoder_destroy(m); LEAKCHK("opus_multistream_encoder_create");
    err=12345; OpusMSDecoder *d=opus_multistream_decoder_create(Fs,2,1,1,map,&err); if(fsok?(!d||err!=OPUS_OK):(d||err==OPUS_OK)) vc_viol(fsok?"create:legal-rejected":"create:illegal-accepted","multistream decoder create(Fs=%d) -> %p err %d",Fs,(void*)d,err); if(d) opus_multistream_decoder_destroy(d); LEAKCHK("opus_multistream_decoder_create"); }
  /* creations that pass the count checks and are refused later (bad mapping entry, a stream no channel feeds, bad family / channel count / rate / application) */
  { int gFs=vc_chance(&r,1,3)?Fs:VC_PICK(&r,vk_rates); int gap=vc_chance(&r,1,3)?app:OPUS_APPLICATION_AUDIO; int gok=(gFs==8000||gFs==12000||gFs==16000||gFs==24000||gFs==48000)&&(gap==2048||gap==2049||gap==2051); int S,C; unsigned char map[255]; int kind=vc_below(&r,6); void *o=NULL; err=12345; int expect_ok=0; const char *what="";
    if(kind==0){ int n=vc_range(&r,1,6), st=vc_range(&r,1,4), cp=vc_range(&r,0,st); int bad=0; for(int i=0;i<n;i++){ map[i]=(unsigned char)(vc_chance(&r,1,5)?vc_range(&r,st+cp,254):vc_below(&r,st+cp)); if(map[i]>=st+cp&&map[i]!=255) bad=1; } int fed[16]={0}; for(int i=0;i<n;i++) if(map[i]<st+cp) fed[map[i]]=1; for(int q=0;q<st+cp;q++) if(!fed[q]) bad=1; if(st+cp>n) bad=1; what="opus_multistream_encoder_create (mapping)"; o=opus_multistream_encoder_create(gFs,n,st,cp,map,gap,&err); expect_ok=gok&&!bad; if(o&&!expect_ok){ vc_viol("create:illegal-accepted","multistream encoder with an illegal layout/rate/application accepted (n=%d st=%d cp=%d)",n,st,cp); } if(o) opus_multistream_encoder_destroy((OpusMSEncoder*)o); }
    else if(kind==1){ int n=vc_range(&r,1,6), st=vc_range(&r,1,4), cp=vc_range(&r,0,st); int bad=0; for(int i=0;i<n;i++){ map[i]=(unsigned char)(vc_chance(&r,1,5)?vc_range(&r,st+cp,255):vc_below(&r,st+cp)); if(map[i]>=st+cp&&map[i]!=255) bad=1; } what="opus_multistream_decoder_create (mapping)"; o=opus_multistream_decoder_create(gFs,n,st,cp,map,&err); int fok=(gFs==8000||gFs==12000||gFs==16000||gFs==24000||gFs==48000); if(o&&(bad||!fok)) vc_viol("create:illegal-accepted","multistream decoder with an illegal mapping/rate accepted"); if(!o&&!bad&&fok) vc_viol("create:legal-rejected","multistream decoder n=%d st=%d cp=%d err %d",n,st,cp,err); if(o) opus_multistream_decoder_destroy((OpusMSDecoder*)o); }
    else if(kind==2){ static const int fam[]={0,1,2,3,255,4,254,-1}; int f=VC_PICK(&r,fam); int n=vc_range(&r,0,12); what="opus_multistream_surround_encoder_create"; o=opus_multistream_surround_encoder_create(gFs,n,f,&S,&C,map,gap,&err); if(o) opus_multistream_encoder_destroy((OpusMSEncoder*)o); }
    else if(kind==3){ int n=vc_range(&r,0,40); int f=vc_chance(&r,1,4)?vc_range(&r,0,4):3; what="opus_projection_ambisonics_encoder_create"; o=opus_projection_ambisonics_encoder_create(gFs,n,f,&S,&C,gap,&err); if(o) opus_projection_encoder_destroy((OpusProjectionEncoder*)o); }
    else if(kind==4){ int n=vc_range(&r,1,8), st=vc_range(&r,1,5), cp=vc_range(&r,0,st); int sz=vc_chance(&r,1,2)?n*(st+cp)*2:vc_range(&r,0,200); static unsigned char mtx[400]; for(int i=0;i<400;i++) mtx[i]=(unsigned char)vc_u32(&r); what="opus_projection_decoder_create"; o=opus_projection_decoder_create(gFs,n,st,cp,mtx,sz>400?400:sz,&err); if(o) opus_projection_decoder_destroy((OpusProjectionDecoder*)o); }
    else { int n=vc_range(&r,1,3); what="opus_encoder_create"; o=opus_encoder_create(gFs,n,gap,&err); if(o) opus_encoder_destroy((OpusEncoder*)o); }
    if(!o&&(err==OPUS_OK||err==12345)) vc_viol("create:no-error-code","%s returned NULL without an error code (err=%d)",what,err); vc_count(o?"create_variants_accepted":"create_variants_rejected",1); vc_count("create_calls",1); LEAKCHK(what); }
  fail_at=-2;
  /* allocation faults: fail the k-th allocation for every k until creation succeeds */
  { int kind=vc_below(&r,6); int gFs=VC_PICK(&r,vk_rates); int gch=1+vc_below(&r,2); unsigned char map[8]={0,1,2,3,4,5,6,7}; int S,C;
    for(long k=0;k<40;k++){ live=0; nalloc=0; fail_at=k; err=12345; void *obj=NULL;
      switch(kind){ case 0: obj=opus_encoder_create(gFs,gch,OPUS_APPLICATION_AUDIO,&err); break; case 1: obj=opus_decoder_create(gFs,gch,&err); break; case 2: obj=opus_multistream_surround_encoder_create(gFs,6,1,&S,&C,map,OPUS_APPLICATION_AUDIO,&err); break; case 3: obj=opus_multistream_decoder_create(gFs,3,2,1,map,&err); break; case 4: obj=opus_projection_ambisonics_encoder_create(gFs,4,3,&S,&C,OPUS_APPLICATION_AUDIO,&err); break; default: obj=opus_repacketizer_create(); err=obj?OPUS_OK:OPUS_ALLOC_FAIL; break; }
      long used=nalloc; fail_at=-1; vc_count("alloc_fault_runs",1);
      if(obj){ if(used>k){ vc_viol("create:alloc-fault-ignored","object kind %d created although allocation %ld failed",kind,k); } /* success: clean up and stop */
        switch(kind){ case 0: opus_encoder_destroy((OpusEncoder*)obj); break; case 1: opus_decoder_destroy((OpusDecoder*)obj); break; case 2: opus_multistream_encoder_destroy((OpusMSEncoder*)obj); break; case 3: opus_multistream_decoder_destroy((OpusMSDecoder*)obj); break; case 4: opus_projection_encoder_destroy((OpusProjectionEncoder*)obj); break; default: opus_repacketizer_destroy((OpusRepacketizer*)obj); }
        if(live!=0) vc_viol("create:leak","object kind %d: %ld allocation(s) still live after destroy",kind,live); if(used<=k) break; }
      else { if(err!=OPUS_ALLOC_FAIL) vc_viol("create:alloc-fail-code","object kind %d with allocation %ld failing returned NULL with error %d",kind,k,err); if(live!=0) vc_viol("create:leak","object kind %d: %ld allocation(s) leaked when allocation %ld failed",kind,live,k); vc_count("alloc_faults_reported",1); } }
    fail_at=-2; }
  vc_sig3((uint64_t)(Fs&0xFFFF),(uint64_t)(ch&0xFF),(uint64_t)(app&0xFFF));
}

/* ---------------------------------------------------------------- honour */
static int bw_rank(int bw){ return bw-OPUS_BANDWIDTH_NARROWBAND; }   /* 0 NB .. 4 FB */
static void mode_honour(void){
  vc_rng r; vc_case_rng(&r,29); int err; int Fs=VC_PICK(&r,vk_rates), ch=1+vc_below(&r,2), app=VC_PICK(&r,vk_apps); OpusEncoder *e=opus_encoder_create(Fs,ch,app,&err);
  /* settings in force before the first frame */
  int forced_bw=vc_chance(&r,1,2)?OPUS_AUTO:OPUS_BANDWIDTH_NARROWBAND+(int)vc_below(&r,5); int max_bw=OPUS_BANDWIDTH_NARROWBAND+(int)vc_below(&r,5); int fc=ch==2?(vc_chance(&r,1,2)?OPUS_AUTO:1+(int)vc_below(&r,2)):(vc_chance(&r,1,2)?OPUS_AUTO:1); int expert=vc_chance(&r,1,3)?1+(int)vc_below(&r,9):0;
  opus_encoder_ctl(e,OPUS_SET_BANDWIDTH(forced_bw)); opus_encoder_ctl(e,OPUS_SET_MAX_BANDWIDTH(max_bw)); opus_encoder_ctl(e,OPUS_SET_FORCE_CHANNELS(fc)); if(expert) opus_encoder_ctl(e,OPUS_SET_EXPERT_FRAME_DURATION(OPUS_FRAMESIZE_2_5_MS+expert-1));
  if(vc_chance(&r,1,2)) opus_encoder_ctl(e,VK_SET_FORCE_MODE_REQUEST,VK_MODE_SILK+(int)vc_below(&r,3));
  opus_encoder_ctl(e,OPUS_SET_BITRATE(vc_chance(&r,1,5)?vc_range(&r,1500,6000):vc_range(&r,6000,96000)*ch)); if(vc_chance(&r,1,3)) opus_encoder_ctl(e,OPUS_SET_VBR(0));
  int nyq= Fs==8000?0:Fs==12000?1:Fs==16000?2:Fs==24000?3:4;
  vc_siggen g; vs_init(&g,vc_chance(&r,1,2)?VS_SPEECHLIKE:(int)vc_below(&r,VS_NFINITE),Fs,ch,0.5f,vc_next(&r)); static float in[5760*2]; unsigned char pk[1500]; int fidx=vc_below(&r,9); int nf=vc_range(&r,10,50);
  int pending_old=-1, audio_since_change=0; int changes=0;
  for(int k=0;k<nf;k++){
    if(vc_chance(&r,1,5)){ vk_encset set; vk_encset_default(&set,app); int which=vc_below(&r,5); if(which==0) opus_encoder_ctl(e,OPUS_SET_BITRATE(vc_range(&r,6000,96000)*ch)); else if(which==1) opus_encoder_ctl(e,OPUS_SET_COMPLEXITY(vc_below(&r,11))); else if(which==2) opus_encoder_ctl(e,OPUS_SET_INBAND_FEC(vc_below(&r,3))); else if(which==3) opus_encoder_ctl(e,OPUS_SET_PACKET_LOSS_PERC(vc_below(&r,40))); else opus_encoder_ctl(e,OPUS_SET_SIGNAL(vc_chance(&r,1,2)?OPUS_SIGNAL_VOICE:OPUS_SIGNAL_MUSIC)); }
    if(ch==2&&vc_chance(&r,1,8)&&k>2){ int nfc= fc==1?2:(fc==2?1:1+(int)vc_below(&r,2)); pending_old= fc; fc=nfc; opus_encoder_ctl(e,OPUS_SET_FORCE_CHANNELS(fc)); audio_since_change=0; changes++; }
    if(!expert&&vc_chance(&r,1,6)) fidx=vc_below(&r,9);
    int fs= expert?vk_frame_samples(Fs,expert-1):vk_frame_samples(Fs,fidx); int want=fs; int sub=fs; if(expert&&vc_chance(&r,1,3)){ int bigger=vk_frame_samples(Fs,8); if(bigger>fs) sub=bigger; }
    if(expert>1&&vc_chance(&r,1,8)){ int shorter=vk_frame_samples(Fs,(int)vc_below(&r,expert-1)); vs_fill(&g,in,shorter); int l2=opus_encode_float(e,in,shorter,pk,1500); if(l2>=0){ vc_viol("honour:short-buffer-accepted","expert duration %d samples, %d supplied: encode returned %d",want,shorter,l2); break; } vc_count("honour_short_buffer_refused",1); }
    vs_fill(&g,in,sub); int len=opus_encode_float(e,in,sub,pk,1500); vc_count("honour_packets",1); if(len<=0){ vc_viol("honour:encode-failed","encode returned %d",len); break; }
    rfc_pkt m; rfc_parse(pk,len,0,&m); if(!m.valid){ vc_viol("honour:invalid-packet","encoder output rejected by the RFC model"); break; }
    int dur=m.count*rfc_spf(pk[0],Fs); if(dur!=want){ vc_viol("honour:duration","packet announces %d samples, requested %d (expert %d, buffer %d, Fs %d)",dur,want,expert,sub,Fs); break; }
    int audio=0; for(int i=0;i<m.count;i++) if(m.sizes[i]>1) audio=1; if(!audio){ vc_count("honour_no_audio_packets",1); continue; }
    int toc=pk[0], mode=rfc_mode(toc), bw=rfc_bandwidth(toc), st=rfc_channels(toc);
    /* channels */
    if(ch==1&&st!=1){ vc_viol("honour:channels","mono encoder emitted a stereo packet"); break; }
    if(fc!=OPUS_AUTO){ if(st!=fc){ if(changes&&audio_since_change<2){ vc_count("honour_channel_change_latency_packets",1); } else { vc_viol("honour:forced-channels","forced channels %d but packet %d after the change (%d-th audio packet) is %s (toc %02x, mode %d, frame %d samples, Fs %d)",fc,k,audio_since_change+1,st==2?"stereo":"mono",toc,mode,fs,Fs); break; } } else vc_count("honour_forced_channels_ok",1); }
    audio_since_change++;
    /* bandwidth */
    { int limit=4; if(forced_bw!=OPUS_AUTO){ limit=bw_rank(forced_bw); } else limit=bw_rank(max_bw); if(forced_bw!=OPUS_AUTO&&bw_rank(max_bw)<limit) { /* a forced bandwidth is still subject to nothing else: the property bounds by the forced value */ }
      int eff=bw; int lim2=limit; if(mode==2&&lim2==1) lim2=2;   /* the MDCT layer has no medium band: a medium-band request is coded as wideband */
      if(eff>lim2){ vc_viol("honour:bandwidth-exceeds-setting","packet bandwidth %d exceeds the %s bandwidth %d (toc %02x mode %d Fs %d)",bw,forced_bw!=OPUS_AUTO?"forced":"maximum",limit,toc,mode,Fs); break; }
      int nl=nyq; if(mode==2&&nl==1) nl=2; if(eff>nl){ vc_viol("honour:bandwidth-exceeds-nyquist","packet bandwidth %d at input rate %d Hz (toc %02x mode %d)",bw,Fs,toc,mode); break; } vc_count("honour_bandwidth_ok",1); }
    /* MDCT-only */
    if((app==OPUS_APPLICATION_RESTRICTED_LOWDELAY||fs<Fs/100)&&mode!=2){ vc_viol("honour:mdct-only","%s packet in mode %d (toc %02x, frame %d samples at %d Hz, application %d)",fs<Fs/100?"sub-10ms":"low-delay",mode,toc,fs,Fs,app); break; }
    if(k==nf/2&&vc_want_sample()) vc_sample("{\"mode\":\"honour\",\"Fs\":%d,\"ch\":%d,\"app\":%d,\"forced_bandwidth\":%d,\"max_bandwidth\":%d,\"forced_channels\":%d,\"expert\":%d,\"packet\":%d,\"toc\":%d,\"len\":%d}",Fs,ch,app,forced_bw,max_bw,fc,expert,k,toc,len);
    vc_sig3((uint64_t)(toc>>2)|((uint64_t)(fc==OPUS_AUTO?0:fc)<<6),(uint64_t)(forced_bw==OPUS_AUTO?9:bw_rank(forced_bw))|((uint64_t)bw_rank(max_bw)<<4)|((uint64_t)nyq<<8),(uint64_t)app|((uint64_t)expert<<12));
  }
  opus_encoder_destroy(e);
}

/* ---------------------------------------------------------------- mshonour: multistream / projection encoders honour the frame duration and low-delay settings */
static void mode_mshonour(void){
  vc_rng r; vc_case_rng(&r,31); int err; int Fs=VC_PICK(&r,vk_rates), app=VC_PICK(&r,vk_apps); static const int fams[4]={0,1,255,3}; int fam=VC_PICK(&r,fams); int ch;
  if(fam==0) ch=vc_range(&r,1,2); else if(fam==1) ch=vc_range(&r,1,8); else if(fam==255) ch=vc_range(&r,1,6); else { int o=vc_range(&r,1,2); ch=(o+1)*(o+1)+(vc_chance(&r,1,3)?2:0); }
  int S=0,C=0; unsigned char map[255]; OpusMSEncoder *me=NULL; OpusProjectionEncoder *pe=NULL;
  if(fam==3) pe=opus_projection_ambisonics_encoder_create(Fs,ch,3,&S,&C,app,&err); else me=opus_multistream_surround_encoder_create(Fs,ch,fam,&S,&C,map,app,&err); if(!me&&!pe){ vc_viol("mshonour:create","family %d channels %d: %d",fam,ch,err); return; }
#define MSH_CTL(...) (me?opus_multistream_encoder_ctl(me,__VA_ARGS__):opus_projection_encoder_ctl(pe,__VA_ARGS__))
  int expert=vc_chance(&r,2,3)?1+(int)vc_below(&r,9):0; if(expert){ if(MSH_CTL(OPUS_SET_EXPERT_FRAME_DURATION(OPUS_FRAMESIZE_2_5_MS+expert-1))!=OPUS_OK){ vc_viol("mshonour:set-failed","OPUS_SET_EXPERT_FRAME_DURATION refused"); goto out; } }
  MSH_CTL(OPUS_SET_BITRATE(vc_range(&r,8000,64000)*ch)); if(vc_chance(&r,1,3)) MSH_CTL(OPUS_SET_VBR(0));
  { vc_siggen g; vs_init(&g,vc_chance(&r,1,2)?VS_SPEECHLIKE:(int)vc_below(&r,VS_NFINITE),Fs,ch,0.5f,vc_next(&r)); float *in=(float*)malloc(sizeof(float)*5760*ch); static unsigned char pk[12000], one[4000]; int fidx=vc_below(&r,9); int nf=vc_range(&r,6,20);
  for(int k=0;k<nf;k++){ if(!expert&&vc_chance(&r,1,4)) fidx=vc_below(&r,9);
    int want= expert?vk_frame_samples(Fs,expert-1):vk_frame_samples(Fs,fidx); int sub=want, shorter=0; if(expert){ int q=(int)vc_below(&r,6); if(q<2){ int bigger=vk_frame_samples(Fs,8); if(bigger>want) sub=bigger; } else if(q==2&&expert>1){ sub=vk_frame_samples(Fs,(int)vc_below(&r,expert-1)); shorter=1; } }
    vs_fill(&g,in,sub); int len= me?opus_multistream_encode_float(me,in,sub,pk,12000):opus_projection_encode_float(pe,in,sub,pk,12000); vc_count("mshonour_packets",1);
    if(shorter){ if(len>=0){ vc_viol("mshonour:short-buffer-accepted","family %d: expert duration %d samples, %d supplied: encode returned %d",fam,want,sub,len); break; } vc_count("mshonour_short_buffer_refused",1); continue; }
    if(len<=0){ vc_viol("mshonour:encode-failed","family %d ch %d streams %d Fs %d frame %d (supplied %d): encode returned %d",fam,ch,S,Fs,want,sub,len); break; }
    int off=0, bad=0; for(int st=0;st<S&&!bad;st++){ rfc_pkt m; rfc_parse(pk+off,len-off,st!=S-1,&m); if(!m.valid){ vc_viol("mshonour:invalid-packet","stream %d of %d rejected by the RFC model",st,S); bad=1; break; }
      int toc=pk[off]; int dur=m.count*rfc_spf(toc,Fs); if(dur!=want){ vc_viol("mshonour:duration","family %d stream %d: packet announces %d samples, requested %d (expert %d, supplied %d, Fs %d)",fam,st,dur,want,expert,sub,Fs); bad=1; break; }
      int audio=0; for(int i=0;i<m.count;i++) if(m.sizes[i]>1) audio=1;
      if(audio&&(app==OPUS_APPLICATION_RESTRICTED_LOWDELAY||want<Fs/100)&&rfc_mode(toc)!=2){ vc_viol("mshonour:mdct-only","family %d stream %d: %s packet in mode %d (toc %02x)",fam,st,want<Fs/100?"sub-10ms":"low-delay",rfc_mode(toc),toc); bad=1; break; }
      if(st!=S-1){ int c2; int l=vk_from_selfdelim(pk+off,len-off,one,&c2); if(l<0){ vc_viol("mshonour:invalid-packet","self-delimited stream %d does not convert",st); bad=1; break; } off+=c2; } vc_count("mshonour_stream_packets",1); }
    if(bad) break; vc_sig3((uint64_t)fam|((uint64_t)ch<<8),(uint64_t)expert|((uint64_t)(sub!=want)<<4)|((uint64_t)(Fs/8000)<<5),(uint64_t)app); }
  free(in); }
out:
  if(me) opus_multistream_encoder_destroy(me); if(pe) opus_projection_encoder_destroy(pe);
}

int main(int argc,char **argv){
  static const vc_mode_t modes[]={{"ctl",mode_ctl},{"msctl",mode_msctl},{"create",mode_create},{"honour",mode_honour},{"mshonour",mode_mshonour},{0,0}};
  fail_at=-2; return vc_main(argc,argv,"C11",modes);
}
