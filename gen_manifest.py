#!/usr/bin/env python3
"""Regenerate MANIFEST.json from checks.py + manifest_meta.py (keeps the manifest valid at all times)."""
import json, os, sys
sys.path.insert(0, os.path.dirname(os.path.abspath(__file__)))
from checks import CHECKS
from manifest_meta import META, HOOK_COMMITS, ENGINES, NOT_APPLICABLE, NOTES

props = [json.loads(l)['id'] for l in open(os.path.join(os.path.dirname(os.path.abspath(__file__)), 'properties.jsonl'))]
checks = []
for pid in props:
    if pid not in CHECKS or pid not in META:
        continue
    m = META[pid]
    checks.append(dict(
        property_id=pid,
        quick_cmd='python3 verif.py check %s --tier quick' % pid,
        thorough_cmd='python3 verif.py check %s --tier thorough' % pid,
        evidence_file='/verif/evidence/%s.json' % pid,
        replay_cmd_template='python3 verif.py replay {path}',
        engine=m['engine'],
        level_claimed=dict(category=CHECKS[pid]['level'], text=m['text'], design_ref=m['design_ref']),
        level_note=m['note'],
        technique=m['technique'],
    ))
na = [dict(property_id=p, reason=NOT_APPLICABLE.get(p, 'check not yet built in this round (runtime monitor designed in DESIGN.md section 4; not claimed until it runs clean)'))
      for p in props if p not in [c['property_id'] for c in checks]]
man = dict(
    version=1,
    setup_cmd='python3 verif.py setup',
    hooks=dict(guard='XIPH_OPUS_VERIF',
               enable='verif.py compiles /repo working-tree sources itself with -DXIPH_OPUS_VERIF in every flavour (see FLAVOURS in verif.py)',
               baseline_off_cmd='cmake --build /repo/_build && ctest --test-dir /repo/_build -j8 --timeout 900',
               source_commits=HOOK_COMMITS, add_only=True),
    engines=[e for e in ENGINES if any(p in CHECKS and p in META for p in e['serves_properties'])],
    checks=checks,
    notes=NOTES,
    not_applicable=na,
)
json.dump(man, open(os.path.join(os.path.dirname(os.path.abspath(__file__)), 'MANIFEST.json'), 'w'), indent=1)
print('MANIFEST.json: %d checks, %d not claimed' % (len(checks), len(na)))
