#include <stdio.h>
#include <stdlib.h>
#include <string.h>
#include <math.h>
#include "opus.h"
#include "opus_multistream.h"
#include "opus_projection.h"
int main(int argc,char**argv){
  int err, streams, coupled; int ch=atoi(argv[1]); int Fs=48000; float amp=atof(argv[2]);
  OpusProjectionEncoder*e=opus_projection_ambisonics_encoder_create(Fs,ch,3,&streams,&coupled,OPUS_APPLICATION_AUDIO,&err);
  opus_int32 msz; opus_projection_encoder_ctl(e,OPUS_PROJECTION_GET_DEMIXING_MATRIX_SIZE(&msz));
  unsigned char*m=malloc(msz); opus_projection_encoder_ctl(e,OPUS_PROJECTION_GET_DEMIXING_MATRIX(m,msz));
  OpusProjectionDecoder*d1=opus_projection_decoder_create(Fs,ch,streams,coupled,m,msz,&err);
  OpusProjectionDecoder*d2=opus_projection_decoder_create(Fs,ch,streams,coupled,m,msz,&err);
  opus_projection_encoder_ctl(e,OPUS_SET_BITRATE(128000*ch));
  float*in=malloc(sizeof(float)*960*ch), *of=malloc(sizeof(float)*960*ch); short*os=malloc(2*960*ch); unsigned char pkt[20000];
  long wraps=0, maxd=0, over=0; double maxf=0;
  for(int f=0;f<100;f++){
    for(int i=0;i<960;i++){ double t=(f*960+i)/48000.0; 
      for(int c=0;c<ch;c++) in[i*ch+c]= amp*(float)sin(2*M_PI*(200+37*c)*t + c); }
    int len=opus_projection_encode_float(e,in,960,pkt,20000);
    if(len<0){printf("enc fail %d\n",len);return 1;}
    int r1=opus_projection_decode_float(d1,pkt,len,of,960,0);
    int r2=opus_projection_decode(d2,pkt,len,os,960,0);
    if(r1!=960||r2!=960){printf("dec fail %d %d\n",r1,r2);return 1;}
    for(int i=0;i<960*ch;i++){ double x=of[i]*32768.0; double y=os[i]; if(fabs(x)>maxf)maxf=fabs(x);
      if(fabs(x)>32767) over++;
      if((x>20000 && y<-5000)||(x<-20000&&y>5000)) { if(wraps<5) printf("wrap f=%d i=%d float=%.0f int=%d\n",f,i,x,(int)y); wraps++; }
      double xs = x>32767?32767:(x<-32768?-32768:x);
      long dd=(long)fabs(xs-y); if(dd>maxd)maxd=dd; }
  }
  printf("ch=%d amp=%.2f maxfloat=%.0f over=%ld wraps=%ld maxdiff=%ld\n",ch,amp,maxf,over,wraps,maxd);
  return 0;
}
