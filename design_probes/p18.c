#include <stdio.h>
#include <stdlib.h>
#include <string.h>
#include <math.h>
#include "opus.h"
#include "opus_private.h"
static unsigned long long rs=1; static unsigned rnd(void){ rs=rs*6364136223846793005ULL+1442695040888963407ULL; return (unsigned)(rs>>33); }
int main(int argc,char**argv){ rs=atoi(argv[1]); int err;
 int modes[4]={MODE_SILK_ONLY,MODE_HYBRID,MODE_CELT_ONLY,OPUS_AUTO}; const char*mn[4]={"silk","hybrid","celt","auto"};
 int rates[5]={8000,12000,16000,24000,48000};
 for(int ri=0;ri<5;ri++) for(int mi=0;mi<3;mi++) for(int ai=0;ai<3;ai++){
  int Fs=rates[ri]; int app=(int[]){OPUS_APPLICATION_VOIP,OPUS_APPLICATION_AUDIO,OPUS_APPLICATION_RESTRICTED_LOWDELAY}[ai];
  if(ai==2 && mi!=2) continue; if(mi==1 && Fs<24000) continue; /* hybrid needs SWB */
  int ch=1; int fs=Fs/50; int T=3*Fs; 
  OpusEncoder*e=opus_encoder_create(Fs,ch,app,&err); opus_encoder_ctl(e,OPUS_SET_FORCE_MODE(modes[mi])); opus_encoder_ctl(e,OPUS_SET_BITRATE(mi==0?40000:(mi==1?64000:256000))); opus_encoder_ctl(e,OPUS_SET_COMPLEXITY(10));
  if(mi==0) opus_encoder_ctl(e,OPUS_SET_BANDWIDTH(Fs>=16000?OPUS_BANDWIDTH_WIDEBAND:(Fs>=12000?OPUS_BANDWIDTH_MEDIUMBAND:OPUS_BANDWIDTH_NARROWBAND)));
  OpusDecoder*d=opus_decoder_create(Fs,ch,&err); opus_int32 la; opus_encoder_ctl(e,OPUS_GET_LOOKAHEAD(&la));
  float*x=calloc(T+fs,sizeof(float)),*y=calloc(T+fs,sizeof(float));
  /* band-limited noise (lowpass by simple 2-tap avg cascade) with speech-like envelope */
  double z1=0,z2=0; for(int i=0;i<T;i++){ double w=((rnd()%20001)/10000.0-1); z1=0.6*z1+0.4*w; z2=0.6*z2+0.4*z1; double envl=0.3+0.7*fabs(sin(2*M_PI*2.5*i/Fs)); x[i]=(float)(0.5*envl*(mi==0? z2: z1)); }
  unsigned char pk[1500]; for(int k=0;k*fs<T;k++){ int l=opus_encode_float(e,x+k*fs,fs,pk,1500); if(l<0){printf("enc err\n");return 1;} int r=opus_decode_float(d,pk,l,y+k*fs,fs,0); if(r!=fs){printf("dec err\n");return 1;} }
  /* xcorr over lags la-3ms..la+3ms using samples after 0.5 s */
  int W=Fs*3/1000; int s0=Fs/2, s1=T-Fs/10; double best=-1e30; int bl=0; double c[4000];
  for(int lag=la-W; lag<=la+W; lag++){ double acc=0; for(int i=s0;i<s1;i++){ int j=i+lag; if(j<0||j>=T) continue; acc+=x[i]*(double)y[j]; } c[lag-(la-W)]=acc; if(acc>best){best=acc; bl=lag;} }
  double frac=0; int bi=bl-(la-W); if(bi>0&&bi<2*W){ double a=c[bi-1],b=c[bi],cc=c[bi+1]; double den=a-2*b+cc; if(den!=0) frac=0.5*(a-cc)/den; }
  double delay=bl+frac; /* SNR at integer lag bl */
  double se=0,sn=0; for(int i=s0;i<s1;i++){ int j=i+bl; if(j>=T) break; double dd=y[j]-x[i]; se+=x[i]*(double)x[i]; sn+=dd*dd; }
  printf("Fs=%5d %-6s app=%d lookahead=%4d est=%8.3f diff=%+.3f samp (%+.4f ms) snr=%.1f dB\n",Fs,mn[mi],ai,la,delay,delay-la,(delay-la)*1000.0/Fs,10*log10(se/sn));
  free(x);free(y); opus_encoder_destroy(e); opus_decoder_destroy(d);
 }
 return 0; }
