#!/usr/bin/env python3
"""verif.py -- orchestrator of the runtime-monitoring machinery for xiph/opus.

  python3 verif.py setup                       build the frozen reference libraries
  python3 verif.py check C07 --tier quick      run one property check (exit 0/1/2)
  python3 verif.py replay <replay-file>        re-run the single failing case
  python3 verif.py build <flavour>             (debug) build one libopus flavour

Stdlib only.  Builds always come from /repo's *current working tree* (content
hash of celt/ silk/ src/ include/ + the *.mk source lists), never from a cached
snapshot.  See DESIGN.md sections 1 and 2.
"""
import sys, os, re, json, hashlib, subprocess, time, shutil, fnmatch, shlex, signal
from concurrent.futures import ThreadPoolExecutor

VERIF = os.path.dirname(os.path.abspath(__file__))
REPO = os.environ.get('VERIF_REPO', '/repo')
CACHE = os.path.join(VERIF, '.cache')
REF = os.path.join(VERIF, 'ref')
NCPU = int(os.environ.get('VERIF_JOBS', os.cpu_count() or 4))
GUARD = 'XIPH_OPUS_VERIF'

# --------------------------------------------------------------------------
# source lists


def parse_mk(path):
    """Parse a Makefile fragment of `VAR = a b \\` continuation lines."""
    out = {}
    if not os.path.exists(path):
        return out
    cur = None
    for line in open(path):
        line = line.rstrip('\n')
        if cur is None:
            m = re.match(r'^\s*([A-Za-z0-9_]+)\s*\+?=\s*(.*)$', line)
            if not m:
                continue
            cur = m.group(1)
            rest = m.group(2)
            out.setdefault(cur, [])
        else:
            rest = line
        cont = rest.rstrip().endswith('\\')
        rest = rest.rstrip().rstrip('\\')
        out[cur] += rest.split()
        if not cont:
            cur = None
    return out


def source_lists(root, fixed, rtcd=True):
    mk = {}
    for f in ('opus_sources.mk', 'celt_sources.mk', 'silk_sources.mk'):
        mk.update(parse_mk(os.path.join(root, f)))
    g = lambda k: mk.get(k, [])
    plain = g('OPUS_SOURCES') + g('CELT_SOURCES') + g('SILK_SOURCES') + g('OPUS_SOURCES_FLOAT')
    plain += g('SILK_SOURCES_FIXED') if fixed else g('SILK_SOURCES_FLOAT')
    groups = [(plain, [])]
    if rtcd:
        groups[0] = (plain + g('CELT_SOURCES_X86_RTCD') + g('SILK_SOURCES_X86_RTCD'), [])
        groups.append((g('CELT_SOURCES_SSE'), ['-msse']))
        groups.append((g('CELT_SOURCES_SSE2'), ['-msse', '-msse2']))
        s41 = g('CELT_SOURCES_SSE4_1') + g('SILK_SOURCES_SSE4_1')
        if fixed:
            s41 += g('SILK_SOURCES_FIXED_SSE4_1')
        groups.append((s41, ['-msse4.1']))
        avx = g('CELT_SOURCES_AVX2') + g('SILK_SOURCES_AVX2')
        if not fixed:
            avx += g('SILK_SOURCES_FLOAT_AVX2')
        groups.append((avx, ['-mavx', '-mfma', '-mavx2']))
    return groups


def tree_hash(root=REPO):
    h = hashlib.sha256()
    files = []
    for d in ('celt', 'silk', 'src', 'include'):
        for dp, dn, fn in os.walk(os.path.join(root, d)):
            dn.sort()
            for f in sorted(fn):
                if f.endswith(('.c', '.h')):
                    files.append(os.path.join(dp, f))
    for f in sorted(os.listdir(root)):
        if f.endswith('.mk'):
            files.append(os.path.join(root, f))
    for f in files:
        h.update(os.path.relpath(f, root).encode())
        h.update(b'\0')
        with open(f, 'rb') as fh:
            h.update(fh.read())
        h.update(b'\0')
    return h.hexdigest()[:20]


# --------------------------------------------------------------------------
# flavours

BASE_DEFS = ['-DOPUS_BUILD', '-DHAVE_CONFIG_H', '-DVAR_ARRAYS', '-DHAVE_LRINT', '-DHAVE_LRINTF',
             '-DHAVE_ALLOCA_H', '-DDISABLE_DEBUG_FLOAT']
RTCD_DEFS = ['-DOPUS_HAVE_RTCD', '-DCPU_INFO_BY_ASM', '-DOPUS_X86_MAY_HAVE_SSE', '-DOPUS_X86_MAY_HAVE_SSE2',
             '-DOPUS_X86_MAY_HAVE_SSE4_1', '-DOPUS_X86_MAY_HAVE_AVX2']
PRESUME = ['-DOPUS_X86_PRESUME_SSE', '-DOPUS_X86_PRESUME_SSE2']
SAN = ['-O1', '-g', '-fno-omit-frame-pointer', '-fsanitize=address,undefined', '-fno-sanitize-recover=all']
WARN = ['-w']

FLAVOURS = {
    # name: (cc, cflags, defs, fixed, presume_sse, hooks)
    'asan': ('gcc', SAN, ['-DENABLE_ASSERTIONS', '-DENABLE_HARDENING'], False, False),
    'asan-fixed': ('gcc', SAN, ['-DENABLE_ASSERTIONS', '-DENABLE_HARDENING'], True, False),
    'prod': ('gcc', ['-O2', '-g', '-DNDEBUG', '-std=gnu99', '-fstack-protector-strong', '-D_FORTIFY_SOURCE=2'],
             ['-DENABLE_HARDENING'], False, True),
    'prod-fixed': ('gcc', ['-O2', '-g', '-DNDEBUG', '-std=gnu99', '-fstack-protector-strong', '-D_FORTIFY_SOURCE=2'],
                   ['-DENABLE_HARDENING'], True, True),
    'prod-np': ('gcc', ['-O2', '-g', '-DNDEBUG', '-std=gnu99'], ['-DENABLE_HARDENING'], False, False),
    'prod-fixed-np': ('gcc', ['-O2', '-g', '-DNDEBUG', '-std=gnu99'], ['-DENABLE_HARDENING'], True, False),
    'tsan': ('gcc', ['-O1', '-g', '-fno-omit-frame-pointer', '-fsanitize=thread'], ['-DENABLE_HARDENING'], False, False),
    'fuzzing': ('gcc', SAN, ['-DENABLE_ASSERTIONS', '-DENABLE_HARDENING', '-DFUZZING'], False, False),
    'checkasm': ('gcc', ['-O2', '-g'], ['-DENABLE_ASSERTIONS', '-DENABLE_HARDENING', '-DOPUS_CHECK_ASM'], False, False),
    'checkasm-fixed': ('gcc', ['-O2', '-g'], ['-DENABLE_ASSERTIONS', '-DENABLE_HARDENING', '-DOPUS_CHECK_ASM'], True, False),
    'msan': ('clang', ['-O1', '-g', '-fno-omit-frame-pointer', '-fsanitize=memory', '-fsanitize-memory-track-origins',
                       '-fno-sanitize-recover=all'], ['-DENABLE_HARDENING'], False, False),
    'libfuzzer': ('clang', ['-O1', '-g', '-fno-omit-frame-pointer', '-fsanitize=fuzzer-no-link,address,undefined',
                            '-fno-sanitize-recover=all', '-fno-sanitize=object-size'],
                  ['-DENABLE_ASSERTIONS', '-DENABLE_HARDENING'], False, False),
}


def flavour_is_fixed(fl):
    return FLAVOURS[fl][3]


def san_link_flags(fl):
    cflags = FLAVOURS[fl][1]
    out = [f for f in cflags if f.startswith('-fsanitize') or f.startswith('-fno-sanitize')]
    return out


def _run(cmd, **kw):
    return subprocess.run(cmd, stdout=subprocess.PIPE, stderr=subprocess.STDOUT, **kw)


def _compile_all(jobs):
    """jobs: list of argv.  Run in parallel; raise on first failure."""
    def one(cmd):
        r = _run(cmd)
        if r.returncode != 0:
            return ' '.join(cmd) + '\n' + r.stdout.decode(errors='replace')
        return None
    with ThreadPoolExecutor(NCPU) as ex:
        for err in ex.map(one, jobs):
            if err:
                raise BuildError(err)


class BuildError(Exception):
    pass


def include_flags(root, fixed, cfgdir):
    return ['-I' + cfgdir, '-I' + os.path.join(root, 'include'), '-I' + root, '-I' + os.path.join(root, 'celt'),
            '-I' + os.path.join(root, 'silk'), '-I' + os.path.join(root, 'src'), '-I' + os.path.join(root, 'dnn'),
            '-I' + os.path.join(root, 'silk', 'fixed' if fixed else 'float')]


def prune_cache(keep_tree):
    """Keep build trees for the current tree hash, the 4 most recent others and anything used in the last 90 min."""
    if not os.path.isdir(CACHE):
        return
    ents = []
    for d in os.listdir(CACHE):
        p = os.path.join(CACHE, d)
        if d.startswith('t-') and os.path.isdir(p) and d != 't-' + keep_tree:
            ents.append((os.path.getmtime(p), p))
    ents.sort(reverse=True)
    for mt, p in ents[4:]:
        if time.time() - mt > 5400:      # never remove a tree another (parallel) run may still be using
            shutil.rmtree(p, ignore_errors=True)


def build_lib(flavour, th=None):
    """Build libopus.a of `flavour` from /repo's working tree.  Returns build info dict."""
    cc, cflags, defs, fixed, presume = FLAVOURS[flavour]
    th = th or tree_hash()
    out = os.path.join(CACHE, 't-' + th, flavour)
    lib = os.path.join(out, 'libopus.a')
    info = dict(dir=out, lib=lib, cc=cc, cflags=cflags, fixed=fixed, flavour=flavour, tree=th,
                defs=BASE_DEFS + RTCD_DEFS + (PRESUME if presume else []) + defs + ['-D' + GUARD]
                + (['-DFIXED_POINT'] if fixed else []))
    info['incs'] = include_flags(REPO, fixed, os.path.join(out, 'inc'))
    if os.path.exists(lib + '.ok'):
        os.utime(os.path.join(CACHE, 't-' + th))
        return info
    prune_cache(th)
    tmp = out + '.tmp%d' % os.getpid()
    shutil.rmtree(tmp, ignore_errors=True)
    os.makedirs(os.path.join(tmp, 'obj'))
    os.makedirs(os.path.join(tmp, 'inc'))
    open(os.path.join(tmp, 'inc', 'config.h'), 'w').write('/* verif build: all configuration is on the command line */\n')
    incs = include_flags(REPO, fixed, os.path.join(tmp, 'inc'))
    jobs, objs = [], []
    for files, extra in source_lists(REPO, fixed):
        for f in files:
            o = os.path.join(tmp, 'obj', f.replace('/', '_')[:-2] + '.o')
            objs.append(o)
            jobs.append([cc] + cflags + WARN + extra + info['defs'] + incs + ['-c', os.path.join(REPO, f), '-o', o])
    _compile_all(jobs)
    r = _run(['ar', 'rcs', os.path.join(tmp, 'libopus.a')] + objs)
    if r.returncode:
        raise BuildError(r.stdout.decode())
    shutil.rmtree(out, ignore_errors=True)
    os.makedirs(os.path.dirname(out), exist_ok=True)
    try:
        os.rename(tmp, out)
    except OSError:
        shutil.rmtree(tmp, ignore_errors=True)   # lost a race with a concurrent identical build
    open(lib + '.ok', 'w').write('ok\n')
    return info


# --------------------------------------------------------------------------
# frozen reference (built from /verif/ref, never from /repo)

def ref_hash():
    h = hashlib.sha256()
    for dp, dn, fn in os.walk(REF):
        dn.sort()
        for f in sorted(fn):
            p = os.path.join(dp, f)
            h.update(os.path.relpath(p, REF).encode())
            h.update(open(p, 'rb').read())
    h.update(b'v3')
    return h.hexdigest()[:16]


def build_ref(fixed=False):
    """Frozen reference = source snapshot of the pinned commit, clang -O2, portable C (no RTCD / SIMD),
    no hooks.  All its global symbols are renamed with a prefix (ref_ / rfx_) so it can be linked into
    the same harness process as the library under test."""
    prefix = 'rfx_' if fixed else 'ref_'
    out = os.path.join(CACHE, 'ref-' + ref_hash(), 'fixed' if fixed else 'float')
    lib = os.path.join(out, 'libopusref.a')
    info = dict(lib=lib, prefix=prefix, dir=out)
    if os.path.exists(lib + '.ok'):
        return info
    tmp = out + '.tmp%d' % os.getpid()
    shutil.rmtree(tmp, ignore_errors=True)
    os.makedirs(os.path.join(tmp, 'obj'))
    os.makedirs(os.path.join(tmp, 'inc'))
    open(os.path.join(tmp, 'inc', 'config.h'), 'w').write('/* frozen reference build */\n')
    incs = include_flags(REF, fixed, os.path.join(tmp, 'inc'))
    defs = BASE_DEFS + ['-DENABLE_HARDENING'] + (['-DFIXED_POINT'] if fixed else [])
    jobs, objs = [], []
    for files, extra in source_lists(REF, fixed, rtcd=False):
        for f in files:
            o = os.path.join(tmp, 'obj', f.replace('/', '_')[:-2] + '.o')
            objs.append(o)
            jobs.append(['clang', '-O2', '-g', '-ffp-contract=off', '-w'] + defs + incs + ['-c', os.path.join(REF, f), '-o', o])
    # the RFC's own comparison tool, as a function
    o = os.path.join(tmp, 'obj', 'opus_compare.o')
    objs.append(o)
    jobs.append(['clang', '-O2', '-g', '-w', '-Dmain=opus_compare_main', '-c', os.path.join(REF, 'src', 'opus_compare.c'), '-o', o])
    _compile_all(jobs)
    r = _run(['ar', 'rcs', os.path.join(tmp, 'raw.a')] + objs)
    if r.returncode:
        raise BuildError(r.stdout.decode())
    nm = subprocess.run(['nm', '--defined-only', '-g', os.path.join(tmp, 'raw.a')], stdout=subprocess.PIPE).stdout.decode()
    syms = sorted(set(l.split()[2] for l in nm.splitlines() if len(l.split()) == 3))
    with open(os.path.join(tmp, 'syms.map'), 'w') as fh:
        for s in syms:
            fh.write('%s %s%s\n' % (s, prefix, s))
    r = _run(['objcopy', '--redefine-syms=' + os.path.join(tmp, 'syms.map'), os.path.join(tmp, 'raw.a'),
              os.path.join(tmp, 'libopusref.a')])
    if r.returncode:
        raise BuildError(r.stdout.decode())
    os.remove(os.path.join(tmp, 'raw.a'))
    shutil.rmtree(os.path.join(tmp, 'obj'))
    shutil.rmtree(out, ignore_errors=True)
    os.makedirs(os.path.dirname(out), exist_ok=True)
    try:
        os.rename(tmp, out)
    except OSError:
        shutil.rmtree(tmp, ignore_errors=True)
    open(lib + '.ok', 'w').write('ok\n')
    return info


# --------------------------------------------------------------------------
# harness build

def build_harness(src, libinfo, wraps=(), ref=None, extra_defs=(), extra_link=(), extra_srcs=(), tag=''):
    """Compile /verif/harness/<src> against libinfo's libopus.a.  ref: None | 'float' | 'fixed' | 'both'."""
    cc = libinfo['cc']
    srcs = [os.path.join(VERIF, 'harness', src)] + [os.path.join(VERIF, s) for s in extra_srcs]
    h = hashlib.sha256()
    for dp, dn, fn in os.walk(os.path.join(VERIF, 'harness')):
        for f in sorted(fn):
            h.update(open(os.path.join(dp, f), 'rb').read())
    for dp, dn, fn in os.walk(os.path.join(VERIF, 'oracles')):
        for f in sorted(fn):
            h.update(open(os.path.join(dp, f), 'rb').read())
    h.update(repr((wraps, ref, extra_defs, extra_link, extra_srcs, tag)).encode())
    exe = os.path.join(libinfo['dir'], 'h-%s-%s' % (os.path.splitext(os.path.basename(src))[0], h.hexdigest()[:12]))
    if os.path.exists(exe):
        return exe
    cflags = [f for f in libinfo['cflags'] if not f.startswith('-std=') and f != '-DNDEBUG' and not f.startswith('-D_FORTIFY')]
    cflags = [f.replace('fuzzer-no-link', 'fuzzer') if 'libfuzzer_main' in tag else f for f in cflags]
    cmd = [cc] + cflags + ['-w', '-std=gnu11'] + libinfo['defs'] + list(extra_defs) + libinfo['incs'] + \
          ['-I' + os.path.join(VERIF, 'harness'), '-I' + os.path.join(VERIF, 'oracles'),
           '-DVERIF_FLAVOUR="%s"' % libinfo['flavour']]
    cmd += srcs
    cmd += ['-Wl,--wrap=' + w for w in wraps]
    cmd += [libinfo['lib']]
    refs = []
    if ref in ('float', 'both'):
        refs.append(build_ref(False))
    if ref in ('fixed', 'both'):
        refs.append(build_ref(True))
    for r in refs:
        cmd.append(r['lib'])
    if ref:
        cmd.append('-DVERIF_HAVE_REF')
    if '-DVERIF_FUZZ' in extra_defs:
        # libFuzzer engine without its main(): the harness calls LLVMFuzzerRunDriver itself
        rt = subprocess.run([cc, '-print-file-name=libclang_rt.fuzzer_no_main-x86_64.a'], stdout=subprocess.PIPE).stdout.decode().strip()
        cmd += [rt, '-lstdc++']
    cmd += list(extra_link) + ['-lm', '-lpthread', '-o', exe + '.tmp%d' % os.getpid()]
    r = _run(cmd)
    if r.returncode:
        raise BuildError(' '.join(cmd) + '\n' + r.stdout.decode(errors='replace'))
    os.rename(exe + '.tmp%d' % os.getpid(), exe)
    return exe


# --------------------------------------------------------------------------
# running shards

SAN_ENV = {
    'ASAN_OPTIONS': 'abort_on_error=1:detect_leaks=0:halt_on_error=1:allocator_may_return_null=1:detect_stack_use_after_return=0',
    'UBSAN_OPTIONS': 'print_stacktrace=1:halt_on_error=1:abort_on_error=1',
    'TSAN_OPTIONS': 'halt_on_error=0:exitcode=66:report_signal_unsafe=0',
    'MSAN_OPTIONS': 'abort_on_error=1:halt_on_error=1',
}


class Agg:
    """Aggregated observations of one check run."""

    def __init__(self):
        self.counters = {}
        self.maxs = {}
        self.mins = {}
        self.sigs = set()
        self.named = {}
        self.samples = []
        self.viol = []       # (key, caseid, text, runspec)
        self.inconclusive = []
        self.evals = 0

    def feed(self, line, runspec):
        if not line:
            return
        t = line[0]
        rest = line[2:]
        try:
            if t == 'C':
                k, v = rest.split(' ', 1)
                self.counters[k] = self.counters.get(k, 0) + int(v)
            elif t == 'M':
                k, v = rest.split(' ', 1)
                self.maxs[k] = max(self.maxs.get(k, float('-inf')), float(v))
            elif t == 'm':
                k, v = rest.split(' ', 1)
                self.mins[k] = min(self.mins.get(k, float('inf')), float(v))
            elif t == 'S':
                for s in rest.split():
                    self.sigs.add(s)
            elif t == 'D':
                k, v = rest.rsplit(' ', 1)
                self.named[k] = self.named.get(k, 0) + int(v)
            elif t == 'E':
                if len(self.samples) < 12:
                    try:
                        self.samples.append(json.loads(rest))
                    except ValueError:
                        self.samples.append(rest)
            elif t == 'V':
                parts = rest.split(' ', 2)
                key, case = parts[0], parts[1]
                self.viol.append((key, case, parts[2] if len(parts) > 2 else '', runspec))
            elif t == 'N':
                self.evals += int(rest)
        except ValueError:
            pass


DEFAULT_TIMEOUT = {'quick': 2700, 'thorough': 14400}   # generous wall-clock watchdogs; verdicts never depend on them


def run_shards(exe, mode, seed, ncases, runspec, agg, nshards=None, timeout=900, env_extra=None, extra_args=()):
    """Run `exe mode seed start step count ...` over nshards processes."""
    nshards = nshards or NCPU
    nshards = max(1, min(nshards, ncases))
    rundir = os.path.join(CACHE, 'run', '%d-%s' % (os.getpid(), os.path.basename(exe)))
    shutil.rmtree(rundir, ignore_errors=True)
    os.makedirs(rundir)
    env = dict(os.environ)
    env.update(SAN_ENV)
    if env_extra:
        env.update(env_extra)
    procs = []
    for s in range(nshards):
        prog = os.path.join(rundir, 'progress.%d' % s)
        e = dict(env)
        e['VERIF_PROGRESS'] = prog
        so = open(os.path.join(rundir, 'out.%d' % s), 'wb')
        se = open(os.path.join(rundir, 'err.%d' % s), 'wb')
        cmd = [exe, mode, str(seed), str(s), str(nshards), str(ncases)] + list(extra_args)
        p = subprocess.Popen(cmd, stdout=so, stderr=se, env=e, cwd=rundir, start_new_session=True)
        procs.append((p, s, prog, so, se, cmd))
    env = env
    deadline = time.time() + timeout
    restarts = 0
    queue = list(procs)
    while queue:
        p, s, prog, so, se, cmd = queue.pop(0)
        hung = False
        fz_timeout = False
        try:
            p.wait(max(1, deadline - time.time()))
        except subprocess.TimeoutExpired:
            hung = True
            try:
                os.killpg(p.pid, signal.SIGKILL)
            except OSError:
                pass
            p.wait()
        so.close()
        se.close()
        for line in open(so.name, errors='replace'):
            agg.feed(line.rstrip('\n'), runspec)
        rc = p.returncode
        if '-DVERIF_FUZZ' in runspec.get('defs', ()):
            # libFuzzer's own statistics (stderr): coverage reached by this shard
            errtxt = open(se.name, errors='replace').read()
            mm = re.findall(r'#\d+\s+DONE\s+cov: (\d+) ft: (\d+) corp: (\d+)', errtxt)
            if mm:
                agg.feed('M libfuzzer_edges_covered_max_shard %s' % mm[-1][0], runspec)
                agg.feed('C libfuzzer_features_sum %s' % mm[-1][1], runspec)
                agg.feed('C libfuzzer_corpus_units_sum %s' % mm[-1][2], runspec)
            if 'libFuzzer: timeout' in errtxt:
                fz_timeout = True
        if hung or rc not in (0,):
            case = '?'
            try:
                case = open(prog).read().strip() or '?'
            except OSError:
                pass
            err = open(se.name, errors='replace').read()
            if fz_timeout:
                agg.viol.append(('hang', case, 'libFuzzer: one input ran for more than 600 s\n' + err[-3000:], runspec))
            elif hung:
                # a case that stopped advancing is a hang (a violation key like any other); a shard that was still
                # advancing from case to case when the time budget ran out (loaded machine) is inconclusive
                try:
                    idle = time.time() - os.path.getmtime(prog)
                except OSError:
                    idle = 1e9
                if idle > 600:
                    agg.viol.append(('hang', case, 'no progress for %ds at case %s when the %ds watchdog expired' % (idle, case, timeout), runspec))
                else:
                    agg.inconclusive.append('time budget of %ds exhausted while shard %d was still advancing (case %s); re-run on a less loaded machine' % (timeout, s, case))
            elif rc == 3:
                agg.inconclusive.append('harness error shard %d: %s' % (s, err[-2000:]))
            else:
                kind = classify_crash(rc, err)
                agg.viol.append(('crash:' + kind, case, err[-6000:], runspec))
                # the crashed case killed its shard: resume the shard after that case so one (possibly
                # known) crash does not mask the remaining cases
                m = re.match(r'.*:(\d+)$', case)
                if re.match(r'^[^:]+:\d+:\d+:[0-9a-f-]+$', case) and restarts < 4 * nshards and time.time() < deadline:
                    # libFuzzer shard: cannot resume; start a new one with a fresh libFuzzer seed (shard number beyond the others)
                    restarts += 1
                    cmd2 = list(cmd)
                    cmd2[3] = str(int(cmd[3]) % 1000 + 1000 * restarts)
                    e = dict(env)
                    e['VERIF_PROGRESS'] = prog
                    tag = '%d.r%d' % (s, restarts)
                    so2 = open(os.path.join(rundir, 'out.' + tag), 'wb')
                    se2 = open(os.path.join(rundir, 'err.' + tag), 'wb')
                    p2 = subprocess.Popen(cmd2, stdout=so2, stderr=se2, env=e, cwd=rundir, start_new_session=True)
                    queue.append((p2, s, prog, so2, se2, cmd2))
                elif m and restarts < 40 * nshards and time.time() < deadline:
                    restarts += 1
                    nxt = int(m.group(1)) + int(cmd[4])
                    agg.evals += max(0, (nxt - int(cmd[3])) // int(cmd[4]))
                    if nxt < int(cmd[5]):
                        cmd2 = list(cmd)
                        cmd2[3] = str(nxt)
                        e = dict(env)
                        e['VERIF_PROGRESS'] = prog
                        tag = '%d.r%d' % (s, restarts)
                        so2 = open(os.path.join(rundir, 'out.' + tag), 'wb')
                        se2 = open(os.path.join(rundir, 'err.' + tag), 'wb')
                        p2 = subprocess.Popen(cmd2, stdout=so2, stderr=se2, env=e, cwd=rundir, start_new_session=True)
                        queue.append((p2, s, prog, so2, se2, cmd2))
    shutil.rmtree(rundir, ignore_errors=True)


def crash_site(err):
    """First stack frame that lies in the code under test (/repo), as 'function'."""
    for m in re.finditer(r'#\d+ 0x[0-9a-f]+ in (\S+) (/\S+?):(\d+)', err):
        if m.group(2).startswith(REPO + '/') or '/ref/' in m.group(2):
            return m.group(1)
    m = re.search(r'^(/\S+?):(\d+):\d+: runtime error', err, re.M)
    if m:
        return os.path.basename(m.group(1))
    return 'unknown'


def classify_crash(rc, err):
    m = re.search(r'ERROR: AddressSanitizer: ([a-zA-Z0-9_-]+)', err)
    if m:
        return 'asan:' + m.group(1) + '@' + crash_site(err)
    if 'ThreadSanitizer' in err:
        m = re.search(r'WARNING: ThreadSanitizer: ([a-zA-Z ]+?) \(', err)
        return 'tsan:' + (m.group(1).replace(' ', '-') if m else 'report') + '@' + crash_site(err)
    if 'MemorySanitizer' in err:
        return 'msan@' + crash_site(err)
    m = re.search(r'runtime error: ([a-z -]+)', err)
    if m:
        return 'ubsan:' + m.group(1).strip().replace(' ', '-')[:40] + '@' + crash_site(err)
    m = re.search(r'Fatal \(internal\) error in ([^ ]+) line (\d+): (.*)', err)
    if m:
        return 'celt_fatal:' + os.path.basename(m.group(1)) + ':' + m.group(2)
    if '*** stack smashing' in err or 'buffer overflow detected' in err:
        return 'fortify'
    if rc < 0:
        return 'signal:%d' % (-rc)
    return 'exit:%d' % rc


# --------------------------------------------------------------------------
# known findings, evidence, verdict

def load_known():
    p = os.path.join(VERIF, 'known_findings.json')
    if not os.path.exists(p):
        return []
    return json.load(open(p))['findings']


def write_evidence(pid, tier, seed, level, coverage, assumptions, wall, nviol):
    evdir = os.path.join(VERIF, 'evidence')
    if os.environ.get('VERIF_NO_EVIDENCE'):
        evdir = os.path.join(CACHE, 'evidence-scratch')   # runs against seeded changes never touch committed evidence
    os.makedirs(evdir, exist_ok=True)
    ev = dict(property_id=pid, tier=tier, seed=seed, level=level, coverage=coverage,
              assumptions=assumptions, wall_s=round(wall, 2), violations=nviol)
    tmp = os.path.join(evdir, pid + '.json.tmp')
    json.dump(ev, open(tmp, 'w'), indent=1, sort_keys=True)
    os.rename(tmp, os.path.join(evdir, pid + '.json'))


def finish(pid, tier, seed, spec, agg, t0, extra_cov=None):
    """Turn aggregated observations into evidence + verdict.  Returns exit code."""
    known = [k for k in load_known() if k['property'] == pid and k.get('status') == 'known']
    os.makedirs(os.path.join(VERIF, 'replays'), exist_ok=True)
    real, known_hit = {}, {}
    for key, case, text, runspec in agg.viol:
        full = '%s:%s' % (pid, key)
        hit = None
        for k in known:
            if fnmatch.fnmatchcase(full, k['key']):
                hit = k
                break
        if hit:
            known_hit.setdefault(hit['key'], (hit, case, 0))
            h, c, n = known_hit[hit['key']]
            known_hit[hit['key']] = (h, c, n + 1)
        else:
            real.setdefault(full, []).append((case, text, runspec))
    for kk, (k, case, n) in sorted(known_hit.items()):
        print('KNOWN-FINDING: property=%s %s (%s; %d occurrence(s) this run, e.g. case %s)' % (pid, k['what'], k['key'], n, case))
    nontriv = len(agg.sigs)
    if spec.get('evals_counter'):
        # evaluations = number of oracle evaluations (one or several counters measured by the harnesses), so that it is the
        # population distinct_nontrivial is drawn from
        ec = spec['evals_counter']
        agg.evals = sum(agg.counters.get(k, 0) for k in ([ec] if isinstance(ec, str) else ec))
    cov = dict(evaluations=max(agg.evals, 0), distinct_nontrivial=nontriv, rule=spec['rule'],
               samples=agg.samples[:8] or ['(no sample emitted)'],
               counters=dict(sorted(agg.counters.items())),
               observed=dict(sorted(agg.named.items())),
               maxima=dict(sorted(agg.maxs.items())), minima=dict(sorted(agg.mins.items())),
               runs=spec.get('_runs_desc', []), known_findings_seen=sorted(known_hit),
               tree=spec.get('_tree'))
    if extra_cov:
        cov.update(extra_cov)
    code = 0
    msgs = []
    if real:
        code = 1
        for full, lst in sorted(real.items()):
            case, text, runspec = lst[0]
            rp = os.path.join(VERIF, 'replays', '%s-%s.json' % (pid, re.sub(r'[^A-Za-z0-9_.-]+', '_', full + '-' + case)[:150]))
            json.dump(dict(property=pid, key=full, case=case, occurrences=len(lst), detail=text, run=runspec,
                           seed=seed, tier=tier, replay='python3 verif.py replay ' + rp), open(rp, 'w'), indent=1)
            print('VIOLATION property=%s replay=%s' % (pid, rp))
            print('  key=%s case=%s occurrences=%d' % (full, case, len(lst)))
            for l in text.strip().splitlines()[:12]:
                print('  | ' + l)
    mins = spec.get('min_nontrivial', {}).get(tier, 2)
    if code == 0:
        if agg.inconclusive:
            code = 2
            msgs += agg.inconclusive
        elif nontriv < mins or agg.evals < 1:
            code = 2
            msgs.append('inconclusive: only %d distinct non-trivial cases observed (minimum %d)' % (nontriv, mins))
        for name, need in spec.get('min_counters', {}).get(tier, {}).items():
            if agg.counters.get(name, 0) < need and code == 0:
                code = 2
                msgs.append('inconclusive: counter %s=%d below required %d' % (name, agg.counters.get(name, 0), need))
    for m in msgs:
        print('INCONCLUSIVE: ' + m[:3000])
    cov['verdict'] = {0: 'held on what was observed', 1: 'violated', 2: 'inconclusive'}[code]
    write_evidence(pid, tier, seed, spec['level'], cov, spec['assumptions'], time.time() - t0, len(real))
    print('%s %s seed=%d: %s; evaluations=%d distinct_nontrivial=%d wall=%.1fs' % (
        pid, tier, seed, cov['verdict'], cov['evaluations'], nontriv, time.time() - t0))
    return code


# --------------------------------------------------------------------------
# checks

from checks import CHECKS  # noqa: E402


def do_check(pid, tier, seed):
    t0 = time.time()
    spec = dict(CHECKS[pid])
    agg = Agg()
    th = tree_hash()
    spec['_tree'] = th
    desc = []
    try:
        for run in spec['runs']:
            if tier not in run.get('tiers', ('quick', 'thorough')):
                continue
            n = run['n'][tier] if isinstance(run['n'], dict) else run['n']
            if n <= 0:
                continue
            if os.environ.get('VERIF_DEBUG_ONLY'):      # debugging aid (never used by registered commands): flavour[:mode] filter, case-count scale
                f = os.environ['VERIF_DEBUG_ONLY'].split(':')
                if f[0] != run['flavour'] or (len(f) > 1 and f[1] != run['mode']):
                    continue
                n = max(16, int(n * float(os.environ.get('VERIF_DEBUG_SCALE', '1'))))
            args = run.get('args', ())
            if isinstance(args, dict):
                args = args.get(tier, ())
            lib = build_lib(run['flavour'], th)
            exe = build_harness(run['h'], lib, wraps=tuple(run.get('wraps', ())), ref=run.get('ref'),
                                extra_defs=tuple(run.get('defs', ())), extra_link=tuple(run.get('link', ())),
                                extra_srcs=tuple(run.get('srcs', ())), tag=run.get('tag', ''))
            rs = dict(h=run['h'], flavour=run['flavour'], mode=run['mode'], wraps=list(run.get('wraps', ())),
                      ref=run.get('ref'), defs=list(run.get('defs', ())), link=list(run.get('link', ())),
                      srcs=list(run.get('srcs', ())), env=run.get('env', {}), args=list(args), n=n)
            t1 = time.time()
            run_shards(exe, run['mode'], seed, n, rs, agg, nshards=run.get('shards'),
                       timeout=run.get('timeout', {}).get(tier, DEFAULT_TIMEOUT[tier]) if isinstance(run.get('timeout'), dict) else run.get('timeout', DEFAULT_TIMEOUT[tier]),
                       env_extra=run.get('env'), extra_args=args)
            desc.append(dict(harness=run['h'], mode=run['mode'], flavour=run['flavour'], cases=n,
                             env=run.get('env', {}), wall_s=round(time.time() - t1, 1)))
    except BuildError as e:
        print('INCONCLUSIVE: build failed\n' + str(e)[-4000:])
        write_evidence(pid, tier, seed, spec['level'], dict(evaluations=0, distinct_nontrivial=0, rule=spec['rule'],
                       samples=[], verdict='inconclusive: build failed'), spec['assumptions'], time.time() - t0, 0)
        return 2
    spec['_runs_desc'] = desc
    return finish(pid, tier, seed, spec, agg, t0)


def do_replay(path):
    rp = json.load(open(path))
    run = rp['run']
    case = rp['case']
    m = re.match(r'^(\d+)$', case.split(':')[-1]) if case != '?' else None
    lib = build_lib(run['flavour'])
    exe = build_harness(run['h'], lib, wraps=tuple(run.get('wraps', ())), ref=run.get('ref'),
                        extra_defs=tuple(run.get('defs', ())), extra_link=tuple(run.get('link', ())),
                        extra_srcs=tuple(run.get('srcs', ())))
    env = dict(os.environ)
    env.update(SAN_ENV)
    env.update(run.get('env') or {})
    env.setdefault('VERIF_VERBOSE', '1')
    fz = re.match(r'^[^:]+:\d+:\d+:([0-9a-f-]+)$', case)
    if fz:
        cmd = [exe, run['mode'], str(rp['seed']), '0', '1', '1', 'input=' + fz.group(1)] + list(run.get('args', ()))
    elif m:
        idx = int(m.group(1))
        cmd = [exe, run['mode'], str(rp['seed']), str(idx), '1', str(idx + 1), '--only'] + list(run.get('args', ()))
    else:
        cmd = [exe, run['mode'], str(rp['seed']), '0', '1', str(run['n'])] + list(run.get('args', ()))
    print('+ ' + ' '.join(shlex.quote(c) for c in cmd))
    r = subprocess.run(cmd, env=env)
    return 1 if r.returncode != 0 else 0


def main(argv):
    if len(argv) < 2:
        print(__doc__)
        return 2
    cmd = argv[1]
    if cmd == 'setup':
        build_ref(False)
        build_ref(True)
        print('setup ok: frozen reference libraries built under', CACHE)
        return 0
    if cmd == 'build':
        print(build_lib(argv[2])['lib'])
        return 0
    if cmd == 'check':
        pid = argv[2]
        tier = os.environ.get('VERIF_TIER', 'quick')
        if '--tier' in argv:
            tier = argv[argv.index('--tier') + 1]
        seed = int(os.environ.get('VERIF_SEED', '1') or 1)
        if '--seed' in argv:
            seed = int(argv[argv.index('--seed') + 1])
        return do_check(pid, tier, seed)
    if cmd == 'replay':
        return do_replay(argv[2])
    print(__doc__)
    return 2


if __name__ == '__main__':
    sys.exit(main(sys.argv))
