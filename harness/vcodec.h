/* vcodec.h -- shared workload generators built on the public libopus API:
 *   - tracked encoder settings + random legal ctl changes (histories)
 *   - hostile structure-aware packet generator and mutators
 *   - a deterministic pool of real packet streams (all modes / bandwidths / durations / FEC / DTX)
 *   - standard <-> self-delimited framing conversion written from RFC 6716 Appendix B (uses rfc_framing.h)
 */
#ifndef VCODEC_H
#define VCODEC_H
#include "opus.h"
#include "opus_multistream.h"
#include "opus_projection.h"
#include "vcommon.h"
#include "rfc_framing.h"

#define VK_SET_FORCE_MODE_REQUEST 11002
#define VK_MODE_SILK 1000
#define VK_MODE_HYBRID 1001
#define VK_MODE_CELT 1002

static const int vk_rates[5]={8000,12000,16000,24000,48000};
static const int vk_apps[3]={OPUS_APPLICATION_VOIP,OPUS_APPLICATION_AUDIO,OPUS_APPLICATION_RESTRICTED_LOWDELAY};

/* ------------------------------------------------------------ tracked settings */
typedef struct { int app, bitrate, vbr, cvbr, complexity, bandwidth, max_bandwidth, force_channels, force_mode, fec, loss, dtx,
                 lsb_depth, pred_disabled, phase_inv_disabled, expert_dur, signal; } vk_encset;
static void vk_encset_default(vk_encset *s,int app){ s->app=app; s->bitrate=OPUS_AUTO; s->vbr=1; s->cvbr=1; s->complexity=9; s->bandwidth=OPUS_AUTO; s->max_bandwidth=OPUS_BANDWIDTH_FULLBAND; s->force_channels=OPUS_AUTO; s->force_mode=OPUS_AUTO; s->fec=0; s->loss=0; s->dtx=0; s->lsb_depth=24; s->pred_disabled=0; s->phase_inv_disabled=0; s->expert_dur=OPUS_FRAMESIZE_ARG; s->signal=OPUS_AUTO; }
static int vk_rand_bitrate(vc_rng *r,int ch){ int k=vc_below(r,10); if(k==0) return OPUS_AUTO; if(k==1) return OPUS_BITRATE_MAX; if(k==2) return vc_range(r,500,6000); if(k==3) return vc_range(r,200000,512000); if(k<7) return vc_range(r,6000,40000)*ch; return vc_range(r,16000,160000)*ch; }
/* Apply one random *legal* ctl; returns the ctl's return code. what!=NULL receives a short description. */
static int vk_enc_random_ctl(OpusEncoder *e,vk_encset *s,vc_rng *r,int ch,char *what,size_t wn){ int k=vc_below(r,16), v, ret=0; const char *nm="";
  switch(k){
  case 0: case 1: v=vk_rand_bitrate(r,ch); ret=opus_encoder_ctl(e,OPUS_SET_BITRATE(v)); s->bitrate=v; nm="bitrate"; break;
  case 2: v=vc_below(r,2); ret=opus_encoder_ctl(e,OPUS_SET_VBR(v)); s->vbr=v; nm="vbr"; break;
  case 3: v=vc_below(r,2); ret=opus_encoder_ctl(e,OPUS_SET_VBR_CONSTRAINT(v)); s->cvbr=v; nm="cvbr"; break;
  case 4: v=vc_below(r,11); ret=opus_encoder_ctl(e,OPUS_SET_COMPLEXITY(v)); s->complexity=v; nm="complexity"; break;
  case 5: v=vc_chance(r,1,3)?OPUS_AUTO:OPUS_BANDWIDTH_NARROWBAND+(int)vc_below(r,5); ret=opus_encoder_ctl(e,OPUS_SET_BANDWIDTH(v)); s->bandwidth=v; nm="bandwidth"; break;
  case 6: v=OPUS_BANDWIDTH_NARROWBAND+(int)vc_below(r,5); ret=opus_encoder_ctl(e,OPUS_SET_MAX_BANDWIDTH(v)); s->max_bandwidth=v; nm="max_bandwidth"; break;
  case 7: v=vc_chance(r,1,2)?OPUS_AUTO:1+(int)vc_below(r,ch); ret=opus_encoder_ctl(e,OPUS_SET_FORCE_CHANNELS(v)); s->force_channels=v; nm="force_channels"; break;
  case 8: v=vc_chance(r,1,3)?OPUS_AUTO:VK_MODE_SILK+(int)vc_below(r,3); ret=opus_encoder_ctl(e,VK_SET_FORCE_MODE_REQUEST,v); s->force_mode=v; nm="force_mode"; break;
  case 9: v=vc_below(r,3); ret=opus_encoder_ctl(e,OPUS_SET_INBAND_FEC(v)); s->fec=v; nm="fec"; break;
  case 10: v=vc_chance(r,1,3)?0:vc_below(r,101); ret=opus_encoder_ctl(e,OPUS_SET_PACKET_LOSS_PERC(v)); s->loss=v; nm="loss"; break;
  case 11: v=vc_below(r,2); ret=opus_encoder_ctl(e,OPUS_SET_DTX(v)); s->dtx=v; nm="dtx"; break;
  case 12: v=vc_range(r,8,24); ret=opus_encoder_ctl(e,OPUS_SET_LSB_DEPTH(v)); s->lsb_depth=v; nm="lsb_depth"; break;
  case 13: v=vc_below(r,2); ret=opus_encoder_ctl(e,OPUS_SET_PREDICTION_DISABLED(v)); s->pred_disabled=v; nm="pred_disabled"; break;
  case 14: v=vc_below(r,2); ret=opus_encoder_ctl(e,OPUS_SET_PHASE_INVERSION_DISABLED(v)); s->phase_inv_disabled=v; nm="phase_inv_disabled"; break;
  default: v=vc_chance(r,1,2)?OPUS_AUTO:(vc_chance(r,1,2)?OPUS_SIGNAL_VOICE:OPUS_SIGNAL_MUSIC); ret=opus_encoder_ctl(e,OPUS_SET_SIGNAL(v)); s->signal=v; nm="signal"; break;
  }
  if(what) snprintf(what,wn,"%s=%d",nm,v);
  return ret; }

/* frame sizes: index 0..8 = 2.5,5,10,20,40,60,80,100,120 ms */
static int vk_frame_samples(int Fs,int idx){ static const int num[9]={1,2,4,8,16,24,32,40,48}; return Fs/400*num[idx]; }

/* ------------------------------------------------------------ hostile packets */
static int vk_put_len(unsigned char *b,int s){ if(s<252){ b[0]=(unsigned char)s; return 1; } b[0]=(unsigned char)(252+(s&3)); b[1]=(unsigned char)((s-b[0])>>2); return 2; }
/* structure-aware random packet; sd: write self-delimited length as well. Framing is *mostly* valid. */
static int vk_hostile(vc_rng *r,unsigned char *b,int cap,int sd){
  int kind=vc_below(r,12); int len;
  if(kind==0){ len=vc_below(r,vc_chance(r,1,4)?(cap<1600?cap:1600):40); for(int i=0;i<len;i++) b[i]=vc_u32(r); return len; }
  int toc=vc_u32(r)&0xFF; int code=vc_below(r,4); toc=(toc&0xFC)|code; int pos=0; b[pos++]=toc;
  int maxM=5760/rfc_dur48(toc); int M=code==0?1:code<3?2:vc_range(r,vc_chance(r,1,20)?0:1,vc_chance(r,1,20)?maxM+1:maxM); if(M>63) M=63; int vbr=code==2; int P=0; int pad=0;
  if(code==3){ vbr=vc_u32(r)&1; P=vc_chance(r,1,3); b[pos++]=(M&63)|(vbr<<7)|(P<<6);
    if(P){ int n255=vc_chance(r,1,6)?vc_range(r,1,3):0; for(int i=0;i<n255;i++){ b[pos++]=255; pad+=254; } int last=vc_chance(r,1,4)?254:vc_below(r,255); b[pos++]=last; pad+=last; } }
  int sizes[64]; int tot=0; static const int bs[10]={0,1,2,3,8,30,100,251,252,400};
  int budget=cap-pos-pad-140; if(budget<0) budget=0;
  for(int i=0;i<M;i++){ sizes[i]=vc_chance(r,1,3)?bs[vc_below(r,10)]:vc_below(r,vc_chance(r,1,10)?1276:120); if(!vbr) sizes[i]=sizes[0]; if(tot+sizes[i]>budget) sizes[i]=0; tot+=sizes[i]; }
  if(!vbr&&M>0&&tot>budget){ for(int i=0;i<M;i++) sizes[i]=0; tot=0; }
  if(vbr) for(int i=0;i<M-1;i++) pos+=vk_put_len(b+pos,sizes[i]);
  if(sd&&M>0) pos+=vk_put_len(b+pos,sizes[M-1]);
  int hdr_end=pos;
  { /* payload styles: the range decoder maps byte extremes to symbol extremes, so low-entropy payloads (runs of
       0xFF / 0x00 after a short random prefix) reach extreme energies, pulse counts, gains and lags */
    int style=vc_below(r,8); static const unsigned char alpha[6]={0x00,0xFF,0x80,0x7F,0x01,0xFE}; int run=0; unsigned char rv=0; int prefix=vc_range(r,0,10);
    for(int i=0;i<tot&&pos<cap;i++){ unsigned char v;
      if(style<4||i<prefix&&style!=5) v=vc_u32(r);
      else if(style==4) v=0xFF; else if(style==5) v=alpha[vc_below(r,6)];
      else { if(run<=0){ run=vc_range(r,1,style==6?80:12); rv=vc_chance(r,1,2)?0xFF:(vc_chance(r,1,2)?0x00:(unsigned char)vc_u32(r)); } run--; v=rv; }
      b[pos++]=v; } }
  /* SILK/hybrid payloads: make first bytes look like plausible headers sometimes */
  for(int i=0;i<pad&&pos<cap;i++) b[pos++]=vc_chance(r,1,2)?0:vc_u32(r);
  if(vc_chance(r,1,12)&&pos>1) pos-=vc_below(r,pos<6?pos:6);
  /* cut inside the header, the last byte left looking like the first byte of a two-byte length / a padding-length continuation */
  if(vc_chance(r,1,12)&&hdr_end>1){ int cut=2+(int)vc_below(r,hdr_end-1); if(cut<pos) pos=cut; if(vc_chance(r,2,3)) b[pos-1]=(unsigned char)(252+vc_below(r,4)); }
  if(vc_chance(r,1,20)&&pos<cap-4) pos+=vc_below(r,4);
  return pos;
}
static int vk_mutate(vc_rng *r,unsigned char *b,int len,int cap){ if(len<1) return len; int k=vc_below(r,8);
  switch(k){ case 0: { int n=1+vc_below(r,4); for(int i=0;i<n;i++) b[vc_below(r,len)]^=1u<<vc_below(r,8); } break;
   case 1: len=1+vc_below(r,len); break;
   case 2: { int add=1+vc_below(r,16); for(int i=0;i<add&&len<cap;i++) b[len++]=vc_u32(r); } break;
   case 3: b[0]=vc_u32(r); break;
   case 4: b[0]=(b[0]&7)|(vc_below(r,32)<<3); break;
   case 5: { int a=vc_below(r,len), n=1+vc_below(r,len-a); for(int i=0;i<n;i++) b[a+i]=vc_u32(r); } break;
   case 6: b[0]^=4; break;
   default: { if(len>2){ int a=1+vc_below(r,len-1); b[a]=vc_chance(r,1,2)?0xFF:0x00; } } break; }
  return len; }

/* ------------------------------------------------------------ framing conversion (RFC 6716 Appendix B) */
/* standard packet -> self-delimited; returns new length or -1 if p is not a valid standard packet */
static int vk_to_selfdelim(const unsigned char *p,int len,unsigned char *out){ rfc_pkt m; rfc_parse(p,len,0,&m); if(!m.valid) return -1; int o=0; memcpy(out,p,m.payload_offset); o=m.payload_offset; o+=vk_put_len(out+o,m.sizes[m.count-1]); memcpy(out+o,p+m.payload_offset,len-m.payload_offset); return o+len-m.payload_offset; }
/* self-delimited packet at p (with trailing bytes of other streams) -> standard; *consumed = bytes of the sd packet */
static int vk_from_selfdelim(const unsigned char *p,int len,unsigned char *out,int *consumed){ rfc_pkt m; rfc_parse(p,len,1,&m); if(!m.valid) return -1; *consumed=m.consumed; int lf=(m.sizes[m.count-1]<252)?1:2; int hdr=m.payload_offset-lf; memcpy(out,p,hdr); memcpy(out+hdr,p+m.payload_offset,m.consumed-m.payload_offset); return hdr+m.consumed-m.payload_offset; }

/* ------------------------------------------------------------ pool of real packet streams */
#define VK_POOL_STREAMS 48
#define VK_POOL_PKTS 24
typedef struct { int Fs, ch, mode, bw, fidx, fec, dtx; int n; unsigned char *pkt[VK_POOL_PKTS]; int len[VK_POOL_PKTS]; opus_uint32 rng[VK_POOL_PKTS]; } vk_stream;
static vk_stream vk_pool[VK_POOL_STREAMS]; static int vk_pool_n=0;
static void vk_pool_init(void){ if(vk_pool_n) return; vc_rng r; vc_rng_seed(&r,0xB00C); static float in[5760*2]; unsigned char buf[4000];
  for(int s=0;s<VK_POOL_STREAMS;s++){ vk_stream *st=&vk_pool[s]; int err;
    int mode=VK_MODE_SILK+(s%3); int ch=1+((s/3)&1); int Fs=vk_rates[(s/6)%5]; if(s>=30) Fs=48000;
    int bw; int fidx;
    if(mode==VK_MODE_SILK){ bw=OPUS_BANDWIDTH_NARROWBAND+(int)vc_below(&r,3); fidx=2+(int)vc_below(&r,7); }
    else if(mode==VK_MODE_HYBRID){ bw=OPUS_BANDWIDTH_SUPERWIDEBAND+(int)vc_below(&r,2); fidx=2+(int)vc_below(&r,7); }
    else { static const int cb[4]={OPUS_BANDWIDTH_NARROWBAND,OPUS_BANDWIDTH_WIDEBAND,OPUS_BANDWIDTH_SUPERWIDEBAND,OPUS_BANDWIDTH_FULLBAND}; bw=cb[vc_below(&r,4)]; fidx=(int)vc_below(&r,9); }
    st->Fs=Fs; st->ch=ch; st->mode=mode; st->bw=bw; st->fidx=fidx; st->fec=(mode!=VK_MODE_CELT)&&(s&8); st->dtx=(s%11==10);
    OpusEncoder *e=opus_encoder_create(Fs,ch,OPUS_APPLICATION_AUDIO,&err); if(!e){ fprintf(stderr,"pool: encoder_create failed\n"); exit(3); }
    opus_encoder_ctl(e,VK_SET_FORCE_MODE_REQUEST,mode); opus_encoder_ctl(e,OPUS_SET_BANDWIDTH(bw)); opus_encoder_ctl(e,OPUS_SET_BITRATE(vc_range(&r,12000,96000)*ch));
    if(st->fec){ opus_encoder_ctl(e,OPUS_SET_INBAND_FEC(1)); opus_encoder_ctl(e,OPUS_SET_PACKET_LOSS_PERC(25)); }
    if(st->dtx) opus_encoder_ctl(e,OPUS_SET_DTX(1));
    if(s%7==3) opus_encoder_ctl(e,OPUS_SET_VBR(0));
    vc_siggen g; vs_init(&g,st->dtx?VS_SPEECHLIKE:(int)vc_below(&r,VS_NFINITE),Fs,ch,0.5f,1000+s); int fs=vk_frame_samples(Fs,fidx);
    st->n=0; for(int k=0;k<VK_POOL_PKTS;k++){ if(st->dtx&&k>6){ memset(in,0,sizeof(float)*fs*ch); } else vs_fill(&g,in,fs);
      /* mid-stream mode switch in some streams so transitions / redundancy frames are in the pool */
      if(s%5==4&&k==VK_POOL_PKTS/2){ int nm=VK_MODE_SILK+((mode-VK_MODE_SILK+1+(s&1))%3); opus_encoder_ctl(e,VK_SET_FORCE_MODE_REQUEST,nm); opus_encoder_ctl(e,OPUS_SET_BANDWIDTH(OPUS_AUTO)); }
      int len=opus_encode_float(e,in,fs,buf,vc_chance(&r,1,8)?vc_range(&r,10,80):1500); if(len<=0) continue; st->pkt[st->n]=(unsigned char*)malloc(len); memcpy(st->pkt[st->n],buf,len); st->len[st->n]=len; opus_encoder_ctl(e,OPUS_GET_FINAL_RANGE(&st->rng[st->n])); st->n++; }
    opus_encoder_destroy(e); }
  vk_pool_n=VK_POOL_STREAMS; }

#endif
