#!/usr/bin/env python3
"""Regenerate the rounds-2/3 seeded table in DESIGN.md between the SEEDED-TABLE markers."""
import subprocess, re
t = subprocess.check_output(['python3', '/verif/tools/seeded_table.py', 'CDEFGH']).decode()
p = '/verif/DESIGN.md'; s = open(p).read()
s = re.sub(r'<!-- SEEDED-TABLE-BEGIN -->.*?<!-- SEEDED-TABLE-END -->', '<!-- SEEDED-TABLE-BEGIN -->\n' + t + '<!-- SEEDED-TABLE-END -->', s, flags=re.S)
open(p, 'w').write(s)
t2 = subprocess.check_output(['python3', '/verif/tools/seeded_table.py', 'IJKL']).decode()
s = open(p).read()
s = re.sub(r'<!-- SEEDED-TABLE2-BEGIN -->.*?<!-- SEEDED-TABLE2-END -->', '<!-- SEEDED-TABLE2-BEGIN -->\n' + t2 + '<!-- SEEDED-TABLE2-END -->', s, flags=re.S)
open(p, 'w').write(s)
