#!/bin/sh
# soak_tier.sh <tier> <seeds...> : run every registered check of the given tier with the given VERIF_SEED values
# (scratch evidence, never the committed files); one verdict line per run in ./soak_<tier>.log, details of anything
# that is not "held" in ./soak_<tier>_fail.log.  Meant for `vp run -- nice -n 19 sh tools/soak_tier.sh thorough 5 6`.
tier=$1; shift
python3 verif.py setup > /dev/null 2>&1
for sd in "$@"; do
  for c in $(python3 -c "import json;print(' '.join(x['property_id'] for x in json.load(open('MANIFEST.json'))['checks']))"); do
    out=$(VERIF_SEED=$sd VERIF_NO_EVIDENCE=1 python3 verif.py check $c --tier $tier 2>&1 | grep -v "^WARNING" | grep -v "^KNOWN-FINDING" | tail -30 | cut -c1-600)
    echo "seed=$sd $c :: $(echo "$out" | tail -1)" >> soak_$tier.log
    echo "$out" | grep -q "held on what was observed" || { echo "---- seed=$sd $c" >> soak_${tier}_fail.log; echo "$out" >> soak_${tier}_fail.log; }
  done
done
echo "soak done $tier $@" >> soak_$tier.log
