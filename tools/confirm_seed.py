#!/usr/bin/env python3
"""confirm_seed.py <pending-dir> <property-id> <name> [--orig-root /tmp/wt_m_Cxx]

Independently confirm a seeded change produced by a sub-agent, in a fresh scratch worktree of /repo HEAD:
  1. unmodified tree: build, demo exits 0
  2. patch applies; build; the whole existing test suite passes
  3. demo exits non-zero with the patch
On success copies patch.diff, demo.c, build_demo.sh, NOTES.md to /verif/seeded/<name>/ and writes meta.json.
The scratch worktree (with its build output) is always removed.
"""
import sys, os, subprocess, shutil, json, re, time

def sh(cmd, cwd=None, timeout=3600):
    r = subprocess.run(cmd, shell=True, cwd=cwd, stdout=subprocess.PIPE, stderr=subprocess.STDOUT, timeout=timeout)
    return r.returncode, r.stdout.decode(errors='replace')

def main():
    pend, pid, name = sys.argv[1], sys.argv[2], sys.argv[3]
    orig = sys.argv[sys.argv.index('--orig-root') + 1] if '--orig-root' in sys.argv else None
    wt = '/tmp/wt_confirm_%d' % os.getpid()
    log = {}
    ok = False
    try:
        rc, out = sh('git -C /repo worktree add -q %s HEAD' % wt)
        assert rc == 0, out
        head = sh('git -C /repo rev-parse --short HEAD')[1].strip()
        cfg = 'cmake -G Ninja -B _build -DCMAKE_BUILD_TYPE=RelWithDebInfo -DCMAKE_C_FLAGS=-Wno-error -DOPUS_BUILD_TESTING=ON >/dev/null && cmake --build _build 2>&1 | tail -3'
        rc, out = sh(cfg, cwd=wt); assert rc == 0, out
        d = os.path.join(wt, 'mutation', 'X'); shutil.copytree(pend, d)   # two levels deep: some build scripts use ../..
        for f in os.listdir(d):
            if f == 'demo' or f.endswith('.o'):
                os.remove(os.path.join(d, f))
        bs = open(os.path.join(d, 'build_demo.sh')).read()
        if orig:
            bs = bs.replace(orig, wt)
        bs = re.sub(r'/tmp/wt_m_C\d+', wt, bs)
        open(os.path.join(d, 'build_demo.sh'), 'w').write(bs)
        dc = open(os.path.join(d, 'demo.c')).read()
        rc, out = sh('sh ./build_demo.sh', cwd=d); assert rc == 0, 'demo build (clean) failed: ' + out
        rc0, out0 = sh('./demo', cwd=d, timeout=900)
        log['demo_clean_exit'] = rc0; log['demo_clean_tail'] = out0[-600:]
        rc, out = sh('git apply --3way mutation/X/patch.diff || git apply mutation/X/patch.diff', cwd=wt)
        assert rc == 0, 'patch does not apply: ' + out
        log['patch_stat'] = sh('git diff --stat', cwd=wt)[1].strip()
        rc, out = sh('cmake --build _build 2>&1 | tail -3', cwd=wt); assert rc == 0, out
        t0 = time.time()
        rct, outt = sh('ctest --test-dir _build -j8 --timeout 1800 2>&1 | tail -12', cwd=wt, timeout=7200)
        log['ctest_tail'] = outt[-900:]; log['ctest_s'] = round(time.time() - t0)
        tests_pass = '100% tests passed' in outt
        rc, out = sh('sh ./build_demo.sh', cwd=d); assert rc == 0, 'demo build (patched) failed: ' + out
        rc1, out1 = sh('./demo', cwd=d, timeout=900)
        log['demo_patched_exit'] = rc1; log['demo_patched_tail'] = out1[-900:]
        ok = (rc0 == 0 and rc1 != 0 and tests_pass)
        log['confirmed'] = ok; log['repo_head'] = head; log['tests_pass_with_patch'] = tests_pass
    except AssertionError as e:
        log['error'] = str(e)[-1500:]
    finally:
        sh('git -C /repo worktree remove --force %s' % wt)
        shutil.rmtree(wt, ignore_errors=True)
        sh('git -C /repo worktree prune')
    print(json.dumps(log, indent=1))
    if ok:
        dst = os.path.join('/verif/seeded', name)
        os.makedirs(dst, exist_ok=True)
        for f in ['patch.diff', 'demo.c', 'build_demo.sh', 'NOTES.md'] + [x for x in os.listdir(pend) if x.endswith('.h')]:
            if os.path.exists(os.path.join(pend, f)):
                shutil.copy(os.path.join(pend, f), dst)
        meta = dict(property=pid, name=name, origin='independent sub-agent given only the property text and a scratch worktree',
                    needs_to_manifest='see NOTES.md', confirmation=log,
                    confirmed_by='tools/confirm_seed.py: clean demo exit 0; patch applied: ctest 100% pass, demo exit != 0',
                    detected_by=[])
        json.dump(meta, open(os.path.join(dst, 'meta.json'), 'w'), indent=1)
    return 0 if ok else 1

sys.exit(main())
