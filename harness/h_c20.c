/* C20 -- DTX sends bounded runs of tiny packets when inactive and resumes at once.
 * A history checker over the packet-length log of an encoder driven by a ground-truth activity schedule (loud, modulated,
 * speech-like bursts; gaps of exact digital silence; both aligned to packet boundaries), plus two decoders (DTX packets fed as
 * given / dropped and concealed).   Mode:  sched
 */
#include "vcodec.h"
/* frozen build of the same arithmetic, fed exactly like the tree decoders (linked when the run asks for it) */
#ifdef VERIF_HAVE_REF
#ifdef FIXED_POINT
#define RD(x) rfx_##x
#else
#define RD(x) ref_##x
#endif
OpusDecoder *RD(opus_decoder_create)(opus_int32,int,int*); int RD(opus_decode_float)(OpusDecoder*,const unsigned char*,opus_int32,float*,int,int); void RD(opus_decoder_destroy)(OpusDecoder*);
#endif
#ifndef C20_RESUME_DIST_DB
#define C20_RESUME_DIST_DB 15.0   /* a 5 ms block of resumed audio counts as off when it is less than this far (dB below the block level) from the frozen build's */
#define C20_RESUME_BADFRAC 0.10
#endif
#ifdef FIXED_POINT
#define ANALYSIS_CX 10
#else
#define ANALYSIS_CX 7
#endif

static double rms(const float *x,int n){ double s=0; for(int i=0;i<n;i++) s+=(double)x[i]*x[i]; return n?sqrt(s/n):0; }

static void mode_sched(void){
  vc_rng r; vc_case_rng(&r,20); int err; int Fs=VC_PICK(&r,vk_rates), ch=1+vc_below(&r,2), app=VC_PICK(&r,vk_apps); int cx=vc_chance(&r,1,2)?vc_range(&r,7,10):vc_range(&r,0,10);
  int fidx=vc_chance(&r,1,2)?3:vc_below(&r,9); int D48=vk_frame_samples(48000,fidx); double Dms=D48/48.0; int fs=vk_frame_samples(Fs,fidx);
  int dtx=vc_chance(&r,4,5); int vbr=vc_chance(&r,2,3); int bitrate=vc_chance(&r,1,6)?OPUS_AUTO:vc_range(&r,8000,64000)*ch; int fmode=vc_chance(&r,1,2)?OPUS_AUTO:VK_MODE_SILK+(int)vc_below(&r,3);
  int antiphase=(ch==2)&&vc_chance(&r,1,8);
  /* the DTX-off clause at its boundary: a bitrate of exactly (or just above) three bytes per frame, frames of 20 ms or less, DTX disabled */
  int boundary=0; if(Dms<=20&&vc_chance(&r,1,10)){ static const int off[6]={0,0,0,1,8,80}; bitrate=(int)(24*1000/Dms)+off[vc_below(&r,6)]; dtx=0; boundary=1; }
  int onset_q=vc_chance(&r,1,2)?0:(int)vc_range(&r,1,6);   /* eighths of the first active frame that are still digital silence */
  OpusEncoder *e=opus_encoder_create(Fs,ch,app,&err); opus_encoder_ctl(e,OPUS_SET_DTX(dtx)); opus_encoder_ctl(e,OPUS_SET_COMPLEXITY(cx)); opus_encoder_ctl(e,OPUS_SET_BITRATE(bitrate)); opus_encoder_ctl(e,OPUS_SET_VBR(vbr)); if(fmode!=OPUS_AUTO) opus_encoder_ctl(e,VK_SET_FORCE_MODE_REQUEST,fmode);
  if(vc_chance(&r,1,4)) opus_encoder_ctl(e,OPUS_SET_SIGNAL(OPUS_SIGNAL_VOICE));
  OpusDecoder *dA=opus_decoder_create(Fs,ch,&err), *dB=opus_decoder_create(Fs,ch,&err); OpusDecoder *fA=NULL,*fB=NULL; static float qA[5760*2], qB[5760*2];
#ifdef VERIF_HAVE_REF
  fA=RD(opus_decoder_create)(Fs,ch,&err); fB=RD(opus_decoder_create)(Fs,ch,&err);
#endif
  int analysis=(cx>=ANALYSIS_CX&&Fs>=16000);
  /* schedule in packets: alternating active / silent segments */
  int seg_len[16], seg_act[16]; int nseg=vc_range(&r,3,9); int act=1; long total=0;
  for(int s=0;s<nseg;s++){ double ms; int k=vc_below(&r,6); if(act) ms= k==0?vc_range(&r,0,200):vc_range(&r,300,2500); else ms= k==0?vc_range(&r,160,240): k==1?vc_range(&r,360,460): k==2?vc_range(&r,560,700): k==3?vc_range(&r,0,150): vc_range(&r,200,5000);
    int np=(int)(ms/Dms+0.5); if(s==0&&np<(int)(400/Dms)+1) np=(int)(400/Dms)+1; /* let the encoder and analysis settle on activity first */ seg_len[s]=np; seg_act[s]=act; total+=np; act=!act; if(total*Dms>14000){ nseg=s+1; break; } }
  vc_siggen g; vs_init(&g,VS_SPEECHLIKE,Fs,ch,0.6f,vc_next(&r)); static float in[5760*2], oA[5760*2], oB[5760*2]; unsigned char pk[1500]; int maxb=vc_chance(&r,1,6)?vc_range(&r,3,40):1500;
  /* budget: the DTX-off clause and "DTX packet" interpretation need >= 3 bytes per coded frame */
  double subms= Dms<=20?Dms:20; long br_eff= bitrate==OPUS_AUTO?(long)(60*1000/Dms+Fs*ch):bitrate; int nsub=(int)(Dms/subms+0.5); int budget_ok= maxb>=1500 /* small buffers make the encoder fall back to 1-2 byte 'conceal this' packets whatever the DTX setting: they are run for robustness but are outside the packet-size clauses */ && (boundary? br_eff*Dms/8000.0>=3.0 : br_eff*subms/8000.0>=4.0); (void)nsub; if(boundary) vc_count("dtx_off_cases_at_three_bytes_per_frame",1);
  char desc[260]; snprintf(desc,sizeof desc,"Fs=%d ch=%d app=%d cx=%d frame=%.1fms dtx=%d vbr=%d bitrate=%d mode=%d maxb=%d onset at %d/8 of a frame%s",Fs,ch,app,cx,Dms,dtx,vbr,bitrate,fmode,maxb,onset_q,antiphase?" antiphase":"");
  int run=0; /* consecutive <=2-byte packets */ double active_rms_in=0; long nact=0; int refresh_seen=0;
  for(int s=0;s<nseg;s++){ int first_dtx_at=-1; int act_now=seg_act[s]; double eA=0,eB=0,eI=0; long eN=0; long rblk=0, rbadA=0, rbadB=0;
    for(int k=0;k<seg_len[s];k++){
      if(act_now){ vs_fill(&g,in,fs); if(antiphase) for(int i=0;i<fs;i++) in[2*i+1]=-in[2*i]; if(k==0&&s>0&&onset_q>0){ /* activity resumes inside the frame, not at its start */ int z=fs*onset_q/8; memset(in,0,sizeof(float)*(size_t)z*ch); vc_count("onsets_inside_a_frame",1); } active_rms_in+=rms(in,fs*ch); nact++; } else { memset(in,0,sizeof(float)*fs*ch); g.t+=(double)fs/Fs; }
      int len=opus_encode_float(e,in,fs,pk,maxb); vc_count("packets",1); if(len<=0){ if(len==OPUS_BUFFER_TOO_SMALL&&!budget_ok) continue; vc_viol("encode-failed","encode returned %d (%s)",len,desc); goto out; }
      opus_int32 indtx=-1; opus_encoder_ctl(e,OPUS_GET_IN_DTX(&indtx)); int tiny=(len<=2);
      /* decoders */
      { int rA=opus_decode_float(dA,pk,len,oA,fs,0); int rB= tiny?opus_decode_float(dB,NULL,0,oB,fs,0):opus_decode_float(dB,pk,len,oB,fs,0); if(rA!=fs||rB!=fs){ vc_viol("decoder:duration","decoders returned %d / %d for a %d-sample packet (len %d) %s",rA,rB,fs,len,desc); goto out; }
        if(!act_now&&k*Dms>700&&dtx&&budget_ok){ double a=rms(oA,fs*ch), b=rms(oB,fs*ch); vc_max("gap_rms_fed",a); vc_max("gap_rms_concealed",b); if(a>0.02||b>0.02){ vc_viol("decoder:gap-not-silent","decoded level %.4f (DTX packets fed) / %.4f (concealed) %.0f ms into a silent gap (%s)",a,b,k*Dms,desc); goto out; } }
#ifdef VERIF_HAVE_REF
        if(fA&&fB){ RD(opus_decode_float)(fA,pk,len,qA,fs,0); if(tiny) RD(opus_decode_float)(fB,NULL,0,qB,fs,0); else RD(opus_decode_float)(fB,pk,len,qB,fs,0);
          if(act_now&&s>0&&!tiny&&k*Dms>=200){ int B=Fs/200; if(B>fs) B=fs; for(int b0=0;b0+B<=fs;b0+=B){ double sa=0,da=0,sb=0,db=0; for(int i=b0*ch;i<(b0+B)*ch;i++){ double x=qA[i], y=qB[i], u=oA[i]-x, v=oB[i]-y; sa+=x*x; sb+=y*y; da+=u*u; db+=v*v; } if(sa<1e-5*B*ch||sb<1e-5*B*ch) continue; rblk++; double th=pow(10,-C20_RESUME_DIST_DB/10); if(da>th*sa) rbadA++; if(db>th*sb) rbadB++; } } }
#endif
        if(act_now&&k*Dms>=400){ for(int i=0;i<fs*ch;i++){ eA+=(double)oA[i]*oA[i]; eB+=(double)oB[i]*oB[i]; eI+=(double)in[i]*in[i]; } eN+=fs; } }
      if(!dtx){ if(tiny&&budget_ok){ vc_viol("dtx-off:tiny-packet","DTX disabled but packet %d of segment %d (%s input) has %d byte(s) (%s)",k,s,act_now?"active":"silent",len,desc); goto out; } run=0; continue; }
      /* DTX enabled */
      if(tiny&&budget_ok){ run++; vc_count("dtx_packets",1); if(indtx!=1){ vc_viol("in-dtx:false-on-dtx-packet","OPUS_GET_IN_DTX=%d on a %d-byte packet (segment %d packet %d, %s)",indtx,len,s,k,desc); goto out; }
        if(act_now&&k>=1){ vc_viol(antiphase?"dtx-during-activity:antiphase":"dtx-during-activity","%d-byte packet %.0f ms into %s input (%s)",len,k*Dms,"active",desc); goto out; }
        if(act_now&&k==0){ vc_viol(antiphase?"resume:first-active-frame-dtx:antiphase":"resume:first-active-frame-dtx","first frame of renewed activity is a %d-byte DTX packet (%s)",len,desc); goto out; }
        if(!act_now&&first_dtx_at<0) first_dtx_at=k;
        if(run*Dms>=400+Dms-1e-6){ vc_viol("run:too-long","%d consecutive DTX packets = %.1f ms >= 400 ms + one frame (%s)",run,run*Dms,desc); goto out; } }
      else { if(run>0&&!act_now){ refresh_seen++; vc_count("refresh_packets",1); } run=0;
        if(act_now&&k==0&&s>0){ if(len<=2&&budget_ok){ /* handled above */ } if(indtx==1&&budget_ok&&seg_len[s-1]*Dms>250){ vc_viol(antiphase?"resume:in-dtx-on-active:antiphase":"resume:in-dtx-on-active","OPUS_GET_IN_DTX=1 on the first frame of renewed activity (len %d, %s)",len,desc); goto out; } vc_count("resumptions_checked",1); } }
      vc_sig3((uint64_t)(pk[0]>>3)|((uint64_t)tiny<<5)|((uint64_t)act_now<<6)|((uint64_t)indtx<<7),(uint64_t)fidx|((uint64_t)analysis<<4)|((uint64_t)dtx<<5)|((uint64_t)vbr<<6),(uint64_t)(Fs/8000)|((uint64_t)ch<<3)|((uint64_t)(cx/4)<<5)); }
    /* audio after the gap: over the part of an active segment from 400 ms on (at least 400 ms of it), decoded energy tracks the input */
    if(seg_act[s]&&s>0&&eN*1000.0/Fs>=400&&!antiphase&&br_eff>=12000*ch&&budget_ok&&eI>0){ double la=10*log10(eA/eI+1e-12), lb=10*log10(eB/eI+1e-12); vc_min("resumed_level_db_fed",la); vc_min("resumed_level_db_concealed",lb); vc_max("resumed_level_db_max",la>lb?la:lb); if(la<-12||lb<-12||la>6||lb>6){ vc_viol("decoder:no-audio-after-gap","decoded level %.1f dB (DTX packets fed) / %.1f dB (concealed) relative to the input over renewed activity (%s)",la,lb,desc); goto out; } vc_count("resumed_segments_checked",1); }
    /* audio after the gap, relative to the frozen build fed the same packets the same way: resumed audio is "normal" when it is what the pinned decoder produces */
    if(rblk>=20){ vc_count("resumed_blocks_compared_with_frozen_build",rblk); vc_max("resumed_fraction_of_blocks_off_frozen_build",(double)(rbadA>rbadB?rbadA:rbadB)/rblk); if(rbadA>C20_RESUME_BADFRAC*rblk||rbadB>C20_RESUME_BADFRAC*rblk){ vc_viol("decoder:resumed-audio-differs-from-frozen-build","from 200 ms into renewed activity %ld (DTX packets fed) / %ld (concealed) of %ld audible 5 ms blocks are less than %.0f dB away from what the frozen build decodes from the same packets (%s)",rbadA,rbadB,rblk,C20_RESUME_DIST_DB,desc); goto out; } vc_count("resumed_segments_compared_with_frozen_build",1); }
    /* start of DTX within a silent segment (generalised detector in charge: digital silence) */
    if(dtx&&!seg_act[s]&&analysis&&budget_ok&&s>0&&seg_len[s-1]*Dms>=400){ double need=200+2*Dms+1e-6; if(seg_len[s]*Dms>=need){ if(first_dtx_at<0){ vc_viol("start:no-dtx","no DTX packet in %.0f ms of digital silence (%s)",seg_len[s]*Dms,desc); goto out; } double st=first_dtx_at*Dms; vc_max("dtx_start_ms_after_silence_max",st-200); vc_min("dtx_start_ms_after_silence_min",st-200);
        if(st>200+Dms+1e-6){ vc_viol("start:late","first DTX packet starts %.1f ms after activity stopped, later than 200 ms + one frame (%.1f ms) (%s)",st,Dms,desc); goto out; } if(st<=200-Dms-1e-6){ vc_viol("start:early","first DTX packet starts %.1f ms after activity stopped, more than one frame (%.1f ms) before the 200 ms mark (%s)",st,Dms,desc); goto out; } vc_count("dtx_starts_checked",1); } }
    if(!seg_act[s]&&dtx&&budget_ok&&seg_len[s]*Dms>700+2*Dms&&first_dtx_at>=0&&!refresh_seen){ /* a long silent segment with DTX must have shown a refresh */ vc_viol("run:no-refresh","silent segment of %.0f ms with DTX packets but no refresh packet (%s)",seg_len[s]*Dms,desc); goto out; }
    refresh_seen=0; }
  if(vc_want_sample()) vc_sample("{\"mode\":\"sched\",\"config\":\"%s\",\"segments\":%d,\"packets\":%ld,\"analysis_in_charge\":%d}",desc,nseg,total,analysis);
out:
  opus_encoder_destroy(e); opus_decoder_destroy(dA); opus_decoder_destroy(dB);
#ifdef VERIF_HAVE_REF
  if(fA) RD(opus_decoder_destroy)(fA); if(fB) RD(opus_decoder_destroy)(fB);
#endif
}

int main(int argc,char **argv){
  static const vc_mode_t modes[]={{"sched",mode_sched},{0,0}};
  return vc_main(argc,argv,"C20",modes);
}
