/* C13 -- 16-bit, 24-bit and float PCM are interchangeable views of the same codec.
 * Modes:
 *   enc     three twin encoders fed v (int16), v*256 (int24), v/32768 (float), LSB depth <= 16, identical ctl histories
 *           (incl. expert frame durations shorter than the buffer): packets must be byte-identical; also surround / projection
 *   dec     three twin decoders (float, int16, int24) fed identical call sequences (received / lost / FEC, hostile packets,
 *           levels far above full scale): equal counts and final ranges, exact relations of vrel.h
 *   msdec   multistream decoders: the same relations per output channel
 *   proj    projection decoders: 16-bit and 24-bit outputs against the matrix product of the per-stream integer twins
 *           (saturating, never wrapping) and against the float output in the non-clipping regime
 */
#include "vcodec.h"
#include "vrel.h"
#ifdef FIXED_POINT
#define IS_FIXED 1
#else
#define IS_FIXED 0
#endif

/* ---------------------------------------------------------------- enc */
static const int dur_req[]={OPUS_FRAMESIZE_ARG,OPUS_FRAMESIZE_2_5_MS,OPUS_FRAMESIZE_5_MS,OPUS_FRAMESIZE_10_MS,OPUS_FRAMESIZE_20_MS,OPUS_FRAMESIZE_40_MS,OPUS_FRAMESIZE_60_MS,OPUS_FRAMESIZE_80_MS,OPUS_FRAMESIZE_100_MS,OPUS_FRAMESIZE_120_MS};
static void mode_enc(void){
  vc_rng r; vc_case_rng(&r,13); int err; int Fs=VC_PICK(&r,vk_rates), ch=1+vc_below(&r,2), app=VC_PICK(&r,vk_apps);
  OpusEncoder *e[3]; vk_encset set[3]; for(int i=0;i<3;i++){ e[i]=opus_encoder_create(Fs,ch,app,&err); vk_encset_default(&set[i],app); }
  int depth=vc_range(&r,8,16); for(int i=0;i<3;i++) opus_encoder_ctl(e[i],OPUS_SET_LSB_DEPTH(depth));
  int sig=vc_below(&r,VS_NFINITE); vc_siggen g; vs_init(&g,sig,Fs,ch,vc_chance(&r,1,6)?1.4f:(float)(0.05+0.9*vc_unit(&r)),vc_next(&r));
  int nframes=vc_range(&r,8,36); int fidx=vc_below(&r,9); int expert=0; int maxb=1500; char hist[420]; int ho=0; hist[0]=0;
  static float f[5760*2]; static opus_int16 s16[5760*2]; static opus_int32 s24[5760*2]; static float ff[5760*2]; static unsigned char pk[3][4000];
  for(int k=0;k<nframes;k++){
    if(k==0||vc_chance(&r,1,3)) for(int n=vc_range(&r,1,3);n>0;n--){ vc_rng rs=r; char w[40]; for(int i=0;i<3;i++){ vc_rng rc=rs; vk_enc_random_ctl(e[i],&set[i],&rc,ch,w,sizeof w); if(i==2) r=rc; } if(set[0].lsb_depth>16){ int d=vc_range(&r,8,16); for(int i=0;i<3;i++){ opus_encoder_ctl(e[i],OPUS_SET_LSB_DEPTH(d)); set[i].lsb_depth=d; } snprintf(w,sizeof w,"lsb_depth=%d",d); } if(ho<380) ho+=snprintf(hist+ho,sizeof hist-ho,"%s ",w); }
    if(vc_chance(&r,1,4)) fidx=vc_below(&r,9);
    if(vc_chance(&r,1,6)){ expert=vc_below(&r,10); for(int i=0;i<3;i++) opus_encoder_ctl(e[i],OPUS_SET_EXPERT_FRAME_DURATION(dur_req[expert])); if(ho<380) ho+=snprintf(hist+ho,sizeof hist-ho,"expert=%d ",expert); }
    if(vc_chance(&r,1,4)) maxb=vc_chance(&r,1,2)?vc_range(&r,2,200):1500;
    int fs=vk_frame_samples(Fs,fidx); if(expert&&vk_frame_samples(Fs,expert-1)>fs){ fs=vk_frame_samples(Fs,expert-1); }   /* buffer >= the fixed duration */
    vs_fill(&g,f,fs); for(int i=0;i<fs*ch;i++){ s16[i]=vc_f2s(f[i]); s24[i]=(opus_int32)s16[i]*256; ff[i]=s16[i]*(1.f/32768.f); }
    int l16=opus_encode(e[0],s16,fs,pk[0],maxb), l24=opus_encode24(e[1],s24,fs,pk[1],maxb), lf=opus_encode_float(e[2],ff,fs,pk[2],maxb); vc_count("enc_triples",1);
    opus_uint32 r16=0,r24=0,rf=0; opus_encoder_ctl(e[0],OPUS_GET_FINAL_RANGE(&r16)); opus_encoder_ctl(e[1],OPUS_GET_FINAL_RANGE(&r24)); opus_encoder_ctl(e[2],OPUS_GET_FINAL_RANGE(&rf));
    if(ho<380) ho+=snprintf(hist+ho,sizeof hist-ho,"[f%d b%d>%d] ",fidx,maxb,l16);
    if(l16!=l24||l16!=lf){ vc_viol(l16!=l24&&l16==lf?"enc:int24-differs":l16!=lf&&l16==l24?"enc:float-differs":"enc:lengths-differ","frame %d: opus_encode=%d opus_encode24=%d opus_encode_float=%d (Fs=%d ch=%d app=%d depth<=16 sig=%s) hist=%s",k,l16,l24,lf,Fs,ch,app,vs_names[sig],hist); break; }
    if(l16>0){ int d24=memcmp(pk[0],pk[1],l16)!=0, df=memcmp(pk[0],pk[2],l16)!=0; if(d24||df||r16!=r24||r16!=rf){ vc_viol(d24&&!df?"enc:int24-differs":df&&!d24?"enc:float-differs":"enc:packets-differ","frame %d: packets differ (int24 %d float %d) ranges %08x %08x %08x len %d toc %02x/%02x/%02x hist=%s",k,d24,df,r16,r24,rf,l16,pk[0][0],pk[1][0],pk[2][0],hist); break; }
      vc_sig3((uint64_t)(pk[0][0])|((uint64_t)expert<<8),(uint64_t)(Fs/4000)|((uint64_t)app<<5)|((uint64_t)depth<<8),(uint64_t)sig|((uint64_t)(l16<10)<<5)|((uint64_t)(expert&&vk_frame_samples(Fs,expert-1)<fs)<<6)); if(expert&&vk_frame_samples(Fs,expert-1)<fs) vc_count("enc_expert_shorter_than_buffer",1); }
  }
  if(vc_want_sample()) vc_sample("{\"mode\":\"enc\",\"Fs\":%d,\"ch\":%d,\"app\":%d,\"lsb_depth\":%d,\"signal\":\"%s\",\"history\":\"%s\"}",Fs,ch,app,depth,vs_names[sig],hist);
  for(int i=0;i<3;i++) opus_encoder_destroy(e[i]);
}

static void mode_encms(void){
  vc_rng r; vc_case_rng(&r,14); int err; int Fs=VC_PICK(&r,vk_rates), app=VC_PICK(&r,vk_apps); static const int fams[6]={0,1,255,3,-1,-1}; int fam=VC_PICK(&r,fams); int ch;
  /* fam -1: an explicit layout with a random permutation as mapping (e.g. {1,0}: the right channel of a coupled stream fed by input channel 0) */
  int streams,coupled; unsigned char map[255];
  if(fam==0) ch=vc_range(&r,1,2); else if(fam==1) ch=vc_range(&r,1,8); else if(fam==255) ch=vc_range(&r,1,6); else if(fam==-1){ streams=vc_range(&r,1,3); coupled=vc_below(&r,streams+1); ch=streams+coupled; for(int i=0;i<ch;i++) map[i]=(unsigned char)i; for(int i=ch-1;i>0;i--){ int j=vc_below(&r,i+1); unsigned char t=map[i]; map[i]=map[j]; map[j]=t; } } else { int o=vc_range(&r,1,3); ch=(o+1)*(o+1)+(vc_chance(&r,1,3)?2:0); }
  OpusMSEncoder *me[3]={0,0,0}; OpusProjectionEncoder *pe[3]={0,0,0};
  for(int i=0;i<3;i++){ if(fam==3) pe[i]=opus_projection_ambisonics_encoder_create(Fs,ch,3,&streams,&coupled,app,&err); else if(fam==-1) me[i]=opus_multistream_encoder_create(Fs,ch,streams,coupled,map,app,&err); else me[i]=opus_multistream_surround_encoder_create(Fs,ch,fam,&streams,&coupled,map,app,&err); if(!pe[i]&&!me[i]){ vc_viol("enc:create","create failed fam %d ch %d",fam,ch); return; }
    if(me[i]) opus_multistream_encoder_ctl(me[i],OPUS_SET_LSB_DEPTH(16)); else opus_projection_encoder_ctl(pe[i],OPUS_SET_LSB_DEPTH(16)); }
  vc_siggen g; vs_init(&g,fam==-1?VS_WHITE:(int)vc_below(&r,VS_NFINITE),Fs,ch,0.5f,vc_next(&r)); float *f=(float*)malloc(sizeof(float)*5760*ch), *ff=(float*)malloc(sizeof(float)*5760*ch); opus_int16 *s16=(opus_int16*)malloc(2*5760*ch); opus_int32 *s24=(opus_int32*)malloc(4*5760*ch); static unsigned char pk[3][8000];
  int fidx=vc_below(&r,9);
  for(int k=0;k<10;k++){ if(vc_chance(&r,1,3)){ int br=vc_range(&r,6000,64000)*ch, vbr=vc_below(&r,2), cx=vc_below(&r,11); for(int i=0;i<3;i++){ if(me[i]){ opus_multistream_encoder_ctl(me[i],OPUS_SET_BITRATE(br)); opus_multistream_encoder_ctl(me[i],OPUS_SET_VBR(vbr)); opus_multistream_encoder_ctl(me[i],OPUS_SET_COMPLEXITY(cx)); } else { opus_projection_encoder_ctl(pe[i],OPUS_SET_BITRATE(br)); opus_projection_encoder_ctl(pe[i],OPUS_SET_VBR(vbr)); opus_projection_encoder_ctl(pe[i],OPUS_SET_COMPLEXITY(cx)); } } }
    if(vc_chance(&r,1,4)) fidx=vc_below(&r,9); int fs=vk_frame_samples(Fs,fidx); vs_fill(&g,f,fs); for(int i=0;i<fs*ch;i++){ s16[i]=vc_f2s(f[i]); s24[i]=(opus_int32)s16[i]*256; ff[i]=s16[i]*(1.f/32768.f); }
    int l16,l24,lf; if(fam==3){ l16=opus_projection_encode(pe[0],s16,fs,pk[0],8000); l24=opus_projection_encode24(pe[1],s24,fs,pk[1],8000); lf=opus_projection_encode_float(pe[2],ff,fs,pk[2],8000); } else { l16=opus_multistream_encode(me[0],s16,fs,pk[0],8000); l24=opus_multistream_encode24(me[1],s24,fs,pk[1],8000); lf=opus_multistream_encode_float(me[2],ff,fs,pk[2],8000); }
    vc_count("encms_triples",1);
    int same=!(l16!=l24||l16!=lf||l16<=0||memcmp(pk[0],pk[1],l16)||memcmp(pk[0],pk[2],l16));
    /* the projection encoder mixes its input with a matrix product before coding; the products of the three sample formats differ by exact powers of two only, so
       the packets are identical as well (they were not before repair F27: opus_projection_encode24 ran the signal analysis on the 24-bit input read as 16-bit words) */
    if(fam==3){ vc_count(same?"projection_enc_triples_identical":"projection_enc_triples_different",1); if(!same){ vc_viol("enc:projection-packets-differ","projection encoder, %d channels, frame %d: lengths %d/%d/%d (16-bit / 24-bit / float) or bytes differ; 16-bit vs 24-bit %s, 16-bit vs float %s (Fs=%d fs=%d)",ch,k,l16,l24,lf,(l16==l24&&l16>0&&!memcmp(pk[0],pk[1],l16))?"equal":"differ",(l16==lf&&l16>0&&!memcmp(pk[0],pk[2],l16))?"equal":"differ",Fs,fs); break; } }
    else if(!same){ vc_viol("enc:multistream-packets-differ","family %d ch %d frame %d: lengths %d/%d/%d or bytes differ (Fs=%d fs=%d)",fam,ch,k,l16,l24,lf,Fs,fs); break; }
    vc_sig3((uint64_t)fam|((uint64_t)ch<<8),(uint64_t)fidx,(uint64_t)(Fs/4000)); }
  free(f); free(ff); free(s16); free(s24); for(int i=0;i<3;i++){ if(me[i]) opus_multistream_encoder_destroy(me[i]); if(pe[i]) opus_projection_encoder_destroy(pe[i]); }
}

/* ---------------------------------------------------------------- dec */
/* loud streams: float input up to +6 dBFS, so decoded audio exceeds full scale and the soft clipper works */
typedef struct { int n; unsigned char *pkt[64]; int len[64]; } lstream;
static void loud_stream(vc_rng *r,lstream *s,int *pFs,int *pch){ int err; int Fs=VC_PICK(r,vk_rates), ch=1+vc_below(r,2); *pFs=Fs; *pch=ch; OpusEncoder *e=opus_encoder_create(Fs,ch,VC_PICK(r,vk_apps),&err);
  opus_encoder_ctl(e,OPUS_SET_BITRATE(vc_range(r,12000,128000)*ch)); if(vc_chance(r,1,3)){ opus_encoder_ctl(e,OPUS_SET_INBAND_FEC(1)); opus_encoder_ctl(e,OPUS_SET_PACKET_LOSS_PERC(20)); }
  vc_siggen g; vs_init(&g,vc_below(r,VS_NFINITE),Fs,ch,vc_chance(r,2,3)?(float)(1.0+1.0*vc_unit(r)):(float)(0.1+0.8*vc_unit(r)),vc_next(r)); int fidx=vc_range(r,0,6); static float in[5760*2]; unsigned char buf[2000]; s->n=0; int nf=vc_range(r,8,40); int mode=OPUS_AUTO;
  for(int k=0;k<nf&&s->n<64;k++){ if(vc_chance(r,1,6)){ mode=vc_chance(r,1,3)?OPUS_AUTO:VK_MODE_SILK+(int)vc_below(r,3); opus_encoder_ctl(e,VK_SET_FORCE_MODE_REQUEST,mode); } if(vc_chance(r,1,8)) fidx=vc_range(r,0,6); int fs=vk_frame_samples(Fs,fidx); vs_fill(&g,in,fs); int len=opus_encode_float(e,in,fs,buf,1500); if(len<=0) continue; s->pkt[s->n]=vc_exact_copy(buf,len); s->len[s->n]=len; s->n++; }
  opus_encoder_destroy(e); }
static void lfree(lstream *s){ for(int i=0;i<s->n;i++) free(s->pkt[i]); }

static void mode_dec(void){
  vc_rng r; vc_case_rng(&r,15); int err; lstream s; int eFs,ech; loud_stream(&r,&s,&eFs,&ech);
  int Fs=vc_chance(&r,1,2)?eFs:VC_PICK(&r,vk_rates), ch=vc_chance(&r,2,3)?ech:1+(int)vc_below(&r,2);
  OpusDecoder *df=opus_decoder_create(Fs,ch,&err), *d16=opus_decoder_create(Fs,ch,&err), *d24=opus_decoder_create(Fs,ch,&err);
  int g=vc_chance(&r,1,2)?0:vc_range(&r,-3000,4000); if(g){ opus_decoder_ctl(df,OPUS_SET_GAIN(g)); opus_decoder_ctl(d16,OPUS_SET_GAIN(g)); opus_decoder_ctl(d24,OPUS_SET_GAIN(g)); }
  vr_clip clip; vr_clip_reset(&clip); static float of[5760*2]; static opus_int16 o16[5760*2], e16[5760*2], e16b[5760*2]; static opus_int32 o24[5760*2]; static unsigned char hb[2100]; int cap=Fs/25*3; long over=0,tot=0;
  for(int k=0;k<s.n;k++){
    int kind= vc_chance(&r,1,10)?1: vc_chance(&r,1,12)?2: vc_chance(&r,1,10)?3:0;    /* 0 received, 1 lost, 2 FEC then received, 3 hostile mutation of the packet */
    if(vc_chance(&r,1,40)){ opus_decoder_ctl(df,OPUS_RESET_STATE); opus_decoder_ctl(d16,OPUS_RESET_STATE); opus_decoder_ctl(d24,OPUS_RESET_STATE); vr_clip_reset(&clip); vc_count("dec_resets",1); }
    int fsz=opus_packet_get_nb_samples(s.pkt[k],s.len[k],Fs); if(fsz<=0||fsz>cap) continue;
    for(int pass=(kind==2?0:1);pass<2;pass++){ int fec=(pass==0); const unsigned char *p=s.pkt[k]; int l=s.len[k]; unsigned char *tmp=NULL;
      if(kind==1){ p=NULL; l=0; } if(kind==3){ memcpy(hb,s.pkt[k],s.len[k]); l=vk_mutate(&r,hb,s.len[k],2000); tmp=vc_exact_copy(hb,l); p=tmp; }
      int want=fsz; if(kind==3) want=cap; if(fec&&2*fsz<=cap&&vc_chance(&r,1,2)){ want=2*fsz; vc_count("dec_fec_calls_longer_than_the_packet",1); }   /* an FEC call bridging a gap longer than the packet */
      int rf=opus_decode_float(df,p,l,of,want,fec), r16=opus_decode(d16,p,l,o16,want,fec), r24=opus_decode24(d24,p,l,o24,want,fec); vc_count("dec_triples",1);
      if(rf<=0&&r16<=0&&r24<=0){ vc_count("dec_rejected_by_all",1); free(tmp); continue; }   /* error codes are not part of the relation */
      if(rf!=r16||rf!=r24){ vc_viol("dec:count-differs","call %d kind %d fec %d: float %d int16 %d int24 %d",k,kind,fec,rf,r16,r24); free(tmp); goto out; }
      if(rf>0){ opus_uint32 a=0,b=0,c=0; opus_decoder_ctl(df,OPUS_GET_FINAL_RANGE(&a)); opus_decoder_ctl(d16,OPUS_GET_FINAL_RANGE(&b)); opus_decoder_ctl(d24,OPUS_GET_FINAL_RANGE(&c)); if(a!=b||a!=c){ vc_viol("dec:range-differs","call %d: ranges %08x %08x %08x",k,a,b,c); free(tmp); goto out; }
        int n=rf*ch; int normal=(p!=NULL&&l>0&&!fec);
        if(!IS_FIXED){
          for(int i=0;i<n;i++){ int c24=vr_check24(of[i],o24[i]); if(c24<0){ vc_viol(c24==-1?"dec:int24-wraps":"dec:int24-relation","call %d kind %d: 24-bit sample %d is %d, float twin %.9g (x2^23=%.9g)",k,kind,i,o24[i],of[i],(double)of[i]*8388608.0); free(tmp); goto out; } if(fabsf(of[i])>1.f) over++; tot++; }
          if(normal){ vr_expect16(&clip,of,rf,ch,1,e16); for(int i=0;i<n;i++) if(o16[i]!=e16[i]){ vc_viol("dec:int16-relation","call %d (received): 16-bit sample %d (frame pos %d ch %d) is %d, expected %d = sat16(round(32768*softclip(%.9g)))",k,i,i/ch,i%ch,o16[i],e16[i],of[i]); free(tmp); goto out; } }
          else { /* concealment / FEC: rounded and saturated; either through the clipper or not */ vr_clip c2=clip; vr_expect16(&c2,of,rf,ch,0,e16); vr_expect16(&c2,of,rf,ch,1,e16b); int ma=1,mb=1; for(int i=0;i<n;i++){ if(o16[i]!=e16[i]) ma=0; if(o16[i]!=e16b[i]) mb=0; } if(!ma&&!mb){ vc_viol("dec:int16-relation:concealment","call %d kind %d fec %d: 16-bit output is neither sat16(round(32768*x)) nor the soft-clipped form of the float twin",k,kind,fec); free(tmp); goto out; } if(ma) vc_count("dec_concealment_hard_saturated",1); else { clip=c2; vc_count("dec_concealment_soft_clipped",1); } }
        } else { for(int i=0;i<n;i++){ if(o24[i]!=(opus_int32)o16[i]*256||of[i]!=o16[i]*(1.f/32768.f)){ vc_viol("dec:fixed-relation","call %d: int16 %d int24 %d float %.9g",k,o16[i],o24[i],of[i]); free(tmp); goto out; } tot++; } }
        vc_sig3((uint64_t)(s.pkt[k][0]>>3)|((uint64_t)kind<<5)|((uint64_t)fec<<8),(uint64_t)(Fs/8000)|((uint64_t)ch<<3)|((uint64_t)(g!=0)<<5),(uint64_t)(over>0)); }
      free(tmp); } }
  vc_count("dec_samples_checked",tot); vc_count("dec_samples_above_full_scale",over);
  if(vc_want_sample()) vc_sample("{\"mode\":\"dec\",\"Fs\":%d,\"ch\":%d,\"gain\":%d,\"packets\":%d,\"samples\":%ld,\"above_full_scale\":%ld}",Fs,ch,g,s.n,tot,over);
out:
  opus_decoder_destroy(df); opus_decoder_destroy(d16); opus_decoder_destroy(d24); lfree(&s);
}

/* ---------------------------------------------------------------- msdec */
static void mode_msdec(void){
  vc_rng r; vc_case_rng(&r,16); int err; int Fs=VC_PICK(&r,vk_rates); int fam=vc_chance(&r,1,2)?1:255; int ch=fam==1?vc_range(&r,1,8):vc_range(&r,1,5); int streams,coupled; unsigned char map[255];
  OpusMSEncoder *me=opus_multistream_surround_encoder_create(Fs,ch,fam,&streams,&coupled,map,OPUS_APPLICATION_AUDIO,&err); if(!me){ vc_viol("msdec:create","%d",err); return; }
  if(vc_chance(&r,1,3)&&ch>1) map[vc_below(&r,ch)]=255;   /* a muted output channel */
  OpusMSDecoder *df=opus_multistream_decoder_create(Fs,ch,streams,coupled,map,&err), *d16=opus_multistream_decoder_create(Fs,ch,streams,coupled,map,&err), *d24=opus_multistream_decoder_create(Fs,ch,streams,coupled,map,&err);
  opus_multistream_encoder_ctl(me,OPUS_SET_BITRATE(vc_range(&r,16000,64000)*ch));
  vc_siggen g; vs_init(&g,vc_below(&r,VS_NFINITE),Fs,ch,vc_chance(&r,2,3)?1.6f:0.4f,vc_next(&r)); int fs=vk_frame_samples(Fs,vc_range(&r,1,4));
  float *in=(float*)malloc(sizeof(float)*fs*ch), *of=(float*)malloc(sizeof(float)*fs*ch), *mono=(float*)malloc(sizeof(float)*fs); opus_int16 *o16=(opus_int16*)malloc(2*fs*ch); opus_int32 *o24=(opus_int32*)malloc(4*fs*ch); unsigned char buf[6000]; float mem[8]={0};
  for(int k=0;k<12;k++){ vs_fill(&g,in,fs); int len=opus_multistream_encode_float(me,in,fs,buf,6000); if(len<=0) break; int lost=vc_chance(&r,1,8); unsigned char *p=lost?NULL:vc_exact_copy(buf,len);
    int rf=opus_multistream_decode_float(df,p,lost?0:len,of,fs,0), r16=opus_multistream_decode(d16,p,lost?0:len,o16,fs,0), r24=opus_multistream_decode24(d24,p,lost?0:len,o24,fs,0); vc_count("msdec_triples",1);
    opus_uint32 a=0,b=0,c=0; opus_multistream_decoder_ctl(df,OPUS_GET_FINAL_RANGE(&a)); opus_multistream_decoder_ctl(d16,OPUS_GET_FINAL_RANGE(&b)); opus_multistream_decoder_ctl(d24,OPUS_GET_FINAL_RANGE(&c));
    if(rf!=fs||r16!=fs||r24!=fs||a!=b||a!=c){ vc_viol("msdec:count-or-range","frame %d: %d/%d/%d ranges %08x/%08x/%08x",k,rf,r16,r24,a,b,c); free(p); break; }
    int bad=0; for(int cc=0;cc<ch&&!bad;cc++){
      if(IS_FIXED){ for(int i=0;i<fs;i++) if(o24[i*ch+cc]!=(opus_int32)o16[i*ch+cc]*256||of[i*ch+cc]!=o16[i*ch+cc]*(1.f/32768.f)){ vc_viol("msdec:fixed-relation","channel %d sample %d",cc,i); bad=1; break; } continue; }
      for(int i=0;i<fs;i++){ mono[i]=of[i*ch+cc]; if(vr_check24(mono[i],o24[i*ch+cc])<0){ vc_viol("msdec:int24-relation","channel %d sample %d: %d vs float %.9g",cc,i,o24[i*ch+cc],mono[i]); bad=1; break; } } if(bad) break;
      if(!lost) opus_pcm_soft_clip(mono,fs,1,&mem[cc]);
      for(int i=0;i<fs;i++) if(o16[i*ch+cc]!=vr_sat16(mono[i])){ vc_viol(lost?"msdec:int16-relation:concealment":"msdec:int16-relation","family %d ch %d: channel %d (stream map %d) sample %d frame %d: 16-bit %d expected %d from float %.9g",fam,ch,cc,map[cc],i,k,o16[i*ch+cc],vr_sat16(mono[i]),of[i*ch+cc]); bad=1; break; } }
    free(p); if(bad) break; vc_sig3((uint64_t)fam|((uint64_t)ch<<8),(uint64_t)lost,(uint64_t)(Fs/8000)); }
  free(in); free(of); free(mono); free(o16); free(o24); opus_multistream_encoder_destroy(me); opus_multistream_decoder_destroy(df); opus_multistream_decoder_destroy(d16); opus_multistream_decoder_destroy(d24);
}

/* ---------------------------------------------------------------- proj */
static void mode_proj(void){
  vc_rng r; vc_case_rng(&r,17); int err; int Fs=VC_PICK(&r,vk_rates); int order=vc_range(&r,1,vc_chance(&r,1,3)?5:3); int ch=(order+1)*(order+1)+(vc_chance(&r,1,3)?2:0); int streams,coupled;
  OpusProjectionEncoder *pe=opus_projection_ambisonics_encoder_create(Fs,ch,3,&streams,&coupled,OPUS_APPLICATION_AUDIO,&err); if(!pe){ vc_viol("proj:create","order %d ch %d: %d",order,ch,err); return; }
  opus_int32 msz=0; opus_projection_encoder_ctl(pe,OPUS_PROJECTION_GET_DEMIXING_MATRIX_SIZE(&msz)); unsigned char *mt=(unsigned char*)malloc(msz); opus_projection_encoder_ctl(pe,OPUS_PROJECTION_GET_DEMIXING_MATRIX(mt,msz));
  int nin=streams+coupled; if(msz!=2*nin*ch){ vc_viol("proj:matrix-size","size %d expected %d",msz,2*nin*ch); free(mt); opus_projection_encoder_destroy(pe); return; }
  OpusProjectionDecoder *pf=opus_projection_decoder_create(Fs,ch,streams,coupled,mt,msz,&err), *p16=opus_projection_decoder_create(Fs,ch,streams,coupled,mt,msz,&err), *p24=opus_projection_decoder_create(Fs,ch,streams,coupled,mt,msz,&err);
  unsigned char idmap[255]; for(int i=0;i<nin;i++) idmap[i]=i; OpusMSDecoder *s16=opus_multistream_decoder_create(Fs,nin,streams,coupled,idmap,&err), *s24=opus_multistream_decoder_create(Fs,nin,streams,coupled,idmap,&err), *sf=opus_multistream_decoder_create(Fs,nin,streams,coupled,idmap,&err); int clipping_until=-1;
  if(!pf||!p16||!p24||!s16||!s24){ vc_viol("proj:create","decoder create failed %d",err); return; }
  int g=vc_chance(&r,2,3)?0:vc_range(&r,0,3000); if(g){ opus_projection_decoder_ctl(pf,OPUS_SET_GAIN(g)); opus_projection_decoder_ctl(p16,OPUS_SET_GAIN(g)); opus_projection_decoder_ctl(p24,OPUS_SET_GAIN(g)); opus_multistream_decoder_ctl(s16,OPUS_SET_GAIN(g)); opus_multistream_decoder_ctl(s24,OPUS_SET_GAIN(g)); opus_multistream_decoder_ctl(sf,OPUS_SET_GAIN(g)); }
  opus_projection_encoder_ctl(pe,OPUS_SET_BITRATE(vc_range(&r,24000,96000)*ch));
  float amp=vc_chance(&r,1,2)?0.99f:(float)(0.1+0.6*vc_unit(&r)); vc_siggen sg; vs_init(&sg,vc_chance(&r,1,2)?VS_MULTITONE:(int)vc_below(&r,VS_NFINITE),Fs,ch,amp,vc_next(&r)); int fs=vk_frame_samples(Fs,vc_range(&r,2,3));
  float *in=(float*)malloc(sizeof(float)*fs*ch), *of=(float*)malloc(sizeof(float)*fs*ch); opus_int16 *o16=(opus_int16*)malloc(2*fs*ch), *x16=(opus_int16*)malloc(2*fs*nin); opus_int32 *o24=(opus_int32*)malloc(4*fs*ch), *x24=(opus_int32*)malloc(4*fs*nin); float *xf=(float*)malloc(sizeof(float)*fs*nin); unsigned char buf[12000]; long sat=0,exactn=0; double maxdev=0;
  for(int k=0;k<10;k++){ vs_fill(&sg,in,fs); if(amp>0.9f) for(int i=0;i<fs*ch;i++) in[i]=amp*((in[i]>0)-(in[i]<0))*(float)fmin(1.0,fabs(in[i])*6);   /* near-full-scale in every channel */
    int len=opus_projection_encode_float(pe,in,fs,buf,12000); if(len<=0) break; int lost=vc_chance(&r,1,10); unsigned char *p=lost?NULL:vc_exact_copy(buf,len); int l=lost?0:len;
    int rf=opus_projection_decode_float(pf,p,l,of,fs,0), r16=opus_projection_decode(p16,p,l,o16,fs,0), r24=opus_projection_decode24(p24,p,l,o24,fs,0), q16=opus_multistream_decode(s16,p,l,x16,fs,0), q24=opus_multistream_decode24(s24,p,l,x24,fs,0); opus_multistream_decode_float(sf,p,l,xf,fs,0); vc_count("proj_frames",1);
    /* is the 16-bit path soft-clipping a stream in this frame?  Mirror the per-stream clip memories exactly (the library's clipper on copies of the
       per-stream float output, received frames only: concealment leaves the memory alone, so it can survive a lost frame) */
    { static float pmem[64]; static float col[5760]; if(k==0) memset(pmem,0,sizeof pmem); int active=0; for(int c2=0;c2<nin;c2++) if(pmem[c2]!=0) active=1; for(int i=0;i<fs*nin;i++) if(!(fabsf(xf[i])<=1.f)){ active=1; break; }
      if(!lost) for(int c2=0;c2<nin&&c2<64;c2++){ for(int i=0;i<fs;i++) col[i]=xf[i*nin+c2]; opus_pcm_soft_clip(col,fs,1,&pmem[c2]); }
      clipping_until= active?k:-1; }
    if(rf!=fs||r16!=fs||r24!=fs||q16!=fs||q24!=fs){ vc_viol("proj:count","frame %d: %d %d %d %d %d",k,rf,r16,r24,q16,q24); free(p); break; }
    int bad=0; for(int i=0;i<fs&&!bad;i++) for(int row=0;row<ch;row++){ long long W=0; int S=0; int partial_out=0; long long W24=0; int clipreg=0;
        for(int col=0;col<nin;col++){ int m=(short)(mt[2*(col*ch+row)]|(mt[2*(col*ch+row)+1]<<8)); long long t=((long long)m*x16[i*nin+col]+16384)>>15; W+=t; long long s1=(long long)S+t; if(s1>32767||s1<-32768) partial_out=1; S=(int)(s1>32767?32767:s1<-32768?-32768:s1); W24+=((long long)m*x24[i*nin+col]+16384)>>15; if(x16[i*nin+col]==32767||x16[i*nin+col]==-32768) clipreg=1; }
        int got=o16[i*ch+row]; int satW=(int)(W>32767?32767:W<-32768?-32768:W);
        if(!partial_out){ if(got!=W){ vc_viol("proj:int16-product","order %d ch %d frame %d sample %d row %d: 16-bit output %d, matrix product of the per-stream 16-bit samples %lld",order,ch,k,i,row,got,W); bad=1; break; } exactn++; }
        else { sat++; int lo=S<satW?S:satW, hi=S>satW?S:satW; if(got<lo||got>hi){ vc_viol((W>32767&&got<0)||(W<-32768&&got>0)||llabs((long long)got-satW)>30000?"proj:int16-wraps":"proj:int16-saturation","order %d ch %d frame %d sample %d row %d: 16-bit output %d, wide sum %lld (saturating accumulate gives %d, saturate-at-end %d)",order,ch,k,i,row,got,W,S,satW); bad=1; break; } }
        if(W24<2147483647LL&&W24>-2147483648LL){ if(o24[i*ch+row]!=(opus_int32)W24){ vc_viol("proj:int24-product","order %d frame %d sample %d row %d: 24-bit output %d, product of per-stream 24-bit samples %lld",order,k,i,row,o24[i*ch+row],W24); bad=1; break; } }
        if(!IS_FIXED&&!partial_out&&!clipreg&&clipping_until<0&&!lost){ double dev=fabs((double)got-32768.0*of[i*ch+row]); if(dev>maxdev) maxdev=dev; if(dev>nin+2){ vc_viol("proj:int16-vs-float","order %d frame %d sample %d row %d: 16-bit %d vs 32768 x float %.9g differ by %.2f LSB (bound %d)",order,k,i,row,got,32768.0*of[i*ch+row],dev,nin+2); bad=1; break; } } }
    free(p); if(bad) break; vc_sig3((uint64_t)order|((uint64_t)ch<<4),(uint64_t)(sat>0)|((uint64_t)lost<<1)|((uint64_t)(g>0)<<2),(uint64_t)(Fs/8000)); }
  vc_count("proj_samples_exact_product",exactn); vc_count("proj_samples_saturating",sat); vc_max("proj_int16_vs_float_max_lsb",maxdev);
  if(vc_want_sample()) vc_sample("{\"mode\":\"proj\",\"order\":%d,\"channels\":%d,\"streams\":%d,\"coupled\":%d,\"amp\":%g,\"gain\":%d,\"saturating_samples\":%ld}",order,ch,streams,coupled,amp,g,sat);
  free(in); free(of); free(o16); free(x16); free(o24); free(x24); free(xf); free(mt); opus_projection_encoder_destroy(pe); opus_projection_decoder_destroy(pf); opus_projection_decoder_destroy(p16); opus_projection_decoder_destroy(p24); opus_multistream_decoder_destroy(s16); opus_multistream_decoder_destroy(s24); opus_multistream_decoder_destroy(sf);
}

int main(int argc,char **argv){
  static const vc_mode_t modes[]={{"enc",mode_enc},{"encms",mode_encms},{"dec",mode_dec},{"msdec",mode_msdec},{"proj",mode_proj},{0,0}};
  return vc_main(argc,argv,"C13",modes);
}
