"""Check specifications: which harness/mode/flavour runs make up each property's check.

Each run: h (harness source), mode, flavour, n (cases per tier), optional args/env/wraps/ref/defs.
`rule` describes how cases are generated and what counts as a distinct non-trivial case (the
harness computes the signatures; verif.py only unions and counts them).
"""

COMMON_ASSUME = [
    "claims cover only the executions this run produced (counts above); paths the workloads did not drive are not covered",
    "sanitizers see only what executes: ASan red zones miss intra-object overflows",
]

CHECKS = {}

CHECKS['C06'] = dict(
    level='exploration',
    rule="sweep: for every (TOC byte, framing) a bounded exhaustive enumeration of header shapes (count byte, "
         "length-byte classes, padding chains, fill byte, every total length 0..lmax plus boundary lengths) is pushed "
         "through opus_packet_parse_impl and the independent RFC 6716 model; random: structure-aware and raw random "
         "byte strings through parse_impl (both framings), opus_packet_parse, the header helpers and opus_decode. "
         "A case is non-trivial/distinct by signature (accept|reject, code, framing, frame count, CBR/VBR, padding "
         "present, size classes of first/last frame, payload offset, frame duration).",
    assumptions=COMMON_ASSUME + ["oracles/rfc_framing.h is a faithful transcription of RFC 6716 section 3 + Appendix B (trusted base)"],
    evals_counter='parser_calls',
    runs=[
        dict(h='h_c06.c', mode='helpers', flavour='asan', n=1, shards=1),
        dict(h='h_c06.c', mode='sweep', flavour='asan', n=512, args={'quick': ['lmax=300'], 'thorough': ['lmax=1600']}),
        dict(h='h_c06.c', mode='random', flavour='asan', n={'quick': 20000, 'thorough': 600000}),
    ],
    min_nontrivial={'quick': 500, 'thorough': 500},
)

CHECKS['C08'] = dict(
    level='exploration',
    rule="seq: random operation sequences (ec_encode, ec_encode_bin, bit_logp, icdf, icdf16, uint up to 2^32-1, raw bits 1..25, "
         "shrink, initial-bit patching) of length 1..4000 into buffers of 1..1275 bytes biased to nearly-full, with skewed "
         "symbol choices forcing carry chains; each finished-without-error stream is decoded by mirrored calls. Distinct = "
         "(set of op kinds used, remaining-space class, patched, shrunk, skew, buffer-size class, length class). tellfrac: "
         "the fast ec_tell_frac against the iterative reference for all 2^15 top-16-bit range values x every ilog 24..32 "
         "(exhaustive over the value classes the function distinguishes).",
    assumptions=COMMON_ASSUME + ["operation parameters stay inside each function's documented precondition"],
    evals_counter='sequences',
    runs=[
        dict(h='h_c08.c', mode='tellfrac', flavour='asan', n=9),
        dict(h='h_c08.c', mode='seq', flavour='asan', n={'quick': 40000, 'thorough': 1250000}),
    ],
    min_nontrivial={'quick': 300, 'thorough': 300},
    min_counters={'quick': {'sequences_ok': 50000, 'patched_ok': 100, 'shrunk_ok': 100}, 'thorough': {'sequences_ok': 1000000}},
)

CHECKS['C01'] = dict(
    level='exploration',
    rule="Each case is a decoder (random Fs, channels / multistream layout / projection matrix) driven through a seeded "
         "history of 1..60 calls mixing real encoder packets (all modes incl. transitions, LBRR, DTX), mutated real packets, "
         "structure-aware hostile packets (all codes, boundary lengths, padding chains), raw random bytes, NULL/0 loss "
         "calls, FEC calls, reset and gain extremes, through float/int16/int24 entry points with frame_size from 0 to 1 s "
         "incl. undersized and non-2.5ms-multiple values; packet inspectors run on exact-size copies. Distinct non-trivial = "
         "signature (call kind, API, outcome class, model-valid framing, channels, TOC config+code, Fs, frame_size class, "
         "has-history). climb: value-guided (1+1) search that mutates a packet to maximise the decoder's peak output, "
         "reaching symbol extremes random payloads do not (counted in climb_extreme_gain_reached).",
    assumptions=COMMON_ASSUME + ["oracles/rfc_framing.h decides which packets have valid framing (duration rule)",
                                 "termination is observed as bounded running time (watchdog), not proved"],
    evals_counter=['decode_calls', 'ms_decode_calls', 'climb_decodes'],
    runs=[
        dict(h='h_c01.c', mode='single', flavour='asan', n={'quick': 14000, 'thorough': 300000}),
        dict(h='h_c01.c', mode='ms', flavour='asan', n={'quick': 6000, 'thorough': 120000}),
        dict(h='h_c01.c', mode='climb', flavour='asan', n={'quick': 1600, 'thorough': 40000}, args=['iters=400']),
        dict(h='h_c01.c', mode='single', flavour='asan-fixed', n={'quick': 6000, 'thorough': 150000}),
        dict(h='h_c01.c', mode='ms', flavour='asan-fixed', n={'quick': 2000, 'thorough': 50000}),
        dict(h='h_c01.c', mode='single', flavour='asan', n={'quick': 2000, 'thorough': 60000}, args=['cap=0']),
        dict(h='h_c01.c', mode='single', flavour='asan', n={'quick': 2000, 'thorough': 60000}, args=['cap=2']),
        # MemorySanitizer: a decode path that reads memory it never wrote (the twin-memory monitor of C12 sees such a read
        # only when it changes the output)
        dict(h='h_c01.c', mode='single', flavour='msan', n={'quick': 1600, 'thorough': 40000}),
        dict(h='h_c01.c', mode='ms', flavour='msan', n={'quick': 640, 'thorough': 16000}),
    ],
    min_nontrivial={'quick': 1500, 'thorough': 3000},
)

CHECKS['C02'] = dict(
    level='exploration',
    rule="Each case is an encoder (random Fs, channels, application) driven through 8..40 frames with random legal ctl "
         "changes between frames (bitrate incl. AUTO/MAX, VBR/CVBR, complexity, bandwidth, max bandwidth, forced channels, "
         "forced mode, FEC, loss, DTX, LSB depth, prediction, phase inversion, signal type), frame durations 2.5..120 ms, "
         "max_data_bytes 1..4000, float/int16/int24 input from 18 signal families incl. NaN/Inf/1e30/denormals. Every packet "
         "is checked against the RFC framing model and decoded by a tree decoder at the encoder's rate, a tree decoder at "
         "another rate/channel count and the frozen reference decoder; durations and final ranges must match. ms: surround "
         "families 0/1/255, ambisonics family 2 and projection family 3 with per-stream split. Distinct non-trivial = (TOC "
         "config+stereo+code, frame count class, API, range==0, Fs, application, length class, buffer-filled, signal family, "
         "VBR/FEC/DTX flags).",
    assumptions=COMMON_ASSUME + ["'frozen RFC 6716 reference decoder' = /verif/ref source snapshot of the pinned commit b5b845fb built with clang, portable C; conformance defects already in that commit are invisible",
                                 "oracles/rfc_framing.h decides packet validity"],
    evals_counter=['encode_calls', 'ms_encode_calls'],
    runs=[
        dict(h='h_c02.c', mode='single', flavour='asan', ref='float', n={'quick': 1600, 'thorough': 40000}),
        dict(h='h_c02.c', mode='ms', flavour='asan', ref='float', n={'quick': 500, 'thorough': 12000}),
        dict(h='h_c02.c', mode='single', flavour='fuzzing', ref='float', n={'quick': 800, 'thorough': 20000}, defs=['-DFUZZING']),
        dict(h='h_c02.c', mode='single', flavour='asan-fixed', ref='float', n={'quick': 600, 'thorough': 20000}),
        dict(h='h_c02.c', mode='single', flavour='asan', ref='float', n={'quick': 300, 'thorough': 10000}, args=['cap=0']),
        dict(h='h_c02.c', mode='single', flavour='asan', ref='float', n={'quick': 300, 'thorough': 10000}, args=['cap=3']),
        dict(h='h_c02.c', mode='single', flavour='asan-fixed', ref='float', n={'quick': 300, 'thorough': 10000}, args=['cap=1']),
    ],
    min_nontrivial={'quick': 1500, 'thorough': 3000},
    min_counters={'quick': {'packets_with_range': 20000}, 'thorough': {'packets_with_range': 500000}},
)

CHECKS['C05'] = dict(
    level='exploration',
    rule="cbr: encoder histories (random Fs/channels/application; bitrate 1..512000 + AUTO/MAX, VBR/CBR toggles, mode/bandwidth/"
         "FEC/complexity/forced-channel changes between frames; frame 2.5..120 ms; max_data_bytes 1..4000 dense at 1..64 and "
         "1268..1282; 14 signal families) with guarded output buffers; every CBR packet compared with the byte-count model "
         "clip(round(b*dur/8),1,min(max_data_bytes,1276)), b resolved by the harness from the documented AUTO/MAX rules; every "
         "packet also RFC-validated and decoded (final range). cbrms: surround/ambisonics/projection CBR totals. cvbr: 10 s "
         "constrained-VBR streams, whole-stream and 3 s sliding-window average vs target. Distinct = (frame duration, Fs, channels, "
         "bitrate kind, size-clipped-high/low, DTX, tiny buffer, TOC config, length class).",
    assumptions=COMMON_ASSUME + ["CVBR tolerances are the committed constants in calib/c05.json (measured on the pinned tree), one TOC byte per packet is not charged to the rate target",
                                 "multistream CBR total is accepted as floor or round of bitrate*duration/8 (both equal for the exact cases)"],
    evals_counter=['encode_calls', 'ms_encode_calls', 'cvbr_streams'],
    runs=[
        dict(h='h_c05.c', mode='cbr', flavour='asan', n={'quick': 2400, 'thorough': 60000}),
        dict(h='h_c05.c', mode='cbrms', flavour='asan', n={'quick': 1200, 'thorough': 30000}),
        dict(h='h_c05.c', mode='cvbr', flavour='prod', n={'quick': 480, 'thorough': 8000}),
    ],
    min_nontrivial={'quick': 1000, 'thorough': 2000},
    min_counters={'quick': {'cbr_exact_checked': 20000, 'ms_cbr_exact_checked': 5000, 'cvbr_streams': 400}, 'thorough': {'cbr_exact_checked': 500000}},
)

CHECKS['C07'] = dict(
    level='exploration',
    rule="seq: random sequences of 1..40 repacketizer operations (cat of ground-truth built packets: all codes, CBR/VBR, 1..48 frames, "
         "frame sizes 0..1275, padding none/zeros/arbitrary bytes/valid extensions; cat of incompatible, over-120ms and hostile invalid "
         "packets, freed immediately after rejection; out, out_range over valid and invalid ranges, init) against a shadow list of frames; "
         "each out_range is run with a generous buffer, with 1277*n bytes and with maxlen at need-1/need/random. pad: encoder streams and "
         "built packets padded by 1..2500 bytes, decoded on twin decoders, unpadded, compared with the canonical encoding. mspad: 1..8 "
         "stream packets through opus_multistream_packet_pad/unpad. Distinct = (frame count, output code, extensions present, range "
         "position, size classes, configuration / pad amount class).",
    assumptions=COMMON_ASSUME + ["oracles/rfc_framing.h decides validity and frame boundaries of every output",
                                 "'canonical' = code 0 for one frame, code 1/2 for two, code 3 CBR/VBR otherwise, no padding (the documented choice)"],
    evals_counter=None,
    runs=[
        dict(h='h_c07.c', mode='seq', flavour='asan', n={'quick': 60000, 'thorough': 1500000}),
        dict(h='h_c07.c', mode='pad', flavour='asan', n={'quick': 40000, 'thorough': 1000000}),
        dict(h='h_c07.c', mode='mspad', flavour='asan', n={'quick': 20000, 'thorough': 500000}),
    ],
    min_nontrivial={'quick': 1000, 'thorough': 2000},
    min_counters={'quick': {'out_range_calls': 50000, 'cat_accepted': 50000, 'pad_ok': 8000, 'unpad_idempotent': 20000, 'msunpad_idempotent': 10000},
                  'thorough': {'out_range_calls': 400000}},
)

CHECKS['C16'] = dict(
    level='exploration',
    rule="gen: legal extension lists (0..9000 entries, 1..48 frames, sorted and shuffled, repeat-eligible patterns, short ids with 0/1 "
         "bytes, long payloads 0..70000 around the 254/255/509/510 lacing boundaries) -> dry-run size, exact-size guarded buffer, two "
         "smaller buffers, parse back through count / parse / count_ext / parse_ext / iterator (next, reset, set_frame_max, find), padded "
         "serialisation, one illegal mutation. bytes: raw random, small-alphabet, grammar-aware and mutated-generator byte strings in "
         "exact-size blocks through the same cross-API agreement + bounds checks, then parse->generate->parse. repack: 1..6 ground-truth "
         "packets with extensions concatenated, four [begin,end) ranges (standard, self-delimited, pad, extra extensions) and "
         "opus_packet_pad_impl; output extensions compared with the ground truth per frame. Distinct = (frame-count class, list-size class, "
         "long/short mix, payload class, serialised size class / kind, error tail / range position, flags).",
    assumptions=COMMON_ASSUME + ["conformance of the byte format to the IETF extension draft is not claimed, only internal agreement, bounds and round trips (as the property states)"],
    evals_counter=None,
    runs=[
        dict(h='h_c16.c', mode='gen', flavour='asan', n={'quick': 120000, 'thorough': 3000000}),
        dict(h='h_c16.c', mode='bytes', flavour='asan', n={'quick': 600000, 'thorough': 12000000}),
        dict(h='h_c16.c', mode='repack', flavour='asan', n={'quick': 100000, 'thorough': 2000000}),
    ],
    min_nontrivial={'quick': 1000, 'thorough': 2000},
    min_counters={'quick': {'roundtrip_ok': 100000, 'fixedpoint_ok': 400000, 'repack_carried_nonempty': 100000, 'pad_impl_ok': 60000, 'lists_over_2000_entries': 200},
                  'thorough': {'roundtrip_ok': 1000000}},
)

CHECKS['C19'] = dict(
    level='exploration',
    rule="clip: 1..6 consecutive frames (N 0..5760, C 0..8) of generated float buffers (sines, noise, isolated peaks, plateaus above range, "
         "growing peaks at frame edges, edge-straddling peaks, per-channel mixes; amplitudes 0.1..1e6) through opus_pcm_soft_clip with "
         "persistent memory, interleaved vs per-channel mono calls; degenerate arguments; non-finite input. gain: an encoder stream with "
         "forced SILK/hybrid/CELT switches, random frame sizes and optional LBRR is decoded by four twin decoders (gain 0 float, gain g "
         "float/int16/int24; decoder rate and channels may differ from the encoder's) with random losses (PLC) and FEC calls, g from a grid "
         "incl. both extremes or random. msgain: surround streams through multistream decoders with and without gain. Distinct = (shape "
         "class / TOC config, call kind, transition, gain class, saturation seen, rate, channels).",
    assumptions=COMMON_ASSUME + ["float build: the gained output must equal gain-free output x one float constant (<= 4e-7 relative), the constant within 2e-5 of 10^(g/5120) (celt_exp2 accuracy, measured maximum is in the evidence)",
                                 "fixed-point build: gained sample within 1 LSB + 0.2% of sat16(gain-free x 10^(g/5120))"],
    evals_counter=['clip_frames', 'gain_calls', 'msgain_frames'],
    runs=[
        dict(h='h_c19.c', mode='clip', flavour='asan', n={'quick': 60000, 'thorough': 3000000}),
        dict(h='h_c19.c', mode='gain', flavour='asan', n={'quick': 1600, 'thorough': 40000}),
        dict(h='h_c19.c', mode='gain', flavour='prod', n={'quick': 1600, 'thorough': 40000}),
        dict(h='h_c19.c', mode='gain', flavour='asan-fixed', n={'quick': 800, 'thorough': 20000}),
        dict(h='h_c19.c', mode='msgain', flavour='asan', n={'quick': 600, 'thorough': 12000}),
    ],
    min_nontrivial={'quick': 1000, 'thorough': 2000},
    min_counters={'quick': {'clip_frames': 100000, 'clip_continued_from_memory': 20000, 'gain_calls': 50000, 'msgain_frames': 4000},
                  'thorough': {'clip_frames': 1000000}},
)

CHECKS['C13'] = dict(
    level='exploration',
    rule="enc: three twin encoders (opus_encode / opus_encode24 / opus_encode_float on v, v*256, v/32768; LSB depth 8..16) under one random "
         "ctl history (all settings of C02 plus expert frame durations shorter than the submitted buffer), 8..36 frames of 14 signal families, "
         "buffers 2..1500 bytes: lengths, bytes and final ranges must be identical. encms: the same for surround families 0/1/255 and "
         "projection family 3. dec: float/int16/int24 twin decoders on loud encoder streams (input up to +6 dBFS, optional decoder gain), "
         "received / lost / FEC / mutated packets, resets; msdec: multistream decoders incl. muted channels; proj: projection decoders, orders "
         "1..5, near-full-scale input in every channel, against per-stream integer twins and the exported demixing matrix. Distinct = (TOC, "
         "expert duration, rate, application, depth, signal / call kind, gain, saturation seen / family, channels).",
    assumptions=COMMON_ASSUME + ["concealment and FEC calls return before the soft clipper: for them the 16-bit output may be either the hard-saturated or the soft-clipped rounding of the float twin (both accepted, counted separately)",
                                 "projection 16-bit output under saturation may be anywhere between saturating-accumulate and saturate-at-end; a wrap (off by ~65536) is rejected"],
    evals_counter=['enc_triples', 'encms_triples', 'dec_triples', 'msdec_triples', 'proj_frames'],
    runs=[
        dict(h='h_c13.c', mode='enc', flavour='asan', n={'quick': 1600, 'thorough': 40000}),
        dict(h='h_c13.c', mode='enc', flavour='asan-fixed', n={'quick': 600, 'thorough': 15000}),
        dict(h='h_c13.c', mode='encms', flavour='asan', n={'quick': 800, 'thorough': 20000}),
        dict(h='h_c13.c', mode='dec', flavour='asan', n={'quick': 1600, 'thorough': 40000}),
        dict(h='h_c13.c', mode='dec', flavour='prod', n={'quick': 1600, 'thorough': 40000}),
        dict(h='h_c13.c', mode='dec', flavour='asan-fixed', n={'quick': 480, 'thorough': 12000}),
        dict(h='h_c13.c', mode='msdec', flavour='asan', n={'quick': 480, 'thorough': 12000}),
        dict(h='h_c13.c', mode='proj', flavour='asan', n={'quick': 480, 'thorough': 12000}),
        dict(h='h_c13.c', mode='proj', flavour='asan-fixed', n={'quick': 160, 'thorough': 4000}),
    ],
    min_nontrivial={'quick': 1000, 'thorough': 2000},
    min_counters={'quick': {'enc_triples': 30000, 'enc_expert_shorter_than_buffer': 500, 'dec_triples': 50000, 'dec_samples_above_full_scale': 100000, 'proj_samples_saturating': 1000, 'msdec_triples': 4000},
                  'thorough': {'enc_triples': 800000}},
)

CHECKS['C12'] = dict(
    level='exploration',
    rule="enc: twin OpusEncoders (one in zero-filled, one in poisoned caller-provided memory with the stack repainted and unrelated objects "
         "created/destroyed before every call) under one random ctl history and signal, 5..60 frames, float and int16 input, buffers 3..1500 "
         "bytes; memcpy(get_size) clone at a random frame into fresh memory (original poisoned and freed in half of the cases); finally "
         "OPUS_RESET_STATE on the clone vs a newly initialised encoder that replays the user's ctl calls, 6..30 frames. dec: the same for "
         "decoders over 1..3 real streams with loss bursts up to 10 packets, FEC and mutated packets, float and int16 output, gain and phase-"
         "inversion settings, then reset vs fresh on another stream. ms: surround families 0/1/255 and projection family 3 encoders and "
         "multistream decoders: zero vs poisoned memory, clone, reset vs fresh. Runs are repeated with the RTCD level capped (hook H1) and "
         "under MemorySanitizer. Distinct = (TOC, stage [twin/clone/reset], original freed, rate, application, signal / call kind, API, burst).",
    assumptions=COMMON_ASSUME + ["'same settings' for reset-equivalence = the ctl calls the user made, replayed on the new object"],
    evals_counter=['enc_pairs', 'enc_reset_pairs', 'dec_pairs', 'dec_reset_pairs', 'ms_enc_pairs', 'ms_dec_pairs'],
    runs=[
        dict(h='h_c12.c', mode='enc', flavour='prod', n={'quick': 1600, 'thorough': 40000}),
        dict(h='h_c12.c', mode='enc', flavour='asan', n={'quick': 480, 'thorough': 12000}),
        dict(h='h_c12.c', mode='enc', flavour='prod-fixed', n={'quick': 480, 'thorough': 12000}),
        dict(h='h_c12.c', mode='enc', flavour='prod-np', n={'quick': 320, 'thorough': 8000}, args=['cap=0']),
        dict(h='h_c12.c', mode='enc', flavour='prod-np', n={'quick': 320, 'thorough': 8000}, args=['cap=2']),
        dict(h='h_c12.c', mode='dec', flavour='prod', n={'quick': 1600, 'thorough': 40000}),
        dict(h='h_c12.c', mode='dec', flavour='asan', n={'quick': 480, 'thorough': 12000}),
        dict(h='h_c12.c', mode='dec', flavour='prod-fixed', n={'quick': 480, 'thorough': 12000}),
        dict(h='h_c12.c', mode='dec', flavour='prod-np', n={'quick': 320, 'thorough': 8000}, args=['cap=1']),
        dict(h='h_c12.c', mode='ms', flavour='prod', n={'quick': 640, 'thorough': 16000}),
        dict(h='h_c12.c', mode='ms', flavour='asan', n={'quick': 160, 'thorough': 4000}),
        dict(h='h_c12.c', mode='enc', flavour='msan', n={'quick': 160, 'thorough': 5000}),
        dict(h='h_c12.c', mode='dec', flavour='msan', n={'quick': 160, 'thorough': 5000}),
        dict(h='h_c12.c', mode='ms', flavour='msan', n={'quick': 64, 'thorough': 2000}),
    ],
    min_nontrivial={'quick': 1000, 'thorough': 2000},
    min_counters={'quick': {'enc_pairs': 50000, 'enc_reset_equal': 2500, 'dec_pairs': 50000, 'dec_reset_equal': 2500, 'ms_enc_pairs': 5000},
                  'thorough': {'enc_pairs': 1000000}},
)

CHECKS['C10'] = dict(
    level='exploration',
    rule="layout: random explicit layouts (channels -1..300, streams, coupled, mapping tables with duplicates / 255 / out-of-range entries) "
         "against the documented acceptance rules for decoder and encoder; mapping families 0/1/2/3/255 (and unknown ones) with legal and "
         "illegal channel counts against the tables re-typed from RFC 7845 5.1.1.2 and the RFC 8486 count rule. dec: random decoder layouts "
         "(1..8 streams, 1..12 output channels incl. muted and duplicated) fed packets assembled from independent per-stream encoders "
         "(self-delimited + standard), received / lost / FEC / corrupted, through float, int16 and int24 multistream decoders and stand-alone "
         "twin decoders per stream. enc: surround families 0/1/255 and ambisonics family 2 encoders, packet structure, LFE stream, twins. "
         "matrix: all five orders x {with, without non-diegetic pair}: identity, export, single-channel round trip. Distinct = (shape classes / "
         "streams, coupled, channels, call kind, frame size, rates / family, channels).",
    assumptions=COMMON_ASSUME + ["oracles/rfc_framing.h decides stream boundaries", "projection (family 3) stream counts are only required to carry every channel; RFC 8486 prescribes no stream count for it",
                                 "round-trip level within 1.5 dB, correlation >= 0.9, separation >= 15 dB at 64 kb/s per channel (measured minima are in the evidence)"],
    evals_counter=['ms_decode_calls', 'ms_encode_calls', 'layout_decoder_creates', 'layout_encoder_creates', 'layout_family_creates', 'matrix_entries_checked'],
    runs=[
        dict(h='h_c10.c', mode='layout', flavour='asan', n={'quick': 20000, 'thorough': 400000}),
        dict(h='h_c10.c', mode='dec', flavour='asan', n={'quick': 800, 'thorough': 20000}),
        dict(h='h_c10.c', mode='dec', flavour='prod', n={'quick': 1600, 'thorough': 40000}),
        dict(h='h_c10.c', mode='dec', flavour='asan-fixed', n={'quick': 320, 'thorough': 8000}),
        dict(h='h_c10.c', mode='enc', flavour='asan', n={'quick': 640, 'thorough': 16000}),
        dict(h='h_c10.c', mode='matrix', flavour='prod', n={'quick': 60, 'thorough': 600}),
    ],
    min_nontrivial={'quick': 500, 'thorough': 1000},
    min_counters={'quick': {'ms_channels_equal': 100000, 'layout_family_tables_ok': 1000, 'matrix_exports_equal': 20, 'projection_roundtrips_ok': 20, 'lfe_streams_checked': 150},
                  'thorough': {'ms_channels_equal': 2000000}},
)

C17_WRAPS = ['ec_decode_bin', 'ec_dec_update', 'ec_encode_bin', 'ec_laplace_decode', 'ec_enc_icdf', 'ec_dec_icdf', 'ec_enc_icdf16', 'ec_dec_icdf16',
             'quant_coarse_energy', 'unquant_coarse_energy', 'quant_fine_energy', 'unquant_fine_energy', 'quant_energy_finalise', 'unquant_energy_finalise',
             'clt_compute_allocation', 'quant_all_bands', 'encode_pulses', 'decode_pulses', 'silk_encode_indices', 'silk_decode_indices',
             'silk_encode_pulses', 'silk_decode_pulses', 'silk_stereo_encode_pred', 'silk_stereo_decode_pred', 'silk_stereo_encode_mid_only', 'silk_stereo_decode_mid_only']
CHECKS['C17'] = dict(
    level='exploration',
    rule="pvq: one case per pulse-cache row of the static mode (LM -1..3 x 21 bands = every N the codec can use incl. split halves): for "
         "every K the row allows, V(N,K) from the code vs a 128-bit recurrence and < 2^32, then every index (V <= vmax) or both ends, powers "
         "of two +-1 and random samples through cwrsi/icwrs (exactly K pulses, index comes back), and random vectors through "
         "encode_pulses/decode_pulses with a real range coder. cache: every cache entry monotone and within 1/8 bit above the exact "
         "ceil(8 log2 V). laplace: the (fs,decay) pairs are collected from the real unquant_coarse_energy (interposed ec_laplace_decode) for "
         "every LM x intra; for each pair all 32768 probability points are fed to the real ec_laplace_decode through an interposed "
         "ec_decode_bin and the committed intervals must tile [0,32768); ec_laplace_encode must commit the decoder's interval of the value "
         "it reports for every value in range +-6; real-coder round trips. icdf: every table passed to ec_*_icdf(16) during encode/decode/"
         "hostile-decode workloads, and every object of the binary named *icdf* (from its own symbol table), split at zeros. This is "
         "exhaustive over the enumerated finite spaces (evidence counters), sampled where V > vmax. symlock: one generated stream per case (starved MDCT "
         "frames of 2..28 bytes, forced SILK / hybrid / MDCT, free streams with random setting changes; LBRR, DTX, stereo with mid-only frames), every packet "
         "encoded and decoded with all value-writing / value-reading functions of both layers interposed; per kind the decoder's values must be a "
         "subsequence of the encoder's (the encoder may code a value several times: rate loop, theta RDO, prefill and redundancy frames).",
    assumptions=COMMON_ASSUME + ["the PVQ index functions are static: the working tree's celt/cwrs.c is compiled into the harness unit (same source, same flags)",
                                 "the cache may over-estimate by at most 1/8 bit (conservative log2), never under-estimate"],
    evals_counter=['pvq_indices_checked', 'laplace_points_checked', 'laplace_encodes_checked', 'cache_entries_checked', 'icdf_live_table_uses', 'symlock_values_matched'],
    runs=[
        dict(h='h_c17.c', mode='pvq', flavour='asan', n=105, wraps=C17_WRAPS, args={'quick': ['vmax=300000', 'samples=3000'], 'thorough': ['vmax=16777216', 'samples=200000']}),
        dict(h='h_c17.c', mode='cache', flavour='asan', n=1, shards=1, wraps=C17_WRAPS),
        dict(h='h_c17.c', mode='laplace', flavour='asan', n=200, wraps=C17_WRAPS),
        dict(h='h_c17.c', mode='icdf', flavour='asan', n=1, shards=1, wraps=C17_WRAPS),
        dict(h='h_c17.c', mode='pvq', flavour='asan-fixed', n=105, wraps=C17_WRAPS, args={'quick': ['vmax=20000', 'samples=500'], 'thorough': ['vmax=1000000', 'samples=20000']}),
        dict(h='h_c17.c', mode='laplace', flavour='asan-fixed', n=200, wraps=C17_WRAPS),
        dict(h='h_c17.c', mode='symlock', flavour='asan', n={'quick': 1600, 'thorough': 40000}, wraps=C17_WRAPS),
        dict(h='h_c17.c', mode='symlock', flavour='asan-fixed', n={'quick': 800, 'thorough': 20000}, wraps=C17_WRAPS),
    ],
    min_nontrivial={'quick': 300, 'thorough': 300},
    min_counters={'quick': {'pvq_NK_pairs': 600, 'pvq_pairs_exhaustive': 300, 'laplace_points_checked': 300 * 32768, 'icdf_live_tables_distinct': 60, 'icdf_static_tables_checked': 30, 'cache_entries_checked': 1000, 'symlock_values_matched': 1000000, 'symlock_silk-indices_values_matched': 20000, 'symlock_coarse-energy_values_matched': 30000},
                  'thorough': {'pvq_NK_pairs': 600}},
)

C18_WRAPS = ['silk_NLSF_encode', 'silk_gains_quant', 'silk_pitch_analysis_core_FLP', 'silk_pitch_analysis_core']
CHECKS['C18'] = dict(
    level='exploration',
    rule="nlsf: one case per (codebook, first-stage vector) = 2 x 32: residual all-zero, every coefficient alone at every value -10..10, "
         "neighbouring pairs at opposite extremes, six global patterns (exhaustive over these), then random residual vectors in four styles "
         "(uniform, {-10,0,10}, high top coefficients with mixed large residuals, small); for every decoded vector: ordering and deltaMin "
         "spacing, silk_NLSF2A + library inverse-gain test + independent double step-down (reflection coefficients < 1, gain <= 1e4), "
         "interpolation factors 0..3 against the previous vector, post-loss bandwidth expansion. nlsfenc: every call the real SILK encoder "
         "makes to silk_NLSF_encode / silk_gains_quant under forced SILK/hybrid workloads is interposed and replayed through the decoder functions. gains: every (previous 0..63, first index [64 absolute | 41 delta], second delta 0..40) x "
         "{2,4} sub-frames with extreme/random tails; silk_gains_quant vs silk_gains_dequant on every (previous, level) with dithered, "
         "extreme and random gains. pitch: all 65536 lag indices x all contours x {8,12,16} kHz x {2,4} sub-frames. hook: the same "
         "predicates on every SILK frame decoded during hostile + normal decoding (hook H2).",
    assumptions=COMMON_ASSUME + ["bounds are the documented ones: codebook deltaMin, MAX_PREDICTION_POWER_GAIN 1e4 (2% slack for the fixed-point gain estimate), lag range 2..18 ms"],
    evals_counter=['nlsf_vectors', 'gain_chains_checked', 'gain_quant_roundtrips', 'pitch_combinations', 'hook_silk_frames_observed', 'nlsf_encodes'],
    runs=[
        dict(h='h_c18.c', mode='nlsf', flavour='asan', n=64, args={'quick': ['random=3000'], 'thorough': ['random=900000']}, wraps=C18_WRAPS),
        dict(h='h_c18.c', mode='nlsfenc', flavour='asan', n={'quick': 640, 'thorough': 16000}, wraps=C18_WRAPS),
        dict(h='h_c18.c', mode='lockstep', flavour='asan', n={'quick': 960, 'thorough': 24000}, wraps=C18_WRAPS),
        dict(h='h_c18.c', mode='lockstep', flavour='asan-fixed', n={'quick': 320, 'thorough': 8000}, wraps=C18_WRAPS),
        dict(h='h_c18.c', mode='nlsfenc', flavour='asan-fixed', n={'quick': 320, 'thorough': 8000}, wraps=C18_WRAPS),
        dict(h='h_c18.c', mode='gains', flavour='asan', n=1, shards=1, wraps=C18_WRAPS),
        dict(h='h_c18.c', mode='pitch', flavour='asan', n=6, wraps=C18_WRAPS),
        dict(h='h_c18.c', mode='hook', flavour='asan', n={'quick': 6000, 'thorough': 200000}, wraps=C18_WRAPS),
        dict(h='h_c18.c', mode='hook', flavour='asan-fixed', n={'quick': 2000, 'thorough': 60000}, wraps=C18_WRAPS),
        dict(h='h_c18.c', mode='nlsf', flavour='asan-fixed', n=64, args={'quick': ['random=500'], 'thorough': ['random=100000']}, wraps=C18_WRAPS),
    ],
    min_nontrivial={'quick': 60, 'thorough': 60},
    min_counters={'quick': {'nlsf_vectors': 200000, 'nlsf_interpolations': 800000, 'gain_chains_checked': 500000, 'gain_quant_roundtrips': 49152, 'pitch_combinations': 6000000, 'hook_silk_frames_observed': 20000, 'hook_voiced_frames': 2000, 'nlsf_encodes': 20000, 'live_gain_quants': 20000},
                  'thorough': {'nlsf_vectors': 50000000}},
)

C11_WRAPS = ['malloc', 'free']
CHECKS['C11'] = dict(
    level='exploration',
    rule="ctl: per encoder (random Fs/channels/application) 120 steps mixing encode calls, sets of every documented request with values from a "
         "grid (all legal values, boundaries +-1, INT_MIN/INT_MAX, sentinels, other requests' constants), NULL getters and unknown request "
         "numbers; a full getter snapshot is taken before and after every call; then the decoder requests. msctl: the same through surround "
         "(families 0/1/255) and projection encoders with per-stream snapshots, multistream decoder gain fan-out, stream-index validation. "
         "create: every object kind with legal/illegal (Fs, channels, application) and a countdown allocation fault on every allocation. "
         "honour: 10..50 packet histories with settings fixed before the first frame (forced/max bandwidth, forced channels, expert frame "
         "duration or per-call size, application, forced mode) and other settings and the forced channel count changing mid-stream. Distinct "
         "= (request, legal, after-encode, channels, value class / family / TOC, forced channels, bandwidth limits, application).",
    assumptions=COMMON_ASSUME + ["packets with no coded audio (every frame <= 1 byte: DTX and the low-budget fallback) are exempt from the channel / bandwidth / mode clauses and do not count towards the three-packet latency",
                                 "OPUS_SET_APPLICATION may be refused after the first frame (then nothing may change)",
                                 "AUTO / MAX bitrate read-back is accepted for any legal frame size (the resolution uses the last coded frame size)"],
    evals_counter=['ctl_sets', 'msctl_sets', 'dec_ctl_calls', 'create_calls', 'alloc_fault_runs', 'honour_packets'],
    runs=[
        dict(h='h_c11.c', mode='ctl', flavour='asan', n={'quick': 1600, 'thorough': 40000}, wraps=C11_WRAPS),
        dict(h='h_c11.c', mode='msctl', flavour='asan', n={'quick': 800, 'thorough': 20000}, wraps=C11_WRAPS),
        dict(h='h_c11.c', mode='create', flavour='prod', n={'quick': 3200, 'thorough': 60000}, wraps=C11_WRAPS),
        dict(h='h_c11.c', mode='honour', flavour='asan', n={'quick': 1600, 'thorough': 40000}, wraps=C11_WRAPS),
        dict(h='h_c11.c', mode='honour', flavour='prod', n={'quick': 3200, 'thorough': 80000}, wraps=C11_WRAPS),
        dict(h='h_c11.c', mode='mshonour', flavour='asan', n={'quick': 1600, 'thorough': 40000}, wraps=C11_WRAPS),
        dict(h='h_c11.c', mode='ctl', flavour='asan-fixed', n={'quick': 320, 'thorough': 8000}, wraps=C11_WRAPS),
    ],
    min_nontrivial={'quick': 1000, 'thorough': 2000},
    min_counters={'quick': {'ctl_sets': 100000, 'ctl_illegal_refused': 30000, 'ctl_legal_readback_ok': 30000, 'msctl_sets': 30000, 'alloc_faults_reported': 3000, 'honour_packets': 100000, 'honour_forced_channels_ok': 10000},
                  'thorough': {'ctl_sets': 2000000}},
)

CHECKS['C14'] = dict(
    level='exploration',
    rule="Each case is a fresh (forked) process in which 2..32 threads are released together by a barrier before any libopus call has been "
         "made; every thread creates, drives and destroys its own objects (encoder with random ctl history incl. hard-CBR SILK / decoder on "
         "hostile packets / encoder+decoder pair with losses / surround multistream pair / repacketizer + pad / projection pair), with "
         "sched_yield, usleep and busy-wait injected before API calls and a quarter of the threads pinned to random CPUs; 16 such processes "
         "run side by side (oversubscribed cores force preemption). Oracles: zero ThreadSanitizer reports (tsan flavour) and, per thread, "
         "digest of all outputs == digest of the same workload re-run serially. Distinct = interleaving signature (order in which the "
         "threads' API calls were observed through a relaxed atomic counter).",
    assumptions=COMMON_ASSUME + ["ThreadSanitizer's happens-before analysis covers the accesses that executed; the schedules explored are those the OS produced under oversubscription and injected delays",
                                 "the monitor shares one relaxed atomic counter between threads (no happens-before edge) and nothing else"],
    evals_counter='processes',
    runs=[
        dict(h='h_c14.c', mode='threads', flavour='tsan', n={'quick': 480, 'thorough': 6000}, timeout={'quick': 2700, 'thorough': 14400}),
        dict(h='h_c14.c', mode='threads', flavour='prod', n={'quick': 960, 'thorough': 12000}),
    ],
    min_nontrivial={'quick': 1000, 'thorough': 10000},
    min_counters={'quick': {'threads': 10000, 'api_operations': 150000}, 'thorough': {'threads': 50000}},
)

C15_SILK = ['silk_VAD_GetSA_Q8_sse4_1', 'silk_NSQ_sse4_1', 'silk_NSQ_del_dec_sse4_1', 'silk_NSQ_del_dec_avx2', 'silk_VQ_WMat_EC_sse4_1']
C15_FLOAT = C15_SILK + ['xcorr_kernel_sse', 'celt_inner_prod_sse', 'dual_inner_prod_sse', 'comb_filter_const_sse', 'op_pvq_search_sse2', 'celt_pitch_xcorr_avx2', 'silk_inner_product_FLP_avx2']
C15_FIXED = C15_SILK + ['celt_fir_sse4_1', 'xcorr_kernel_sse4_1', 'celt_inner_prod_sse2', 'celt_inner_prod_sse4_1', 'silk_inner_prod16_sse4_1', 'silk_burg_modified_sse4_1']
CHECKS['C15'] = dict(
    level='exploration',
    rule="live: every SIMD entry point of the x86 dispatch tables is interposed; whole-codec workloads (random ctl histories, all modes and "
         "frame sizes, 14 signal families plus full-scale alternating samples through the int16 API, decode incl. PLC) run with the RTCD "
         "level capped to 1..4 and every kernel call is repeated on copies with the portable C twin: integer kernels (NSQ, NSQ_del_dec "
         "SSE4.1/AVX2, VAD, LTP codebook search, fixed-point fir/xcorr/inner products/Burg) bit-identical incl. all state bytes; float "
         "kernels within 2.5(n+2)eps sum|x y| (comb filter per sample, PVQ search: K pulses, correct signs, objective within 2e-3). direct: "
         "the vector kernels called through the real dispatch with every length 1..1024, pointer offsets 0..3/7 elements and six data styles "
         "(unit, 1e-20, 1e15, 32768, alternating sign, mixed magnitudes). codec: five encoders and five decoders created at levels 0..4: "
         "fixed build byte-identical packets and PCM, float build every decoder level reproduces every encoder level's final range; also "
         "under upstream's OPUS_CHECK_ASM self-check build. Distinct = (cap, rate, channels, signal / length residue, offsets, style / TOC).",
    assumptions=COMMON_ASSUME + ["only feature levels the sandbox CPU supports are exercised (it has AVX2: all five)", "NaN/Inf inputs are excluded for float kernels (the reassociation bound is undefined)"],
    evals_counter=['live_kernel_comparisons', 'direct_kernel_comparisons', 'codec_level_frames'],
    runs=[
        dict(h='h_c15.c', mode='live', flavour='asan', n={'quick': 320, 'thorough': 8000}, args=['cap=4'], wraps=C15_FLOAT),
        dict(h='h_c15.c', mode='live', flavour='asan', n={'quick': 320, 'thorough': 8000}, args=['cap=3'], wraps=C15_FLOAT),
        dict(h='h_c15.c', mode='live', flavour='asan', n={'quick': 160, 'thorough': 4000}, args=['cap=2'], wraps=C15_FLOAT),
        dict(h='h_c15.c', mode='live', flavour='asan', n={'quick': 160, 'thorough': 4000}, args=['cap=1'], wraps=C15_FLOAT),
        dict(h='h_c15.c', mode='live', flavour='asan-fixed', n={'quick': 320, 'thorough': 8000}, args=['cap=4'], wraps=C15_FIXED),
        dict(h='h_c15.c', mode='live', flavour='asan-fixed', n={'quick': 320, 'thorough': 8000}, args=['cap=3'], wraps=C15_FIXED),
        dict(h='h_c15.c', mode='live', flavour='asan-fixed', n={'quick': 160, 'thorough': 4000}, args=['cap=2'], wraps=C15_FIXED),
        dict(h='h_c15.c', mode='direct', flavour='asan', n={'quick': 4000, 'thorough': 200000}, wraps=C15_FLOAT),
        dict(h='h_c15.c', mode='direct', flavour='asan-fixed', n={'quick': 4000, 'thorough': 200000}, wraps=C15_FIXED),
        dict(h='h_c15.c', mode='codec', flavour='prod-np', n={'quick': 320, 'thorough': 5000}, wraps=C15_FLOAT),
        dict(h='h_c15.c', mode='codec', flavour='prod-fixed-np', n={'quick': 320, 'thorough': 5000}, wraps=C15_FIXED),
        dict(h='h_c15.c', mode='codec', flavour='checkasm', n={'quick': 160, 'thorough': 3000}, wraps=C15_FLOAT),
        dict(h='h_c15.c', mode='codec', flavour='checkasm-fixed', n={'quick': 160, 'thorough': 3000}, wraps=C15_FIXED),
    ],
    min_nontrivial={'quick': 1000, 'thorough': 2000},
    min_counters={'quick': {'live_kernel_comparisons': 1000000, 'direct_kernel_comparisons': 100000, 'codec_level_frames': 10000,
                            'kernel_calls:silk_NSQ_del_dec_avx2': 1000, 'kernel_calls:silk_NSQ_sse4_1': 1000, 'kernel_calls:silk_VAD_GetSA_Q8_sse4_1': 1000, 'kernel_calls:silk_VQ_WMat_EC_sse4_1': 1000,
                            'kernel_calls:celt_pitch_xcorr_avx2': 1000, 'kernel_calls:op_pvq_search_sse2': 1000, 'kernel_calls:comb_filter_const_sse': 1000, 'kernel_calls:silk_burg_modified_sse4_1': 1000, 'kernel_calls:celt_fir_sse4_1': 1000},
                  'thorough': {'live_kernel_comparisons': 20000000}},
)

CHECKS['C20'] = dict(
    level='exploration',
    rule="Each case is an encoder (random Fs, channels, application, complexity 0..10, frame duration 2.5..120 ms, VBR/CBR, bitrate, forced "
         "mode, DTX on in 4 of 5 cases, buffer 3..40 or 1500 bytes) driven through 3..9 alternating segments of loud modulated speech-like "
         "input and exact digital silence, all boundaries on packet boundaries, gap lengths dense around 160-240 ms, 360-460 ms, 560-700 ms "
         "and up to 5 s; the packet-length / OPUS_GET_IN_DTX log is checked by a timeline checker (start of DTX within one frame of the "
         "200 ms mark when the generalised detector is in charge; every run of <=2-byte packets shorter than 400 ms + one frame and followed "
         "by a refresh; IN_DTX on every DTX packet; first frame of renewed activity coded normally; no tiny packet with DTX off), and the "
         "stream is decoded twice (DTX packets fed / dropped and concealed) for durations, silence in the gap and audio after it. One stereo "
         "case in eight uses an anti-phase (L=-R) stimulus. Distinct = (TOC config, tiny, activity, IN_DTX, frame size, detector, flags, rate).",
    assumptions=COMMON_ASSUME + ["'active' input is a loud, strongly modulated harmonic signal and 'inactive' input is exact zeros, so the ground truth does not depend on a detector's judgement",
                                 "<=2-byte packets caused by a budget below 3 bytes per frame are not DTX packets (precondition of the clause)",
                                 "gap level bound 0.02 RMS after 700 ms of silence; resumed audio within -12..+6 dB of the input level (sanity bounds, measured extremes are in the evidence)"],
    evals_counter='packets',
    runs=[
        dict(h='h_c20.c', mode='sched', flavour='prod', ref='float', n={'quick': 3200, 'thorough': 60000}),
        dict(h='h_c20.c', mode='sched', flavour='asan', ref='float', n={'quick': 480, 'thorough': 12000}),
        dict(h='h_c20.c', mode='sched', flavour='prod-fixed', ref='fixed', n={'quick': 800, 'thorough': 20000}),
    ],
    min_nontrivial={'quick': 500, 'thorough': 1000},
    min_counters={'quick': {'packets': 300000, 'dtx_packets': 30000, 'dtx_starts_checked': 500, 'refresh_packets': 1500, 'resumptions_checked': 3000, 'resumed_blocks_compared_with_frozen_build': 300000},
                  'thorough': {'dtx_packets': 500000}},
)

CHECKS['C09'] = dict(
    level='fault_enumeration',
    rule="window: per case one 3.4 s speech-like stream (forced SILK NB/MB/WB, hybrid SWB/FB or CELT; 2.5..60 ms frames; mono/stereo; LBRR "
         "enabled with 15..40 % expected loss in 3 of 4 SILK/hybrid streams; decoder rate/channels may differ from the encoder's) and ALL "
         "2^k loss patterns over a window of k consecutive packets (k=8 quick, 12 thorough) at a random position; each pattern is decoded from "
         "a reset decoder with the lost packets concealed by whole-packet calls, by 2.5/5/10/20 ms pieces, or recovered by an FEC call on the "
         "next packet (also with frame_size twice the packet). burst: long bursts 1..10 s and random 10 % loss. multiburst: up to 60 s streams with several 4..10 s bursts 0.3..1.2 s apart in one decoder lifetime. Every call is checked for "
         "the requested duration, finite samples, final range of received packets, level bounds against the last 500 ms decoded, decay after "
         "1 s, FEC vs concealment on a cloned decoder (error energy against the loss-free twin where LBRR is present, exact equality where it "
         "is not), the sub-frame gains of every frame rebuilt from LBRR data against the gains the encoder quantised that LBRR frame with "
         "(hooks H3 and H2), and convergence to the loss-free twin 1 s after the last loss. Later additions: the frozen build's decoder receives exactly the same calls on every second float-API pattern and every 5 ms block of received audio after a loss is compared with the loss-free twin for both (tree at most 12 dB further away); half of the streams are gated (-48 dB from one packet to the next) and half of the windows are placed on the end of a loud segment. Exhaustive over the 2^k patterns of each window.",
    assumptions=COMMON_ASSUME + ["thresholds are the committed constants of calib/c09.json (measured on the pinned tree with margin): kappa, peak kappa, delta, rho, recovery SNR",
                                 "the stimulus has a quiet background (speech-like bursts over -60 dB noise), as the decay clause requires"],
    evals_counter='patterns',
    runs=[
        dict(h='h_c09.c', mode='window', flavour='prod', ref='float', n={'quick': 320, 'thorough': 640}, args={'quick': ['k=8'], 'thorough': ['k=12']}, timeout={'quick': 2700, 'thorough': 21600}),
        dict(h='h_c09.c', mode='burst', flavour='prod', ref='float', n={'quick': 640, 'thorough': 16000}),
        dict(h='h_c09.c', mode='window', flavour='asan', ref='float', n={'quick': 32, 'thorough': 320}, args={'quick': ['k=6'], 'thorough': ['k=8']}),
        dict(h='h_c09.c', mode='window', flavour='prod-fixed', ref='fixed', n={'quick': 96, 'thorough': 320}, args={'quick': ['k=8'], 'thorough': ['k=10']}),
        dict(h='h_c09.c', mode='burst', flavour='asan-fixed', ref='fixed', n={'quick': 64, 'thorough': 1600}),
        dict(h='h_c09.c', mode='multiburst', flavour='prod', ref='float', n={'quick': 160, 'thorough': 3200}),
        dict(h='h_c09.c', mode='multiburst', flavour='prod-fixed', ref='fixed', n={'quick': 48, 'thorough': 800}),
    ],
    min_nontrivial={'quick': 40, 'thorough': 60},
    min_counters={'quick': {'patterns': 60000, 'plc_calls': 500000, 'fec_calls': 50000, 'fec_lbrr_events': 10000, 'lbrr_subframe_gains_compared': 100000, 'recoveries_checked': 50000, 'recovery_blocks_compared_with_frozen_build': 1000000, 'windows_on_the_end_of_a_loud_segment': 30, 'bursts_over_1s': 600, 'multiburst_patterns': 100},
                  'thorough': {'patterns': 2000000}},
)

CHECKS['C03'] = dict(
    level='exploration',
    rule="stream: each case is a 2.2..3.2 s stream from the FROZEN reference encoder (random rate, channels, application, complexity, bitrate "
         "6..510 kb/s, CBR/VBR, FEC, DTX, all signal families) with forced mode switches (SILK/hybrid/CELT/auto), bandwidth, forced-channel, "
         "frame-size (2.5..120 ms) and bitrate changes mid-stream; its packets are regrouped by the frozen repacketizer into code 0/1/2/3 "
         "packets of up to 120 ms and randomly padded. Up to `configs` of the ten decoder configurations {8,12,16,24,48 kHz} x {1,2 ch} are "
         "run per stream: tree decoder and frozen decoder in lock-step (count, final range exact), then the RFC metric of the tree's 16-bit "
         "output against the frozen decoder at the same rate/channels (verdict; for a fixed-point tree the frozen source built fixed-point), and against its 48 kHz stereo output (the RFC procedure, reported only). "
         "metric: the metric port is cross-checked against the RFC tool (compiled from the frozen source) on clean and degraded signals. "
         "Distinct = (TOC byte, decoder rate, channels, mode transition). Later additions: 2.5 ms block comparison with the reference decoder on the same packets; one stream in seven starves the layers (forced-stereo hybrid / MDCT at 10..26 kb/s).",
    assumptions=COMMON_ASSUME + ["'reference decoder/encoder' = the frozen source snapshot of the pinned commit (/verif/ref), built with clang as portable C; deviations from RFC 6716 already present in that commit are invisible",
                                 "oracles/rfc_compare.h is a faithful port of opus_compare.c (cross-checked against the tool in mode 'metric')",
                                 "PCM reference for the fixed-point tree builds is the frozen snapshot built fixed-point (the reference implementation's own fixed-point configuration); final ranges are always compared with the float reference",
                                 "the RFC procedure against the 48 kHz stereo reference is informational: the pinned reference decoder itself does not pass it at lower output rates on arbitrary low-rate mode-switching streams"],
    evals_counter='packets_compared',
    runs=[
        dict(h='h_c03.c', mode='metric', flavour='prod', ref='both', n={'quick': 48, 'thorough': 400}),
        dict(h='h_c03.c', mode='stream', flavour='prod', ref='both', n={'quick': 480, 'thorough': 6000}, args={'quick': ['configs=3'], 'thorough': ['configs=10']}),
        dict(h='h_c03.c', mode='stream', flavour='prod-fixed', ref='both', n={'quick': 240, 'thorough': 3000}, args={'quick': ['configs=3'], 'thorough': ['configs=10']}),
        dict(h='h_c03.c', mode='stream', flavour='asan', ref='both', n={'quick': 64, 'thorough': 1000}, args=['configs=2']),
        dict(h='h_c03.c', mode='stream', flavour='prod-np', ref='both', n={'quick': 96, 'thorough': 1000}, args=['configs=3']),
    ],
    min_nontrivial={'quick': 1000, 'thorough': 2000},
    min_counters={'quick': {'streams_compared': 1500, 'packets_compared': 80000, 'metric_crosschecks': 48}, 'thorough': {'streams_compared': 50000}},
)

CHECKS['C04'] = dict(
    level='exploration',
    rule="rt: per case one configuration (rate, 1-2 channels, application, forced SILK/hybrid/CELT or automatic mode with a compatible "
         "bandwidth, frame 2.5..120 ms, bitrate at or above a per-mode floor, VBR/CBR, complexity 0/5/10, input and output sample format "
         "chosen among int16/int24/float) and a 2..3.5 s signal (white / band-limited noise, multi-tone, sweep, speech-like, clicks, voiced; "
         "stereo variants: independent mix, left only, right only, unequal level, anti-phase) is coded by the tree and, with identical "
         "settings and input, by the frozen reference build; oracles: OPUS_GET_LOOKAHEAD equals the documented value and the frozen "
         "build's; cross-correlation delay estimate (parabolic interpolation, +-3 ms) within 0.5 sample (CELT; estimator noise, a wrong lookahead is off by a whole sample) / 0.1 ms (SILK, hybrid) of "
         "the lookahead and within 0.1 sample of the frozen build's estimate; SNR not more than 3 dB below the frozen build's (unless above 45 dB); per-band (21 bands) energy error not more "
         "than 2 dB above the frozen build's; sign and level per channel; crosstalk for single-channel stimuli. ms: surround families 1/255 "
         "with a distinct tone per channel: each comes back dominant, in phase and within 1.5 dB in its own channel. Distinct = (mode, "
         "frame size, rate, channels, identity stimulus, sample formats, signal, application).",
    assumptions=COMMON_ASSUME + ["fidelity bounds are relative to the frozen build of the same arithmetic on the identical input (calib/c04.json margins); perceptual quality is out of scope",
                                 "the delay estimator is applied to noise-like / speech-like stimuli where the frozen build itself reaches 12 dB SNR and its own estimate is within tolerance"],
    evals_counter=['roundtrips', 'ms_roundtrips', 'switch_roundtrips'],
    runs=[
        dict(h='h_c04.c', mode='rt', flavour='prod', ref='both', n={'quick': 2400, 'thorough': 40000}),
        dict(h='h_c04.c', mode='rt', flavour='prod-fixed', ref='both', n={'quick': 1200, 'thorough': 20000}),
        dict(h='h_c04.c', mode='rt', flavour='asan', ref='both', n={'quick': 160, 'thorough': 3000}),
        dict(h='h_c04.c', mode='ms', flavour='prod', ref='both', n={'quick': 1200, 'thorough': 20000}),
        dict(h='h_c04.c', mode='switch', flavour='prod', ref='both', n={'quick': 1600, 'thorough': 30000}),
        dict(h='h_c04.c', mode='switch', flavour='prod-fixed', ref='both', n={'quick': 480, 'thorough': 10000}),
    ],
    min_nontrivial={'quick': 400, 'thorough': 1000},
    min_counters={'quick': {'roundtrips': 3500, 'delays_checked': 1200, 'bands_checked': 40000, 'ms_channels_checked': 4000, 'switch_blocks_checked': 300000, 'switch_lookaheads_checked': 1500, 'switch_application_changed_before_first_frame': 200}, 'thorough': {'roundtrips': 15000}},
)

# later additions to the workloads, stated once in manifest_meta._ADD: appended to the rule text recorded in the evidence
from manifest_meta import _ADD as _LATER
for _k, _v in _LATER.items():
    if _k != 'C09':   # C09's rule text above already describes them
        CHECKS[_k]['rule'] = CHECKS[_k]['rule'] + ' ' + _v

# ---------------------------------------------------------------- coverage-guided tier (thorough only)
# The same harness modes, generators and oracles, compiled with -DVERIF_FUZZ against the clang libFuzzer+ASan+UBSan
# build of the working tree: the per-case generator draws its decisions from the bytes libFuzzer proposes, so the
# edge-coverage feedback steers packet structure, call histories and operation sequences towards code the seeded
# PRNG workloads reach rarely.  n = total executions over all shards (16 independent libFuzzer processes, seeds
# derived from VERIF_SEED, no corpus kept between runs).
def _fz(h, mode, n, wraps=(), **kw):
    d = dict(h=h, mode=mode, flavour='libfuzzer', n={'quick': 0, 'thorough': n}, defs=['-DVERIF_FUZZ'], tiers=('thorough',))
    if wraps:
        d['wraps'] = list(wraps)
    d.update(kw)
    return d

CHECKS['C01']['runs'] += [_fz('h_c01.c', 'single', 240000), _fz('h_c01.c', 'ms', 96000)]
CHECKS['C06']['runs'] += [_fz('h_c06.c', 'random', 480000)]
CHECKS['C07']['runs'] += [_fz('h_c07.c', 'seq', 1600000), _fz('h_c07.c', 'pad', 200000), _fz('h_c07.c', 'mspad', 200000)]
CHECKS['C08']['runs'] += [_fz('h_c08.c', 'seq', 3200000)]
CHECKS['C10']['runs'] += [_fz('h_c10.c', 'dec', 16000)]
CHECKS['C16']['runs'] += [_fz('h_c16.c', 'gen', 800000), _fz('h_c16.c', 'bytes', 8000000), _fz('h_c16.c', 'repack', 600000)]
CHECKS['C18']['runs'] += [_fz('h_c18.c', 'hook', 48000, wraps=C18_WRAPS)]
_FZ_TEXT = ("Thorough tier, coverage-guided: the same modes, generators and oracles are also compiled against a clang "
            "libFuzzer+ASan+UBSan build of the working tree with the case generator driven by the bytes libFuzzer proposes "
            "(16 independent processes, bounded by execution count; edges/features reached are in the evidence counters "
            "libfuzzer_*).")
for _k in ('C01', 'C06', 'C07', 'C08', 'C10', 'C16', 'C18'):
    CHECKS[_k]['rule'] = CHECKS[_k]['rule'] + ' ' + _FZ_TEXT
