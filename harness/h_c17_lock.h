/* C17 mode "symlock" -- value-level lock-step of every symbol code between the live encoder and the live decoder.
 * The table-driven codes sit under value<->symbol mappings (zig-zag of the small-energy code, delta/absolute forms, joint indices,
 * sign/shell splits); a raw symbol that round-trips proves nothing about the value it stands for.  Every non-static function pair
 * that writes / reads values is interposed (-Wl,--wrap) and records one event per call:
 *   CELT  quant_coarse_energy|unquant_coarse_energy, quant_fine_energy|unquant_fine_energy, quant_energy_finalise|unquant_energy_finalise
 *         (band energies after the call), clt_compute_allocation (boosts, trim, budget in; intensity, dual stereo, balance, pulses,
 *         fine bits, priorities, coded bands out), quant_all_bands (transient flag, spread, tf_res, budget, pulses in),
 *         encode_pulses|decode_pulses (the PVQ vector)
 *   SILK  silk_encode_indices|silk_decode_indices (the side-information indices, by meaning), silk_encode_pulses|silk_decode_pulses
 *         (the excitation), silk_stereo_encode_pred|silk_stereo_decode_pred (predictor weights; the encoder's indices are turned into
 *         weights by a transcription of RFC 6716 section 4.2.7.1), silk_stereo_encode_mid_only|silk_stereo_decode_mid_only
 * For one packet the encoder may code a value several times (rate loop, theta RDO, prefill and redundancy frames, LBRR); the bytes it
 * keeps are those of one of these trials.  Oracle: per kind, the decoder's event sequence is a subsequence of the encoder's.
 */
#include "main.h"
#include "bands.h"
#include "vq.h"
#define LK_MAXEV 6000
#define LK_POOL (1<<20)
enum { LK_COARSE=1, LK_FINE, LK_FINAL, LK_ALLOC, LK_QAB, LK_PVQ, LK_SIDX, LK_SPULSES, LK_SPRED, LK_SMID, LK_NK };
static const char *lk_names[LK_NK]={"","coarse-energy","fine-energy","energy-finalise","allocation","band-parameters","pvq-vector","silk-indices","silk-pulses","silk-stereo-weights","silk-mid-only"};
typedef struct { int kind, off, nint, nflt; } lk_ev;   /* payload: nint ints followed by nflt floats (stored as bits) */
typedef struct { lk_ev ev[LK_MAXEV]; int n; opus_int32 *pool; int used; int overflow; } lk_log;
static lk_log lk_enc, lk_dec; static int lk_on=0;
static opus_int32 *lk_add(lk_log *L,int kind,int nint,int nflt){ if(!L->pool){ L->pool=(opus_int32*)malloc(sizeof(opus_int32)*LK_POOL); } if(L->n>=LK_MAXEV||L->used+nint+nflt>LK_POOL){ L->overflow=1; return NULL; } lk_ev *e=&L->ev[L->n++]; e->kind=kind; e->off=L->used; e->nint=nint; e->nflt=nflt; L->used+=nint+nflt; return L->pool+e->off; }
/* the decoder fades the MDCT layer out after a hybrid frame by decoding a private two-byte "silence" frame the encoder never wrote */
static inline int lk_private(const ec_ctx *c){ return c&&c->storage==2&&c->buf&&c->buf[0]==0xFF&&c->buf[1]==0xFF; }
static void lk_reset(lk_log *L){ L->n=0; L->used=0; L->overflow=0; }
static inline opus_int32 lk_fbits(celt_glog v){
#ifdef FIXED_POINT
  return (opus_int32)v;
#else
  opus_int32 b; float f=(float)v; memcpy(&b,&f,4); return b;
#endif
}
/* Band energies are coded as steps added to a prediction from the previous frame; the predictor states of encoder and decoder may
 * legitimately differ (concealed frames, DTX, the decoder's max(L,R) merge at a stereo->mono switch), the coded steps may not.
 * coarse: the integer steps are recovered from the energies before/after the call by undoing the prediction (RFC 6716 section 4.3.2.1:
 * prediction coefficients per frame size, intra or inter); the encoder chooses intra/inter inside the call, so both readings are kept.
 * fine / finalise: the increments. */
static const double lk_pred[4]={29440/32768.,26112/32768.,21248/32768.,16384/32768.}, lk_beta[4]={30147/32768.,22282/32768.,12124/32768.,6554/32768.}; static const double lk_beta_intra=4915/32768.;
static inline double lk_db(celt_glog v){
#ifdef FIXED_POINT
  return (double)v/(double)(1<<DB_SHIFT);
#else
  return (double)v;
#endif
}
/* returns 1 when every step comes out as an integer (|residual| < 0.02) */
static int lk_steps(const CELTMode *m,int start,int end,int C,int LM,int intra,const celt_glog *before,const celt_glog *after,opus_int32 *q){ double coef=intra?0:lk_pred[LM], beta=intra?lk_beta_intra:lk_beta[LM]; double prev[2]={0,0}; int ok=1, o=0;
  for(int i=start;i<end;i++) for(int c=0;c<C;c++){ double oldE=lk_db(before[i+c*m->nbEBands]); if(oldE<-9) oldE=-9; double a=lk_db(after[i+c*m->nbEBands]);
#ifdef FIXED_POINT
      if(a<=-27.999) ok=0;   /* the fixed-point build floors the result at -28: the step is not recoverable */
#endif
      double qf=a-(coef*oldE+prev[c]); long qi=lrint(qf); if(fabs(qf-(double)qi)>0.02) ok=0; q[o++]=(opus_int32)qi; prev[c]+=(double)qi-beta*(double)qi; }
  return ok; }
/* coarse event: ints = start,end,C,LM, validA, validB, stepsA[nb*C], stepsB[nb*C] (decoder: A only, for its intra flag) */
static void lk_coarse(lk_log *L,const CELTMode *m,int start,int end,int C,int LM,int intra,const celt_glog *before,const celt_glog *after){ int nb=end-start; if(nb<0) nb=0; if(vc_verbose>1){ fprintf(stderr,"  coarse %s intra=%d:",L==&lk_enc?"enc":"dec",intra); for(int c=0;c<C;c++) for(int i=start;i<end;i++) fprintf(stderr," [%d,%d] %.4f->%.4f",c,i,lk_db(before[i+c*m->nbEBands]),lk_db(after[i+c*m->nbEBands])); fprintf(stderr,"\n"); } opus_int32 *p=lk_add(L,LK_COARSE,6+2*nb*C,0); if(!p) return; p[0]=start; p[1]=end; p[2]=C; p[3]=LM;
  if(intra>=0){ p[4]=lk_steps(m,start,end,C,LM,intra,before,after,p+6); p[5]=0; for(int i=0;i<nb*C;i++) p[6+nb*C+i]=0; }
  else { p[4]=lk_steps(m,start,end,C,LM,0,before,after,p+6); p[5]=lk_steps(m,start,end,C,LM,1,before,after,p+6+nb*C); } }
static void lk_energy(lk_log *L,int kind,const CELTMode *m,int start,int end,int C,int x0,const int *a,const int *b,const celt_glog *before,const celt_glog *after){ int nb=end-start; if(nb<0) nb=0; int ni=4+(a?nb:0)+(b?nb:0); opus_int32 *p=lk_add(L,kind,ni,nb*C); if(!p) return; p[0]=start; p[1]=end; p[2]=C; p[3]=x0; int o=4; if(a){ for(int i=start;i<end;i++) p[o++]=a[i]; } if(b){ for(int i=start;i<end;i++) p[o++]=b[i]; }
  for(int c=0;c<C;c++) for(int i=start;i<end;i++){
#ifdef FIXED_POINT
    p[o++]=(opus_int32)(after[i+c*m->nbEBands]-before[i+c*m->nbEBands]);
#else
    float f=(float)(after[i+c*m->nbEBands]-before[i+c*m->nbEBands]); memcpy(&p[o++],&f,4);
#endif
  } }
#define LK_SNAP celt_glog before[2*32]; if(lk_on) memcpy(before,oldEBands,sizeof(celt_glog)*2*m->nbEBands);

void __real_quant_coarse_energy(const CELTMode *m,int start,int end,int effEnd,const celt_glog *eBands,celt_glog *oldEBands,opus_uint32 budget,celt_glog *error,ec_enc *enc,int C,int LM,int nbAvailableBytes,int force_intra,opus_val32 *delayedIntra,int two_pass,int loss_rate,int lfe);
void __wrap_quant_coarse_energy(const CELTMode *m,int start,int end,int effEnd,const celt_glog *eBands,celt_glog *oldEBands,opus_uint32 budget,celt_glog *error,ec_enc *enc,int C,int LM,int nbAvailableBytes,int force_intra,opus_val32 *delayedIntra,int two_pass,int loss_rate,int lfe){ LK_SNAP __real_quant_coarse_energy(m,start,end,effEnd,eBands,oldEBands,budget,error,enc,C,LM,nbAvailableBytes,force_intra,delayedIntra,two_pass,loss_rate,lfe); if(lk_on) lk_coarse(&lk_enc,m,start,end,C,LM,-1,before,oldEBands); }
void __real_unquant_coarse_energy(const CELTMode *m,int start,int end,celt_glog *oldEBands,int intra,ec_dec *dec,int C,int LM);
void __wrap_unquant_coarse_energy(const CELTMode *m,int start,int end,celt_glog *oldEBands,int intra,ec_dec *dec,int C,int LM){ LK_SNAP __real_unquant_coarse_energy(m,start,end,oldEBands,intra,dec,C,LM); if(lk_on&&!lk_private(dec)) lk_coarse(&lk_dec,m,start,end,C,LM,intra!=0,before,oldEBands); }
void __real_quant_fine_energy(const CELTMode *m,int start,int end,celt_glog *oldEBands,celt_glog *error,int *fine_quant,ec_enc *enc,int C);
void __wrap_quant_fine_energy(const CELTMode *m,int start,int end,celt_glog *oldEBands,celt_glog *error,int *fine_quant,ec_enc *enc,int C){ LK_SNAP __real_quant_fine_energy(m,start,end,oldEBands,error,fine_quant,enc,C); if(lk_on) lk_energy(&lk_enc,LK_FINE,m,start,end,C,0,fine_quant,NULL,before,oldEBands); }
void __real_unquant_fine_energy(const CELTMode *m,int start,int end,celt_glog *oldEBands,int *fine_quant,ec_dec *dec,int C);
void __wrap_unquant_fine_energy(const CELTMode *m,int start,int end,celt_glog *oldEBands,int *fine_quant,ec_dec *dec,int C){ LK_SNAP __real_unquant_fine_energy(m,start,end,oldEBands,fine_quant,dec,C); if(lk_on&&!lk_private(dec)) lk_energy(&lk_dec,LK_FINE,m,start,end,C,0,fine_quant,NULL,before,oldEBands); }
void __real_quant_energy_finalise(const CELTMode *m,int start,int end,celt_glog *oldEBands,celt_glog *error,int *fine_quant,int *fine_priority,int bits_left,ec_enc *enc,int C);
void __wrap_quant_energy_finalise(const CELTMode *m,int start,int end,celt_glog *oldEBands,celt_glog *error,int *fine_quant,int *fine_priority,int bits_left,ec_enc *enc,int C){ LK_SNAP __real_quant_energy_finalise(m,start,end,oldEBands,error,fine_quant,fine_priority,bits_left,enc,C); if(lk_on) lk_energy(&lk_enc,LK_FINAL,m,start,end,C,bits_left,fine_quant,fine_priority,before,oldEBands); }
void __real_unquant_energy_finalise(const CELTMode *m,int start,int end,celt_glog *oldEBands,int *fine_quant,int *fine_priority,int bits_left,ec_dec *dec,int C);
void __wrap_unquant_energy_finalise(const CELTMode *m,int start,int end,celt_glog *oldEBands,int *fine_quant,int *fine_priority,int bits_left,ec_dec *dec,int C){ LK_SNAP __real_unquant_energy_finalise(m,start,end,oldEBands,fine_quant,fine_priority,bits_left,dec,C); if(lk_on&&!lk_private(dec)) lk_energy(&lk_dec,LK_FINAL,m,start,end,C,bits_left,fine_quant,fine_priority,before,oldEBands); }

int __real_clt_compute_allocation(const CELTMode *m,int start,int end,const int *offsets,const int *cap,int alloc_trim,int *intensity,int *dual_stereo,opus_int32 total,opus_int32 *balance,int *pulses,int *ebits,int *fine_priority,int C,int LM,ec_ctx *ec,int encode,int prev,int signalBandwidth);
int __wrap_clt_compute_allocation(const CELTMode *m,int start,int end,const int *offsets,const int *cap,int alloc_trim,int *intensity,int *dual_stereo,opus_int32 total,opus_int32 *balance,int *pulses,int *ebits,int *fine_priority,int C,int LM,ec_ctx *ec,int encode,int prev,int signalBandwidth){
  int ret=__real_clt_compute_allocation(m,start,end,offsets,cap,alloc_trim,intensity,dual_stereo,total,balance,pulses,ebits,fine_priority,C,LM,ec,encode,prev,signalBandwidth);
  if(lk_on&&(encode||!lk_private(ec))){ int nb=end-start; if(nb<0) nb=0; opus_int32 *p=lk_add(encode?&lk_enc:&lk_dec,LK_ALLOC,10+4*nb,0); if(p){ p[0]=start; p[1]=end; p[2]=C; p[3]=LM; p[4]=alloc_trim; p[5]=total; p[6]=ret; p[7]=*intensity; p[8]=*dual_stereo; p[9]=*balance; int o=10; for(int i=start;i<end;i++) p[o++]=offsets[i]; for(int i=start;i<end;i++) p[o++]=pulses[i]; for(int i=start;i<end;i++) p[o++]=ebits[i]; for(int i=start;i<end;i++) p[o++]=fine_priority[i]; } }
  return ret; }
void __real_quant_all_bands(int encode,const CELTMode *m,int start,int end,celt_norm *X,celt_norm *Y,unsigned char *collapse_masks,const celt_ener *bandE,int *pulses,int shortBlocks,int spread,int dual_stereo,int intensity,int *tf_res,opus_int32 total_bits,opus_int32 balance,ec_ctx *ec,int M,int codedBands,opus_uint32 *seed,int complexity,int arch,int disable_inv);
void __wrap_quant_all_bands(int encode,const CELTMode *m,int start,int end,celt_norm *X,celt_norm *Y,unsigned char *collapse_masks,const celt_ener *bandE,int *pulses,int shortBlocks,int spread,int dual_stereo,int intensity,int *tf_res,opus_int32 total_bits,opus_int32 balance,ec_ctx *ec,int M,int codedBands,opus_uint32 *seed,int complexity,int arch,int disable_inv){
  if(lk_on&&(encode||!lk_private(ec))){ int nb=end-start; if(nb<0) nb=0; opus_int32 *p=lk_add(encode?&lk_enc:&lk_dec,LK_QAB,11+2*nb,0); if(p){ p[0]=start; p[1]=end; p[2]=Y!=NULL; p[3]=shortBlocks; p[4]=spread; p[5]=dual_stereo; p[6]=intensity; p[7]=total_bits; p[8]=balance; p[9]=M; p[10]=codedBands; int o=11; for(int i=start;i<end;i++) p[o++]=tf_res[i]; for(int i=start;i<end;i++) p[o++]=pulses[i]; } }
  __real_quant_all_bands(encode,m,start,end,X,Y,collapse_masks,bandE,pulses,shortBlocks,spread,dual_stereo,intensity,tf_res,total_bits,balance,ec,M,codedBands,seed,complexity,arch,disable_inv); }
void __real_encode_pulses(const int *_y,int _n,int _k,ec_enc *_enc);
void __wrap_encode_pulses(const int *_y,int _n,int _k,ec_enc *_enc){ if(lk_on){ opus_int32 *p=lk_add(&lk_enc,LK_PVQ,2+_n,0); if(p){ p[0]=_n; p[1]=_k; for(int i=0;i<_n;i++) p[2+i]=_y[i]; } } __real_encode_pulses(_y,_n,_k,_enc); }
opus_val32 __real_decode_pulses(int *_y,int _n,int _k,ec_dec *_dec);
opus_val32 __wrap_decode_pulses(int *_y,int _n,int _k,ec_dec *_dec){ opus_val32 r=__real_decode_pulses(_y,_n,_k,_dec); if(lk_on){ opus_int32 *p=lk_add(&lk_dec,LK_PVQ,2+_n,0); if(p){ p[0]=_n; p[1]=_k; for(int i=0;i<_n;i++) p[2+i]=_y[i]; } } return r; }

/* SILK side information by meaning: fields that are not coded for the frame type are left out */
static void lk_sidx(lk_log *L,const SideInfoIndices *x,int lbrr,int frame,int cond,int nb_subfr,int order){ opus_int32 *p=lk_add(L,LK_SIDX,40,0); if(!p) return; for(int i=0;i<40;i++) p[i]=0; int o=0; p[o++]=lbrr; p[o++]=frame; p[o++]=cond; p[o++]=nb_subfr; p[o++]=order; p[o++]=x->signalType; p[o++]=x->quantOffsetType; p[o++]=x->Seed; for(int i=0;i<nb_subfr;i++) p[o++]=x->GainsIndices[i]; for(int i=0;i<=order;i++) p[o++]=x->NLSFIndices[i]; p[o++]=(nb_subfr==MAX_NB_SUBFR)?x->NLSFInterpCoef_Q2:4;
  if(x->signalType==TYPE_VOICED){ p[o++]=x->lagIndex; p[o++]=x->contourIndex; p[o++]=x->PERIndex; for(int i=0;i<nb_subfr;i++) p[o++]=x->LTPIndex[i]; p[o++]=(cond==CODE_INDEPENDENTLY)?x->LTP_scaleIndex:0; } }
void __real_silk_encode_indices(silk_encoder_state *psEncC,ec_enc *psRangeEnc,opus_int FrameIndex,opus_int encode_LBRR,opus_int condCoding);
void __wrap_silk_encode_indices(silk_encoder_state *psEncC,ec_enc *psRangeEnc,opus_int FrameIndex,opus_int encode_LBRR,opus_int condCoding){ if(lk_on) lk_sidx(&lk_enc,encode_LBRR?&psEncC->indices_LBRR[FrameIndex]:&psEncC->indices,encode_LBRR,FrameIndex,condCoding,psEncC->nb_subfr,psEncC->predictLPCOrder); __real_silk_encode_indices(psEncC,psRangeEnc,FrameIndex,encode_LBRR,condCoding); }
void __real_silk_decode_indices(silk_decoder_state *psDec,ec_dec *psRangeDec,opus_int FrameIndex,opus_int decode_LBRR,opus_int condCoding);
void __wrap_silk_decode_indices(silk_decoder_state *psDec,ec_dec *psRangeDec,opus_int FrameIndex,opus_int decode_LBRR,opus_int condCoding){ __real_silk_decode_indices(psDec,psRangeDec,FrameIndex,decode_LBRR,condCoding); if(lk_on) lk_sidx(&lk_dec,&psDec->indices,decode_LBRR,FrameIndex,condCoding,psDec->nb_subfr,psDec->LPC_order); }
void __real_silk_encode_pulses(ec_enc *psRangeEnc,const opus_int signalType,const opus_int quantOffsetType,opus_int8 pulses[],const opus_int frame_length);
void __wrap_silk_encode_pulses(ec_enc *psRangeEnc,const opus_int signalType,const opus_int quantOffsetType,opus_int8 pulses[],const opus_int frame_length){ if(lk_on){ opus_int32 *p=lk_add(&lk_enc,LK_SPULSES,3+frame_length,0); if(p){ p[0]=signalType; p[1]=quantOffsetType; p[2]=frame_length; for(int i=0;i<frame_length;i++) p[3+i]=pulses[i]; } } __real_silk_encode_pulses(psRangeEnc,signalType,quantOffsetType,pulses,frame_length); }
void __real_silk_decode_pulses(ec_dec *psRangeDec,opus_int16 pulses[],const opus_int signalType,const opus_int quantOffsetType,const opus_int frame_length);
void __wrap_silk_decode_pulses(ec_dec *psRangeDec,opus_int16 pulses[],const opus_int signalType,const opus_int quantOffsetType,const opus_int frame_length){ __real_silk_decode_pulses(psRangeDec,pulses,signalType,quantOffsetType,frame_length); if(lk_on){ opus_int32 *p=lk_add(&lk_dec,LK_SPULSES,3+frame_length,0); if(p){ p[0]=signalType; p[1]=quantOffsetType; p[2]=frame_length; for(int i=0;i<frame_length;i++) p[3+i]=pulses[i]; } } }
/* RFC 6716 section 4.2.7.1 (Table 7 and the reconstruction formula), typed in from the RFC */
static const int lk_w_Q13[16]={-13732,-10050,-8266,-7526,-6500,-5000,-2950,-820,820,2950,5000,6500,7526,8266,10050,13732};
void __real_silk_stereo_encode_pred(ec_enc *psRangeEnc,opus_int8 ix[2][3]);
void __wrap_silk_stereo_encode_pred(ec_enc *psRangeEnc,opus_int8 ix[2][3]){ if(lk_on){ opus_int32 *p=lk_add(&lk_enc,LK_SPRED,2,0); if(p){ int w[2]; for(int n=0;n<2;n++){ int wi=ix[n][0]+3*ix[n][2]; if(wi<0||wi>14){ w[n]=0x7fffffff; continue; } w[n]=lk_w_Q13[wi]+(((lk_w_Q13[wi+1]-lk_w_Q13[wi])*6554)>>16)*(2*ix[n][1]+1); } p[0]=w[0]-w[1]; p[1]=w[1]; } } __real_silk_stereo_encode_pred(psRangeEnc,ix); }
void __real_silk_stereo_decode_pred(ec_dec *psRangeDec,opus_int32 pred_Q13[]);
void __wrap_silk_stereo_decode_pred(ec_dec *psRangeDec,opus_int32 pred_Q13[]){ __real_silk_stereo_decode_pred(psRangeDec,pred_Q13); if(lk_on){ opus_int32 *p=lk_add(&lk_dec,LK_SPRED,2,0); if(p){ p[0]=pred_Q13[0]; p[1]=pred_Q13[1]; } } }
void __real_silk_stereo_encode_mid_only(ec_enc *psRangeEnc,opus_int8 mid_only_flag);
void __wrap_silk_stereo_encode_mid_only(ec_enc *psRangeEnc,opus_int8 mid_only_flag){ if(lk_on){ opus_int32 *p=lk_add(&lk_enc,LK_SMID,1,0); if(p) p[0]=mid_only_flag; } __real_silk_stereo_encode_mid_only(psRangeEnc,mid_only_flag); }
void __real_silk_stereo_decode_mid_only(ec_dec *psRangeDec,opus_int *decode_only_mid);
void __wrap_silk_stereo_decode_mid_only(ec_dec *psRangeDec,opus_int *decode_only_mid){ __real_silk_stereo_decode_mid_only(psRangeDec,decode_only_mid); if(lk_on){ opus_int32 *p=lk_add(&lk_dec,LK_SMID,1,0); if(p) p[0]=*decode_only_mid; } }

#ifdef FIXED_POINT
#define LK_ETOL 0.0
#else
#define LK_ETOL 5e-4   /* the finest energy step is 2^-9 (8 fine bits + the final bit) of 6 dB */
#endif
static double lk_maxdiff=0;
static long lk_underivable=0;
static int lk_same(const lk_log *A,const lk_ev *a,const lk_log *B,const lk_ev *b){ if(a->kind!=b->kind||a->nint!=b->nint||a->nflt!=b->nflt) return 0; const opus_int32 *pa=A->pool+a->off,*pb=B->pool+b->off;
  if(a->kind==LK_COARSE){ /* a = encoder (two readings), b = decoder */ if(memcmp(pa,pb,4*sizeof(opus_int32))) return 0; int n=(a->nint-6)/2; if(!pb[4]||(!pa[4]&&!pa[5])){ lk_underivable++; return 1; } if(pa[4]&&!memcmp(pa+6,pb+6,sizeof(opus_int32)*n)) return 1; if(pa[5]&&!memcmp(pa+6+n,pb+6,sizeof(opus_int32)*n)) return 1; return 0; } if(memcmp(pa,pb,sizeof(opus_int32)*a->nint)) return 0; double md=0;
  for(int i=a->nint;i<a->nint+a->nflt;i++){
#ifdef FIXED_POINT
    if(pa[i]!=pb[i]) return 0;
#else
    float x,y; memcpy(&x,&pa[i],4); memcpy(&y,&pb[i],4); double d=fabs((double)x-(double)y); if(!(d<=LK_ETOL)) return 0; if(d>md) md=d;
#endif
  }
  if(md>lk_maxdiff) lk_maxdiff=md; return 1; }
static void lk_describe(char *dst,size_t n,const lk_log *L,const lk_ev *e){ size_t o=0; const opus_int32 *p=L->pool+e->off; int lim=e->nint<44?e->nint:44; for(int i=0;i<lim&&o+14<n;i++) o+=snprintf(dst+o,n-o,"%d ",p[i]); if(e->nint>lim&&o+6<n) o+=snprintf(dst+o,n-o,"... ");
#ifndef FIXED_POINT
  if(e->nflt&&o+4<n) o+=snprintf(dst+o,n-o,"| "); for(int i=0;i<e->nflt&&i<42&&o+12<n;i++){ float x; memcpy(&x,&p[e->nint+i],4); o+=snprintf(dst+o,n-o,"%.3f ",x); }
#else
  if(e->nflt&&o+4<n) o+=snprintf(dst+o,n-o,"| "); for(int i=0;i<e->nflt&&i<42&&o+14<n;i++) o+=snprintf(dst+o,n-o,"%d ",p[e->nint+i]);
#endif
  if(n) dst[o<n?o:n-1]=0; }
/* per kind: the decoder's events in order must be found, in order, among the encoder's */
static int lk_match(int pktno,const unsigned char *pk,int len){ if(lk_enc.overflow||lk_dec.overflow){ vc_count("symlock_packets_log_overflow",1); return 0; }
  for(int kind=1;kind<LK_NK;kind++){ int ce=0, nd=0; for(int j=0;j<lk_dec.n;j++){ if(lk_dec.ev[j].kind!=kind) continue; nd++; int found=0, firstcand=-1; for(;ce<lk_enc.n;ce++){ if(lk_enc.ev[ce].kind!=kind) continue; if(firstcand<0) firstcand=ce; if(lk_same(&lk_enc,&lk_enc.ev[ce],&lk_dec,&lk_dec.ev[j])){ found=1; ce++; break; } }
      if(!found){ static char dd[700], ee[700], key[64]; if(vc_verbose){ fprintf(stderr,"  enc kinds:"); for(int q=0;q<lk_enc.n;q++) fprintf(stderr," %d",lk_enc.ev[q].kind); fprintf(stderr,"\n  dec kinds:"); for(int q=0;q<lk_dec.n;q++) fprintf(stderr," %d",lk_dec.ev[q].kind); fprintf(stderr,"\n"); for(int q=0;q<lk_enc.n;q++) if(lk_enc.ev[q].kind==kind){ lk_describe(ee,sizeof ee,&lk_enc,&lk_enc.ev[q]); fprintf(stderr,"  enc[%d] %s\n",q,ee); } for(int q=0;q<lk_dec.n;q++) if(lk_dec.ev[q].kind==kind){ lk_describe(ee,sizeof ee,&lk_dec,&lk_dec.ev[q]); fprintf(stderr,"  dec[%d] %s\n",q,ee); } } lk_describe(dd,sizeof dd,&lk_dec,&lk_dec.ev[j]); if(firstcand>=0) lk_describe(ee,sizeof ee,&lk_enc,&lk_enc.ev[firstcand]); else snprintf(ee,sizeof ee,"(the encoder coded no further value of this kind)"); snprintf(key,sizeof key,"symlock:%s",lk_names[kind]); char hx[200]; vc_hex(hx,sizeof hx,pk,len<90?len:90);
        vc_viol(key,"packet %d (%d bytes, %s%s): %s value %d read by the decoder was not written by the encoder for this packet; decoder: [%s] next encoder candidate: [%s]",pktno,len,hx,len>90?"...":"",lk_names[kind],nd,dd,ee); return 1; } }
    if(nd){ char cn[64]; snprintf(cn,sizeof cn,"symlock_%s_values_matched",lk_names[kind]); vc_count(cn,nd); vc_count("symlock_values_matched",nd); } }
  return 0; }

static void mode_symlock(void){
  vc_rng r; vc_case_rng(&r,41); int err; int Fs=VC_PICK(&r,vk_rates), ch=1+(int)vc_below(&r,2); int app=VC_PICK(&r,vk_apps); OpusEncoder *e=opus_encoder_create(Fs,ch,app,&err); OpusDecoder *d=opus_decoder_create(Fs,ch,&err); if(!e||!d){ fprintf(stderr,"create failed\n"); exit(3); }
  int style=vc_below(&r,6);   /* 0 starved MDCT frames (the few-bits codes), 1 forced SILK, 2 forced hybrid, 3 forced MDCT, 4/5 free with setting changes */
  int fidx=vc_range(&r,0,5); int cbr=vc_chance(&r,1,2); int bytes=0;
  if(style==0){ opus_encoder_ctl(e,VK_SET_FORCE_MODE_REQUEST,VK_MODE_CELT); fidx=vc_range(&r,0,3); cbr=1; bytes=vc_range(&r,2,14)*(ch==2&&vc_chance(&r,1,2)?2:1); }
  else if(style==1){ opus_encoder_ctl(e,VK_SET_FORCE_MODE_REQUEST,VK_MODE_SILK); fidx=vc_range(&r,2,5); opus_encoder_ctl(e,OPUS_SET_BITRATE(vc_range(&r,5000,45000)*ch)); }
  else if(style==2){ opus_encoder_ctl(e,VK_SET_FORCE_MODE_REQUEST,VK_MODE_HYBRID); fidx=vc_range(&r,2,5); opus_encoder_ctl(e,OPUS_SET_BITRATE(vc_range(&r,12000,70000)*ch)); }
  else if(style==3){ opus_encoder_ctl(e,VK_SET_FORCE_MODE_REQUEST,VK_MODE_CELT); opus_encoder_ctl(e,OPUS_SET_BITRATE(vc_chance(&r,1,3)?vc_range(&r,6000,24000):vc_range(&r,16000,200000)*ch)); }
  else opus_encoder_ctl(e,OPUS_SET_BITRATE(vk_rand_bitrate(&r,ch)));
  opus_encoder_ctl(e,OPUS_SET_COMPLEXITY(vc_below(&r,11))); opus_encoder_ctl(e,OPUS_SET_VBR(!cbr)); if(vc_chance(&r,1,2)) opus_encoder_ctl(e,OPUS_SET_VBR_CONSTRAINT(vc_below(&r,2)));
  if(vc_chance(&r,1,3)){ opus_encoder_ctl(e,OPUS_SET_INBAND_FEC(1+(int)vc_below(&r,2))); opus_encoder_ctl(e,OPUS_SET_PACKET_LOSS_PERC(vc_range(&r,5,40))); }
  if(vc_chance(&r,1,3)) opus_encoder_ctl(e,OPUS_SET_BANDWIDTH(OPUS_BANDWIDTH_NARROWBAND+(int)vc_below(&r,5))); if(ch==2&&vc_chance(&r,1,4)) opus_encoder_ctl(e,OPUS_SET_FORCE_CHANNELS(1+(int)vc_below(&r,2))); if(vc_chance(&r,1,6)) opus_encoder_ctl(e,OPUS_SET_DTX(1));
  if(vc_chance(&r,1,5)) opus_encoder_ctl(e,OPUS_SET_PHASE_INVERSION_DISABLED(1)); if(vc_chance(&r,1,6)) opus_encoder_ctl(e,OPUS_SET_PREDICTION_DISABLED(1));
  vk_encset set; vk_encset_default(&set,app);
  vc_siggen g; vs_init(&g,vc_chance(&r,1,3)?VS_SPEECHLIKE:(int)vc_below(&r,VS_NFINITE),Fs,ch,(float)(0.02+0.9*vc_unit(&r)),vc_next(&r)); static float in[5760*2], out[5760*2]; unsigned char pk[1500]; double mono=vc_chance(&r,1,3)?vc_unit(&r):0;
  int nframes=(style==0)?60:30;
  for(int k=0;k<nframes;k++){
    if(style>=4&&vc_chance(&r,1,4)) vk_enc_random_ctl(e,&set,&r,ch,NULL,0); if(style>=4&&vc_chance(&r,1,8)) fidx=vc_range(&r,0,5); if(style==0&&vc_chance(&r,1,6)) bytes=vc_range(&r,2,16)*(ch==2&&vc_chance(&r,1,2)?2:1);
    if(style>=1&&style<=3&&vc_chance(&r,1,8)) opus_encoder_ctl(e,OPUS_SET_BITRATE(vc_range(&r,5000,60000)*ch));
    int fs=vk_frame_samples(Fs,fidx); vs_fill(&g,in,fs); if(ch==2&&mono>0) for(int i=0;i<fs;i++){ float m=0.5f*(in[2*i]+in[2*i+1]); in[2*i]=(float)(mono*m+(1-mono)*in[2*i]); in[2*i+1]=(float)(mono*m+(1-mono)*in[2*i+1]); }
    int maxb=1500; if(style==0){ maxb=bytes; opus_encoder_ctl(e,OPUS_SET_BITRATE(OPUS_BITRATE_MAX)); } else if(vc_chance(&r,1,10)) maxb=vc_range(&r,3,60);
    lk_reset(&lk_enc); lk_reset(&lk_dec); lk_on=1; int len=opus_encode_float(e,in,fs,pk,maxb); lk_on=0; if(len<=0){ if(len==OPUS_BUFFER_TOO_SMALL) continue; vc_viol("symlock:encode","opus_encode_float returned %d (Fs %d, %d ch, frame %d, buffer %d)",len,Fs,ch,fs,maxb); break; }
    lk_on=2; int rc=opus_decode_float(d,pk,len,out,5760,0); lk_on=0; if(rc!=fs){ vc_viol("symlock:decode","decoder returned %d for a %d-sample packet",rc,fs); break; }
    if(vc_verbose){ opus_uint32 re=0,rd=0; opus_encoder_ctl(e,OPUS_GET_FINAL_RANGE(&re)); opus_decoder_ctl(d,OPUS_GET_FINAL_RANGE(&rd)); fprintf(stderr,"k=%d fs=%d maxb=%d len=%d toc=%02x enc.n=%d dec.n=%d range %08x %08x\n",k,fs,maxb,len,pk[0],lk_enc.n,lk_dec.n,re,rd); }
    vc_count("symlock_packets",1); if(lk_dec.n==0){ vc_count("symlock_packets_without_coded_values",1); continue; }
    if(lk_match(k,pk,len)) break;
    vc_sig3((uint64_t)(pk[0]>>3)|((uint64_t)style<<8),(uint64_t)(len<6?len:(len<20?6:(len<100?7:8))),(uint64_t)(pk[0]&7)); }
#ifndef FIXED_POINT
  vc_max("symlock_max_energy_increment_difference",lk_maxdiff);
#endif
  if(lk_underivable){ vc_count("symlock_coarse_steps_not_recoverable",lk_underivable); lk_underivable=0; }
  opus_encoder_destroy(e); opus_decoder_destroy(d);
}
