/* vrel.h -- exact relations between the float, 16-bit and 24-bit views of decoder output (C13, C19).
 * Float build:   out24 = round_to_nearest(out_f * 2^23)            (saturating at the int32 limits: never wraps)
 *                out16 = sat16(round(32768 * softclip(out_f)))      for normally decoded packets, softclip = the library's
 *                                                                   opus_pcm_soft_clip with one memory per decoder
 *                out16 = sat16(round(32768 * out_f))                for concealment / FEC calls (returned before the clipper)
 * The monitor keeps its own clip memory per 16-bit twin and runs the *library's* soft clipper on the float twin's output. */
#ifndef VREL_H
#define VREL_H
#include "opus.h"
#include <math.h>
#include <string.h>

typedef struct { float mem[2]; } vr_clip;
static void vr_clip_reset(vr_clip *c){ c->mem[0]=c->mem[1]=0; }
static inline opus_int16 vr_sat16(float x){ x*=32768.f; if(!(x>-32768.f)) x=-32768.f; if(!(x<32767.f)) x=32767.f; return (opus_int16)lrintf(x); }
/* expected 16-bit samples from the float twin's output of the same call */
static void vr_expect16(vr_clip *c,const float *of,int n,int ch,int normal,opus_int16 *exp16){ static float tmp[5760*2*3]; memcpy(tmp,of,sizeof(float)*n*ch); if(normal) opus_pcm_soft_clip(tmp,n,ch,c->mem); for(int i=0;i<n*ch;i++) exp16[i]=vr_sat16(tmp[i]); }
/* 24-bit: 0 = equal to the rounded product; 1 = product not representable and output saturated with the right sign; <0 = violation */
static int vr_check24(float f,opus_int32 v){ double p=(double)f*8388608.0; if(p>=2147483648.0-64) return (v>=2147483647-256)?1:-1; if(p<=-2147483648.0+64) return (v<=-2147483647-1+256)?1:-1; return v==(opus_int32)lrintf(f*8388608.f)?0:-2; }
#endif
