/* C17 -- PVQ, Laplace and table-driven symbol codes are exact, prefix-free bijections.
 * The real functions are run (the static PVQ index functions by compiling /repo's celt/cwrs.c into this unit, everything else from
 * libopus.a) under link-time interposition (-Wl,--wrap) of the range-coder primitives.   Modes:
 *   pvq      every (N,K) the static mode can reach: V(N,K) vs the bignum recurrence, cwrsi/icwrs bijection (all indices when
 *            V <= vmax, stratified otherwise), encode_pulses/decode_pulses through a real range coder        [case = cache row]
 *   cache    bits-to-pulses cache: monotone and consistent with V                                              [1 case]
 *   laplace  every (fs,decay) pair the real coarse-energy decoder uses: all 32768 probability points tile into disjoint intervals,
 *            encode commits the decoder's interval of the clamped value, real-coder round trip               [case = pair]
 *   icdf     (a) every table actually passed to ec_enc_icdf/ec_dec_icdf(16) during a broad encode+decode+hostile-decode
 *            workload, (b) every object of the running binary whose name contains "icdf"                       [1 case]
 *   symlock  (h_c17_lock.h) every value the live decoder reads through a symbol code was written by the live encoder [case = stream]
 */
#include "vcodec.h"
#include "arch.h"
#include "entenc.h"
#include "entdec.h"
#include "modes.h"
#include "rate.h"
#include "laplace.h"
#include "quant_bands.h"
/* the PVQ index functions are static: compile the working tree's cwrs.c into this unit under other names */
#define encode_pulses vv_encode_pulses
#define decode_pulses vv_decode_pulses
#define log2_frac vv_log2_frac
#define get_required_bits vv_get_required_bits
#include "cwrs.c"
#undef encode_pulses
#undef decode_pulses
void encode_pulses(const int *_y,int _n,int _k,ec_enc *_enc);
opus_val32 decode_pulses(int *_y,int _n,int _k,ec_dec *_dec);

typedef unsigned __int128 u128;
#define VN 200
#define VK 200
static u128 Vt[VN+1][VK+1]; static int Vinit=0;
static u128 Ut[VN+1][VK+2];
static void v_init(void){ if(Vinit) return; Vinit=1; u128 cap=(u128)1<<100; for(int n=0;n<=VN;n++) for(int k=0;k<=VK+1;k++){ if(n==0) Ut[n][k]=(k==0); else if(k==0) Ut[n][k]=0; else { u128 s=Ut[n-1][k]+Ut[n][k-1]+Ut[n-1][k-1]; Ut[n][k]=s>cap?cap:s; } } for(int k=0;k<=VK;k++) Vt[0][k]=k==0; for(int n=1;n<=VN;n++){ Vt[n][0]=1; for(int k=1;k<=VK;k++){ u128 s=Vt[n-1][k]+Vt[n][k-1]+Vt[n-1][k-1]; Vt[n][k]=s>cap?cap:s; } } }

static const CELTMode *the_mode(void){ static const CELTMode *m; if(!m){ int err; m=opus_custom_mode_create(48000,960,&err); if(!m){ fprintf(stderr,"no static mode\n"); exit(3); } } return m; }
/* rows of the pulse cache: (LMi, band) -> N, list of K */
static int row_info(int idx,int *pN,int *pLM,int *pband,const unsigned char **prow){ const CELTMode *m=the_mode(); int nb=m->nbEBands; int LMi=idx/nb, j=idx%nb; if(LMi>m->maxLM+1) return 0; int ci=m->cache.index[LMi*nb+j]; if(ci<0) return -1; int N=((m->eBands[j+1]-m->eBands[j])<<LMi)>>1; *pN=N; *pLM=LMi-1; *pband=j; *prow=m->cache.bits+ci; return 1; }

static long VMAX=1<<20;
static int check_index(int N,int K,opus_uint32 i,opus_uint32 V){ int y[VN+8]; for(int q=0;q<N+2;q++) y[q]=-777777; cwrsi(N,K,i,y); long s=0; for(int q=0;q<N;q++){ s+=labs((long)y[q]); } if(y[N]!=-777777){ vc_viol("pvq:decode-overrun","cwrsi(N=%d,K=%d) wrote past N entries",N,K); return 1; }
  if(s!=K){ vc_viol("pvq:pulse-count","cwrsi(N=%d,K=%d,i=%u of %u) gives %ld pulses",N,K,i,V,s); return 1; } opus_uint32 j=icwrs(N,y); if(j!=i){ vc_viol("pvq:not-bijective","N=%d K=%d: index %u decodes to a vector that encodes to %u (V=%u)",N,K,i,j,V); return 1; } return 0; }

static void mode_pvq(void){
  v_init(); VMAX=vc_argl("vmax",1<<20); int N,LM,band; const unsigned char *row; int ri=row_info((int)vc_case,&N,&LM,&band,&row); if(ri<=0) return; if(N<2){ return; }
  vc_rng r; vc_case_rng(&r,17); int maxp=row[0];
  /* every U(n,k) the index functions can consult for this row: 0<=n<=N, 0<=k<=Kmax+1 (decoding walks n down and k down) */
  { int Kmax=get_pulses(maxp); for(int n=0;n<=N;n++) for(int k=0;k<=Kmax+1&&k<=VK;k++){ if(n==0||k==0||(n<k?n:k)>14) continue; /* the table starts at U(1,1) and has rows 0..14 */ if(Ut[n][k]>=((u128)1<<32)) continue; opus_uint32 u=CELT_PVQ_U(n,k); if((u128)u!=Ut[n][k]){ vc_viol("pvq:u-recurrence","U(%d,%d)=%u in the code's table, %llu from the recurrence (consulted when coding N=%d with up to %d pulses)",n,k,u,(unsigned long long)Ut[n][k],N,Kmax); return; } vc_count("pvq_U_entries_checked",1); } }
  for(int p=1;p<=maxp;p++){ int K=get_pulses(p); if(N>VN||K>VK-1){ vc_viol("pvq:model-range","(N=%d,K=%d) outside the monitor's table",N,K); return; }
    u128 Vx=Vt[N][K]; if(Vx>=((u128)1<<32)){ vc_viol("pvq:v-overflow","V(%d,%d) does not fit 32 bits but is reachable (LM=%d band %d, cache entry %d)",N,K,LM,band,p); continue; }
    opus_uint32 V=CELT_PVQ_V(N,K); if((u128)V!=Vx){ vc_viol("pvq:v-recurrence","V(%d,%d)=%u from the code, %llu from the recurrence",N,K,V,(unsigned long long)Vx); continue; }
    /* U as well: U(N,K)+U(N,K+1)=V */
    vc_count("pvq_NK_pairs",1);
    if((long)V<=VMAX){ for(opus_uint32 i=0;i<V;i++) if(check_index(N,K,i,V)) return; vc_count("pvq_pairs_exhaustive",1); vc_count("pvq_indices_checked",V); }
    else { opus_uint32 probes[80]; int np=0; probes[np++]=0; probes[np++]=1; probes[np++]=V-1; probes[np++]=V-2; probes[np++]=V/2; for(int b=1;b<32&&((opus_uint32)1<<b)<V;b++){ probes[np++]=((opus_uint32)1<<b); if(((opus_uint32)1<<b)+1<V) probes[np++]=((opus_uint32)1<<b)+1; } for(int q=0;q<np;q++) if(check_index(N,K,probes[q],V)) return; int nr=(int)vc_argl("samples",4000); for(int q=0;q<nr;q++) if(check_index(N,K,(opus_uint32)(vc_next(&r)%V),V)) return; vc_count("pvq_pairs_sampled",1); vc_count("pvq_indices_checked",np+nr); }
    /* public entry points with a real range coder: random vectors round-trip */
    { unsigned char buf[64]; int y[VN+4], z[VN+4]; for(int t=0;t<6;t++){ memset(y,0,sizeof(int)*N); for(int q=0;q<K;q++){ int pos=vc_below(&r,N); y[pos]+= (y[pos]>0)?1:(y[pos]<0?-1:(vc_chance(&r,1,2)?1:-1)); } ec_enc enc; ec_enc_init(&enc,buf,sizeof buf); encode_pulses(y,N,K,&enc); ec_enc_done(&enc); if(enc.error){ vc_viol("pvq:coder-error","encode_pulses(N=%d,K=%d) overflowed a 64-byte buffer",N,K); return; } ec_dec dec; ec_dec_init(&dec,buf,sizeof buf); decode_pulses(z,N,K,&dec); if(memcmp(y,z,sizeof(int)*N)){ vc_viol("pvq:coder-roundtrip","encode_pulses/decode_pulses N=%d K=%d do not round-trip",N,K); return; } } vc_count("pvq_coder_roundtrips",6); }
    vc_sig3(N,K,(uint64_t)((long)V<=VMAX)); }
  if(vc_want_sample()) vc_sample("{\"mode\":\"pvq\",\"LM\":%d,\"band\":%d,\"N\":%d,\"cache_entries\":%d,\"maxK\":%d}",LM,band,N,maxp,get_pulses(maxp));
}

static void mode_cache(void){
  v_init(); const CELTMode *m=the_mode(); int rows=0;
  for(int idx=0;idx<(m->maxLM+2)*m->nbEBands;idx++){ int N,LM,band; const unsigned char *row; if(row_info(idx,&N,&LM,&band,&row)<=0) continue; if(N<1) continue; rows++; int maxp=row[0]; int prev=-1;
    for(int p=1;p<=maxp;p++){ int K=get_pulses(p); int b=row[p]; if(b<prev){ vc_viol("cache:not-monotone","LM=%d band %d N=%d: bits[%d]=%d < bits[%d]=%d",LM,band,N,p,b,p-1,prev); return; } prev=b;
      if(N>VN||K>=VK) continue; u128 V=Vt[N][K]; /* exact ceil(8*log2 V): smallest e with 2^e >= V^8 -> compare in long double, then fix up exactly */
      long double l=0; { u128 v=V; int sh=0; while(v>>64){ v>>=1; sh++; } l=log2l((long double)(unsigned long long)v)+sh; } int e=(int)ceill(8*l-1e-9L);
      /* the cache stores (bits needed in 1/8 bit units) - 1, computed with a conservative log2: never below the exact value, at most 1/8 bit above */
      if(b+1<e||b+1>e+1){ vc_viol("cache:inconsistent-with-V","LM=%d band %d N=%d K=%d: cache says %d eighth-bits, ceil(8 log2 V)=%d (V~2^%.3Lf)",LM,band,N,K,b+1,e,l); return; }
      vc_count("cache_entries_checked",1); vc_sig3(N,K,b); } }
  vc_count("cache_rows",rows);
}

/* ---------------------------------------------------------------- laplace: interposed primitives */
static int fake_dec=0; static unsigned fake_fm; static unsigned rec_fl,rec_fh,rec_ft; static int rec_n;
unsigned __real_ec_decode_bin(ec_dec *d,unsigned bits); void __real_ec_dec_update(ec_dec *d,unsigned fl,unsigned fh,unsigned ft); void __real_ec_encode_bin(ec_enc *e,unsigned fl,unsigned fh,unsigned bits);
unsigned __wrap_ec_decode_bin(ec_dec *d,unsigned bits){ if(fake_dec){ if(bits!=15){ vc_viol("laplace:precision","ec_decode_bin called with %u bits",bits); } return fake_fm; } return __real_ec_decode_bin(d,bits); }
void __wrap_ec_dec_update(ec_dec *d,unsigned fl,unsigned fh,unsigned ft){ if(vc_verbose>2) fprintf(stderr,"   dec_update [%u,%u) of %u tell=%d storage=%u\n",fl,fh,ft,ec_tell(d),d->storage); if(fake_dec){ rec_fl=fl; rec_fh=fh; rec_ft=ft; rec_n++; return; } __real_ec_dec_update(d,fl,fh,ft); }
static int fake_enc=0;
void __wrap_ec_encode_bin(ec_enc *e,unsigned fl,unsigned fh,unsigned bits){ if(vc_verbose>2) fprintf(stderr,"   encode_bin [%u,%u) bits %u tell=%d storage=%u\n",fl,fh,bits,ec_tell(e),e->storage); if(fake_enc){ rec_fl=fl; rec_fh=fh; rec_ft=1u<<bits; rec_n++; return; } __real_ec_encode_bin(e,fl,fh,bits); }
/* pair collection */
static unsigned pairs[400][2]; static int npairs=0; static int collecting=0;
int __real_ec_laplace_decode(ec_dec *dec,unsigned fs,int decay);
int __wrap_ec_laplace_decode(ec_dec *dec,unsigned fs,int decay){ if(collecting){ int f=0; for(int i=0;i<npairs;i++) if(pairs[i][0]==fs&&pairs[i][1]==(unsigned)decay) f=1; if(!f&&npairs<400){ pairs[npairs][0]=fs; pairs[npairs][1]=decay; npairs++; } } return __real_ec_laplace_decode(dec,fs,decay); }
static void collect_pairs(void){ if(npairs) return; const CELTMode *m=the_mode(); unsigned char buf[1275]; vc_rng r; vc_rng_seed(&r,99); collecting=1;
  for(int LM=0;LM<=m->maxLM;LM++) for(int intra=0;intra<2;intra++) for(int t=0;t<3;t++){ for(int i=0;i<1275;i++) buf[i]=(unsigned char)vc_u32(&r); celt_glog old[2*25]; memset(old,0,sizeof old); ec_dec dec; ec_dec_init(&dec,buf,1275); unquant_coarse_energy(m,0,m->nbEBands,old,intra,&dec,1,LM); }
  collecting=0; }

static void mode_laplace(void){
  collect_pairs(); if(vc_case>=npairs) return; unsigned fs0=pairs[vc_case][0]; int decay=(int)pairs[vc_case][1];
  static int val[32768]; static unsigned lo[32768], hi[32768]; ec_dec dd; memset(&dd,0,sizeof dd);
  fake_dec=1; int vmin=0,vmax=0;
  for(unsigned fm=0;fm<32768;fm++){ fake_fm=fm; rec_n=0; int v=__real_ec_laplace_decode(&dd,fs0,decay); if(rec_n!=1||rec_ft!=32768){ fake_dec=0; vc_viol("laplace:update","decode(fs=%u,decay=%d,fm=%u) committed %d intervals (ft=%u)",fs0,decay,fm,rec_n,rec_ft); return; }
    val[fm]=v; lo[fm]=rec_fl; hi[fm]=rec_fh; if(v<vmin) vmin=v; if(v>vmax) vmax=v;
    if(!(rec_fl<=fm&&fm<rec_fh&&rec_fh<=32768)){ fake_dec=0; vc_viol("laplace:point-outside-interval","fs=%u decay=%d: point %u decoded to %d with interval [%u,%u)",fs0,decay,fm,v,rec_fl,rec_fh); return; } }
  fake_dec=0;
  /* tiling: walking up, the interval either stays or starts exactly where the previous one ended; one value <-> one interval */
  static unsigned ilo[4096], ihi[4096]; static char seen[4096]; memset(seen,0,sizeof seen); int off=-vmin; if(vmax-vmin>=4096){ vc_viol("laplace:range","value range %d..%d too wide",vmin,vmax); return; }
  if(lo[0]!=0){ vc_viol("laplace:gap","fs=%u decay=%d: first interval starts at %u",fs0,decay,lo[0]); return; }
  for(unsigned fm=0;fm<32768;fm++){ int v=val[fm]+off; if(fm>0&&(lo[fm]!=lo[fm-1]||hi[fm]!=hi[fm-1])){ if(lo[fm]!=hi[fm-1]){ vc_viol(lo[fm]<hi[fm-1]?"laplace:overlap":"laplace:gap","fs=%u decay=%d: interval [%u,%u) of value %d follows [%u,%u) of value %d",fs0,decay,lo[fm],hi[fm],val[fm],lo[fm-1],hi[fm-1],val[fm-1]); return; } if(val[fm]==val[fm-1]){ vc_viol("laplace:value-split","fs=%u decay=%d: value %d has two intervals",fs0,decay,val[fm]); return; } }
    if(seen[v]){ if(ilo[v]!=lo[fm]||ihi[v]!=hi[fm]){ vc_viol("laplace:value-split","fs=%u decay=%d: value %d maps to [%u,%u) and [%u,%u)",fs0,decay,val[fm],ilo[v],ihi[v],lo[fm],hi[fm]); return; } } else { seen[v]=1; ilo[v]=lo[fm]; ihi[v]=hi[fm]; } }
  if(hi[32767]!=32768){ vc_viol("laplace:gap","fs=%u decay=%d: last interval ends at %u",fs0,decay,hi[32767]); return; }
  int nvals=0; for(int v=0;v<=vmax-vmin;v++) if(seen[v]) nvals++; vc_count("laplace_points_checked",32768); vc_count("laplace_values",nvals);
  /* encoder commits exactly the decoder's interval for the value it reports after clamping */
  ec_enc ee; memset(&ee,0,sizeof ee); fake_enc=1;
  for(int v=vmin-6;v<=vmax+6;v++){ int vv=v; rec_n=0; ec_laplace_encode(&ee,&vv,fs0,decay); if(rec_n!=1||rec_ft!=32768){ fake_enc=0; vc_viol("laplace:update","encode(%d) committed %d intervals",v,rec_n); return; }
    if(vv<vmin||vv>vmax||!seen[vv+off]){ fake_enc=0; vc_viol("laplace:encode-unknown-value","fs=%u decay=%d: encode(%d) reports %d, which the decoder never produces (range %d..%d)",fs0,decay,v,vv,vmin,vmax); return; }
    if(rec_fl!=ilo[vv+off]||rec_fh!=ihi[vv+off]){ fake_enc=0; vc_viol("laplace:encode-decode-mismatch","fs=%u decay=%d: encode(%d -> %d) commits [%u,%u), decoder's interval for %d is [%u,%u)",fs0,decay,v,vv,rec_fl,rec_fh,vv,ilo[vv+off],ihi[vv+off]); return; }
    if(v>=vmin&&v<=vmax&&seen[v+off]&&vv!=v){ fake_enc=0; vc_viol("laplace:needless-clamp","fs=%u decay=%d: encode(%d) clamps to %d although the decoder can produce %d",fs0,decay,v,vv,v); return; }
    if((v<0&&vv>0)||(v>0&&vv<0)){ fake_enc=0; vc_viol("laplace:clamp-sign","encode(%d) clamps to %d",v,vv); return; } }
  fake_enc=0; vc_count("laplace_encodes_checked",vmax-vmin+13);
  /* real coder round trip */
  { vc_rng r; vc_case_rng(&r,3); unsigned char buf[400]; int vs[60], vo[60]; ec_enc enc; ec_enc_init(&enc,buf,sizeof buf); for(int i=0;i<60;i++){ vs[i]=vc_chance(&r,1,4)?vc_range(&r,vmin-3,vmax+3):vc_range(&r,-6,6); vo[i]=vs[i]; ec_laplace_encode(&enc,&vo[i],fs0,decay); } ec_enc_done(&enc);
    if(!enc.error){ ec_dec dec; ec_dec_init(&dec,buf,sizeof buf); for(int i=0;i<60;i++){ int d=ec_laplace_decode(&dec,fs0,decay); if(d!=vo[i]){ vc_viol("laplace:coder-roundtrip","fs=%u decay=%d: value %d (clamped %d) decodes as %d",fs0,decay,vs[i],vo[i],d); return; } } vc_count("laplace_coder_roundtrips",60); } }
  /* the p0 variant (table-driven) round-trips through a real coder */
  { vc_rng r; vc_case_rng(&r,4); for(int t=0;t<20;t++){ unsigned char buf[600]; opus_uint16 p0=(opus_uint16)vc_range(&r,1,32700), dec16=(opus_uint16)vc_range(&r,0,32000); int vs[40]; ec_enc enc; ec_enc_init(&enc,buf,sizeof buf); for(int i=0;i<40;i++){ vs[i]=vc_range(&r,-12,12); ec_laplace_encode_p0(&enc,vs[i],p0,dec16); } ec_enc_done(&enc); if(enc.error) continue; ec_dec dec; ec_dec_init(&dec,buf,sizeof buf); for(int i=0;i<40;i++){ int d=ec_laplace_decode_p0(&dec,p0,dec16); if(d!=vs[i]){ /* the p0 coder saturates large magnitudes at the end of its table; accept that documented clamping only */ if(!(abs(vs[i])>=7&&abs(d)<=abs(vs[i])&&((d<0)==(vs[i]<0)||d==0))){ vc_viol("laplace:p0-roundtrip","p0=%u decay=%u: %d decodes as %d",p0,dec16,vs[i],d); return; } break; } } vc_count("laplace_p0_roundtrips",1); } }
  vc_sig3(fs0,decay,nvals);
  if(vc_want_sample()) vc_sample("{\"mode\":\"laplace\",\"fs\":%u,\"decay\":%d,\"values\":[%d,%d],\"intervals\":%d}",fs0,decay,vmin,vmax,nvals);
}

/* ---------------------------------------------------------------- icdf */
#define MAXT 2000
static struct { const void *p; int is16; unsigned ftb; long uses; } seen_t[MAXT]; static int nseen=0; static int icdf_on=0;
static void check_table(const void *tab,int is16,unsigned ftb,int sym,const char *who){ int len=-1; unsigned prev=1u<<ftb; unsigned first=is16?((const opus_uint16*)tab)[0]:((const unsigned char*)tab)[0];
  if(first>=(1u<<ftb)&&!(first==0)){ /* icdf[0] = ft - P(sym 0) must be below ft */ vc_viol("icdf:first-entry","%s: table %p first entry %u not below 2^%u",who,tab,first,ftb); return; }
  for(int i=0;i<256;i++){ unsigned v=is16?((const opus_uint16*)tab)[i]:((const unsigned char*)tab)[i]; if(v>=prev){ vc_viol("icdf:not-decreasing","%s: table %p entry %d = %u after %u (ftb %u)",who,tab,i,v,prev,ftb); return; } prev=v; if(v==0){ len=i; break; } }
  if(len<0){ vc_viol("icdf:no-terminator","%s: table %p has no terminating 0 within 256 entries",who,tab); return; }
  if(sym>=0&&sym>len){ vc_viol("icdf:symbol-out-of-range","%s: symbol %d beyond the terminating entry %d of table %p",who,sym,len,tab); return; }
  for(int i=0;i<nseen;i++) if(seen_t[i].p==tab){ seen_t[i].uses++; return; } if(nseen<MAXT){ seen_t[nseen].p=tab; seen_t[nseen].is16=is16; seen_t[nseen].ftb=ftb; seen_t[nseen].uses=1; nseen++; } }
void __real_ec_enc_icdf(ec_enc *e,int s,const unsigned char *icdf,unsigned ftb); int __real_ec_dec_icdf(ec_dec *d,const unsigned char *icdf,unsigned ftb);
void __real_ec_enc_icdf16(ec_enc *e,int s,const opus_uint16 *icdf,unsigned ftb); int __real_ec_dec_icdf16(ec_dec *d,const opus_uint16 *icdf,unsigned ftb);
void __wrap_ec_enc_icdf(ec_enc *e,int s,const unsigned char *icdf,unsigned ftb){ if(icdf_on) check_table(icdf,0,ftb,s,"ec_enc_icdf"); __real_ec_enc_icdf(e,s,icdf,ftb); }
int __wrap_ec_dec_icdf(ec_dec *d,const unsigned char *icdf,unsigned ftb){ if(icdf_on) check_table(icdf,0,ftb,-1,"ec_dec_icdf"); return __real_ec_dec_icdf(d,icdf,ftb); }
void __wrap_ec_enc_icdf16(ec_enc *e,int s,const opus_uint16 *icdf,unsigned ftb){ if(icdf_on) check_table(icdf,1,ftb,s,"ec_enc_icdf16"); __real_ec_enc_icdf16(e,s,icdf,ftb); }
int __wrap_ec_dec_icdf16(ec_dec *d,const opus_uint16 *icdf,unsigned ftb){ if(icdf_on) check_table(icdf,1,ftb,-1,"ec_dec_icdf16"); return __real_ec_dec_icdf16(d,icdf,ftb); }

int main(int argc,char **argv);
static void mode_icdf(void){
  /* (a) live tables */
  icdf_on=1; vk_pool_init(); int err; vc_rng r; vc_case_rng(&r,5); static float out[5760*2]; static unsigned char hb[2200];
  for(int s=0;s<vk_pool_n;s++){ vk_stream *st=&vk_pool[s]; OpusDecoder *d=opus_decoder_create(st->Fs,st->ch,&err); for(int k=0;k<st->n;k++){ opus_decode_float(d,st->pkt[k],st->len[k],out,5760,0); if(k%5==4){ opus_decode_float(d,NULL,0,out,st->Fs/50,0); opus_decode_float(d,st->pkt[k],st->len[k],out,opus_packet_get_nb_samples(st->pkt[k],st->len[k],st->Fs),1); } memcpy(hb,st->pkt[k],st->len[k]); int l=vk_mutate(&r,hb,st->len[k],2000); opus_decode_float(d,hb,l,out,5760,0); } opus_decoder_destroy(d); }
  for(int t=0;t<3000;t++){ int l=vk_hostile(&r,hb,1500,0); OpusDecoder *d=opus_decoder_create(VC_PICK(&r,vk_rates),1+vc_below(&r,2),&err); opus_decode_float(d,hb,l,out,5760,0); opus_decoder_destroy(d); }
  /* extra encoder coverage: low rates, stereo SILK, all bandwidths */
  for(int t=0;t<40;t++){ int Fs=VC_PICK(&r,vk_rates), ch=1+vc_below(&r,2); OpusEncoder *e=opus_encoder_create(Fs,ch,VC_PICK(&r,vk_apps),&err); vk_encset set; vk_encset_default(&set,OPUS_APPLICATION_AUDIO); vc_siggen g; vs_init(&g,vc_below(&r,VS_NFINITE),Fs,ch,0.5f,vc_next(&r)); static float in[5760*2]; unsigned char pk[1500]; for(int k=0;k<25;k++){ if(vc_chance(&r,1,2)) vk_enc_random_ctl(e,&set,&r,ch,NULL,0); int fs=vk_frame_samples(Fs,vc_below(&r,9)); vs_fill(&g,in,fs); opus_encode_float(e,in,fs,pk,1500); } opus_encoder_destroy(e); }
  icdf_on=0; vc_count("icdf_live_tables_distinct",nseen); long uses=0; for(int i=0;i<nseen;i++) uses+=seen_t[i].uses; vc_count("icdf_live_table_uses",uses);
  /* (b) every object of this binary whose name contains "icdf" */
  char self[400]; ssize_t sl=readlink("/proc/self/exe",self,sizeof self-1); if(sl<=0){ fprintf(stderr,"cannot find own binary\n"); exit(3); } self[sl]=0; char cmdl[500]; snprintf(cmdl,sizeof cmdl,"nm -S --defined-only %s 2>/dev/null",self);
  FILE *f=popen(cmdl,"r"); if(!f){ fprintf(stderr,"nm not available\n"); exit(3); }
  char line[512]; unsigned long long main_nm=0; struct { unsigned long long a; unsigned long sz; char name[96]; } tabs[600]; int nt=0;
  while(fgets(line,sizeof line,f)){ unsigned long long a; unsigned long sz; char ty; char name[300]; if(sscanf(line,"%llx %lx %c %299s",&a,&sz,&ty,name)==4){ char low[300]; int i; for(i=0;name[i]&&i<299;i++) low[i]=(char)tolower((unsigned char)name[i]); low[i]=0; if(strstr(low,"icdf")&&strchr("rRdD",ty)&&nt<600){ tabs[nt].a=a; tabs[nt].sz=sz; snprintf(tabs[nt].name,96,"%s",name); nt++; } } else { char ty2; if(sscanf(line,"%llx %c %299s",&a,&ty2,name)==3&&!strcmp(name,"main")) main_nm=a; } if(strstr(line," T main")){ unsigned long long a2; if(sscanf(line,"%llx",&a2)==1) main_nm=a2; } }
  pclose(f); if(!main_nm||nt<20){ fprintf(stderr,"symbol table unreadable (main=%llx tables=%d)\n",main_nm,nt); exit(3); }
  long long base=(long long)(uintptr_t)&main-(long long)main_nm; int checked=0, unseen=0;
  for(int i=0;i<nt;i++){ const char *nm=tabs[i].name; char low[100]; int q; for(q=0;nm[q]&&q<99;q++) low[q]=(char)tolower((unsigned char)nm[q]); low[q]=0;
    if(strstr(low,"_ptr")||strstr(low,"ptrs")||!strcmp(nm,"silk_sign_iCDF")||strstr(low,"check_table")||strstr(low,"__wrap")||strstr(low,"__real")||strstr(low,"ec_enc_icdf")||strstr(low,"ec_dec_icdf")) continue;   /* pointer tables; the sign table is a probability list, not an inverse CDF */
    const unsigned char *p=(const unsigned char*)(uintptr_t)(tabs[i].a+base); unsigned long n=tabs[i].sz; if(n==0||n>4096) continue;
    /* split at zero bytes: each segment strictly decreasing and ending at zero */
    unsigned long start=0; int segs=0; for(unsigned long k=0;k<n;k++){ if(k>start&&p[k]>=p[k-1]){ vc_viol("icdf:static-not-decreasing","table %s[%lu]=%u after %u",nm,k,p[k],p[k-1]); goto nexttab; } if(p[k]==0){ segs++; start=k+1; } }
    if(start!=n){ vc_viol("icdf:static-no-terminator","table %s (%lu bytes) does not end with a zero entry",nm,n); goto nexttab; }
    checked++; vc_count("icdf_static_segments",segs); { int live=0; for(int s=0;s<nseen;s++) if((const unsigned char*)seen_t[s].p>=p&&(const unsigned char*)seen_t[s].p<p+n) live=1; if(!live){ unseen++; vc_named("icdf-static-table-never-used-live:%s",nm); } } vc_sig3(vc_hash_bytes(nm,strlen(nm)),n,segs);
  nexttab: ; }
  vc_count("icdf_static_tables_checked",checked); vc_count("icdf_static_tables_not_seen_live",unseen);
  if(vc_want_sample()) vc_sample("{\"mode\":\"icdf\",\"live_tables\":%d,\"live_uses\":%ld,\"static_objects\":%d,\"static_checked\":%d,\"static_never_seen_live\":%d}",nseen,uses,nt,checked,unseen);
}

#include "h_c17_lock.h"

int main(int argc,char **argv){
  static const vc_mode_t modes[]={{"pvq",mode_pvq},{"cache",mode_cache},{"laplace",mode_laplace},{"icdf",mode_icdf},{"symlock",mode_symlock},{0,0}};
  return vc_main(argc,argv,"C17",modes);
}
