#!/bin/sh
# process_mut.sh Cxx prefix v1 v2 ... : stash a finished sub-agent's mutations, confirm each in a fresh worktree, run the property's check on it
c=$1; pre=$2; shift 2
cd /verif; tools/stash_mut.sh $c $pre > /dev/null 2>&1
for v in "$@"; do s=$c-$v
  python3 tools/confirm_seed.py seeded_pending/$s $c $s > /tmp/confirm_$s.log 2>&1; rc=$?; echo "$s confirm exit=$rc" >> /tmp/confirm_all.log
  if [ $rc -eq 0 ]; then python3 tools/run_wt.py seeded/$s 2>&1 | grep -v "^WARNING" | cut -c1-300 >> /tmp/seeded2.log; fi
done
