# Independent model of RFC 6716 section 3 framing (and Appendix B self-delimited framing).
# Declarative: returns dict or None (invalid).
def frame_dur_48k(toc):
    c = toc >> 3
    if c < 12:  # SILK
        return [480, 960, 1920, 2880][c & 3]
    if c < 16:  # hybrid
        return [480, 960][c & 1]
    return [120, 240, 480, 960][c & 3]

def read_len(b, pos, end):
    """frame length coding of 3.2.1; returns (length, nbytes) or None"""
    if pos >= end: return None
    x = b[pos]
    if x < 252: return (x, 1)
    if pos + 1 >= end: return None
    return (b[pos+1] * 4 + x, 2)

def parse(b, self_delimited):
    N = len(b)
    if N < 1: return None                      # R1
    toc = b[0]; code = toc & 3; pos = 1
    pad = 0
    sizes = []
    if code == 0:
        M = 1; vbr = False; cbr = True
    elif code == 1:
        M = 2; vbr = False; cbr = True
    elif code == 2:
        M = 2; vbr = True; cbr = False
    else:
        if N < 2: return None                  # R6/R7: at least 2 bytes
        fc = b[1]; pos = 2
        M = fc & 0x3F; vbr = bool(fc & 0x80); cbr = not vbr; haspad = bool(fc & 0x40)
        if M == 0: return None                 # R5
        if M * frame_dur_48k(toc) > 5760: return None   # R5 120 ms
        if haspad:
            while True:
                if pos >= N: return None
                p = b[pos]; pos += 1
                if p == 255: pad += 254
                else:
                    pad += p; break
    end = N - pad      # bytes available for lengths + frames (+ anything after in self-delimited)
    if end < pos: return None
    # explicit lengths for VBR (first M-1 frames)
    if vbr:
        for i in range(M-1):
            r = read_len(b, pos, end)
            if r is None: return None
            sizes.append(r[0]); pos += r[1]
    if self_delimited:
        r = read_len(b, pos, end)
        if r is None: return None
        last = r[0]; pos += r[1]
        if vbr:
            sizes.append(last)
        else:
            sizes = [last]*M
        total = sum(sizes)
        if pos + total > end: return None
        consumed = pos + total + pad
    else:
        remaining = end - pos
        if vbr:
            s = sum(sizes)
            if s > remaining: return None
            sizes.append(remaining - s)
        else:
            if remaining % M != 0: return None    # R3 / R6
            sizes = [remaining // M]*M
        consumed = N
    for s in sizes:
        if s > 1275: return None               # R2
    offs = []; o = pos
    for s in sizes:
        offs.append(o); o += s
    return dict(toc=toc, count=M, sizes=sizes, offsets=offs, payload_offset=pos, pad=pad, padding_off=o, consumed=consumed)
