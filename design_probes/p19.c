#include <stdio.h>
#include <stdlib.h>
#include <string.h>
#include <math.h>
#include "opus.h"
#include "opus_private.h"
static unsigned long long rs=1; static unsigned rnd(void){ rs=rs*6364136223846793005ULL+1442695040888963407ULL; return (unsigned)(rs>>33); }
static short q16(float x){ x*=32768.f; if(x>32767)x=32767; if(x<-32768)x=-32768; return (short)lrintf(x); }
int main(int argc,char**argv){ int N=atoi(argv[1]); rs=atoi(argv[2]); int err; long frames=0, plcover=0, mism_norm=0, mism_plc_clipmodel=0, mism_plc_noclip=0, normover=0;
 for(int it=0;it<N;it++){ int Fs=(int[]){8000,16000,24000,48000}[rnd()%4], ch=1+rnd()%2; int mode=(int[]){MODE_SILK_ONLY,MODE_HYBRID,MODE_CELT_ONLY,OPUS_AUTO}[rnd()%4];
  OpusEncoder*e=opus_encoder_create(Fs,ch,OPUS_APPLICATION_AUDIO,&err); opus_encoder_ctl(e,OPUS_SET_FORCE_MODE(mode)); opus_encoder_ctl(e,OPUS_SET_BITRATE(16000+rnd()%200000));
  OpusDecoder*df=opus_decoder_create(Fs,ch,&err),*di=opus_decoder_create(Fs,ch,&err); float mem[2]={0,0},memalt[2]={0,0};
  int fs=Fs/50; static float in[960*2], of[960*2], oc[960*2]; static short oi[960*2]; unsigned char pk[1500];
  int kind=rnd()%3; float amp=(kind==0)?1.0f:(kind==1?1.6f:0.99f);
  for(int k=0;k<60;k++){ for(int i=0;i<fs;i++){ double t=(k*fs+i)/(double)Fs; float v= kind==2? (sin(2*M_PI*440*t)>0?amp:-amp) : amp*(float)sin(2*M_PI*(300+k*11)*t); for(int c=0;c<ch;c++) in[i*ch+c]=v; }
    int l=opus_encode_float(e,in,fs,pk,1500); int lost=(k>10 && rnd()%4==0);
    int r1=opus_decode_float(df,lost?NULL:pk,lost?0:l,of,fs,0); int r2=opus_decode(di,lost?NULL:pk,lost?0:l,oi,fs,0); frames++;
    float mx=0; for(int i=0;i<r1*ch;i++) if(fabsf(of[i])>mx) mx=fabsf(of[i]);
    memcpy(oc,of,sizeof(float)*r1*ch);
    if(!lost){ if(mx>1) normover++; opus_pcm_soft_clip(oc,r1,ch,mem); for(int i=0;i<r1*ch;i++) if(q16(oc[i])!=oi[i]){ mism_norm++; break; } }
    else { if(mx>1) plcover++; int a=0,b=0; for(int i=0;i<r1*ch;i++) if(q16(of[i])!=oi[i]){a=1;break;} float tmpm[2]={mem[0],mem[1]}; opus_pcm_soft_clip(oc,r1,ch,tmpm); for(int i=0;i<r1*ch;i++) if(q16(oc[i])!=oi[i]){b=1;break;} mism_plc_noclip+=a; mism_plc_clipmodel+=b; }
  }
  opus_encoder_destroy(e); opus_decoder_destroy(df); opus_decoder_destroy(di);
 }
 printf("frames=%ld normal>1=%ld plc>1=%ld mism_normal=%ld mism_plc(noclip model)=%ld mism_plc(clip model)=%ld\n",frames,normover,plcover,mism_norm,mism_plc_noclip,mism_plc_clipmodel); return 0; }
