#include <stdio.h>
#include <string.h>
#include "opus.h"
#include "opus_private.h"
static void show(const char*t,const unsigned char*p,int n){ printf("%s (%d):",t,n); for(int i=0;i<n&&i<40;i++) printf(" %02x",p[i]); printf("\n"); }
int main(){
  /* build 3-frame packet (10ms CELT frames) with extensions on frames 0,1,2 */
  unsigned char f[3][4]={{1,2,3,4},{5,6,7,8},{9,10,11,12}}; unsigned char base[64]; OpusRepacketizer rp; unsigned char one[8];
  opus_repacketizer_init(&rp); unsigned char pk[3][8]; for(int i=0;i<3;i++){ pk[i][0]=0x90; memcpy(pk[i]+1,f[i],4); opus_repacketizer_cat(&rp,pk[i],5);} 
  opus_extension_data ex[3]={{40,0,(const unsigned char*)"AAA",3},{41,1,(const unsigned char*)"BB",2},{42,2,(const unsigned char*)"C",1}};
  int n=opus_repacketizer_out_range_impl(&rp,0,3,base,64,0,0,ex,3); show("3-frame packet with ext",base,n);
  /* now split it */
  OpusRepacketizer r2; opus_repacketizer_init(&r2); int c=opus_repacketizer_cat(&r2,base,n); printf("cat=%d nb=%d\n",c,opus_repacketizer_get_nb_frames(&r2));
  for(int b=0;b<3;b++) for(int e=b+1;e<=3;e++){ unsigned char out[100]; int m=opus_repacketizer_out_range(&r2,b,e,out,100); printf("out_range(%d,%d)=%d",b,e,m); if(m>0){ const unsigned char*fr[48]; short sz[48]; const unsigned char*pad; opus_int32 pl; unsigned char toc; int nf=opus_packet_parse_impl(out,m,0,&toc,fr,sz,NULL,NULL,&pad,&pl); opus_extension_data xo[10]; opus_int32 nx=10; int r=opus_packet_extensions_parse(pad,pl,xo,&nx,nf); printf(" nf=%d ext_parse=%d n=%d:",nf,r,nx); for(int i=0;i<nx;i++) printf(" (id%d f%d len%d)",xo[i].id,xo[i].frame,xo[i].len);} printf("\n"); }
  return 0; }
