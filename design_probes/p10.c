#include <stdio.h>
#include <stdlib.h>
#include <string.h>
#include <math.h>
#include "opus.h"
static unsigned long long rs=1; static unsigned rnd(void){ rs=rs*6364136223846793005ULL+1442695040888963407ULL; return (unsigned)(rs>>33); }
static float frand(void){ return (rnd()/2147483648.0f)*2-1; }
int main(int argc,char**argv){ int N=atoi(argv[1]); rs=atoi(argv[2]); long over=0, flip=0, changed=0, chdep=0, cases=0; double maxo=0;
 for(int it=0;it<N;it++){ int C=1+rnd()%8; int frames=1+rnd()%4; float mem[8]={0}, mem1[8]={0}; 
  for(int f=0;f<frames;f++){ int n=1+rnd()%(rnd()%3?200:5760); static float x[5760*8], y[5760*8], z[5760]; int kind=rnd()%6; float amp= kind==0?0.9f: (kind==1?1.5f: (kind==2? 3.f : (kind==3? 1e6f: (kind==4? 1.0001f: 1.0f))));
   float ph=frand()*3; float w=0.001f+fabsf(frand())*0.5f;
   for(int i=0;i<n;i++) for(int c=0;c<C;c++){ float v= (rnd()%2)? amp*sinf(ph+w*i*(c+1)) : amp*frand(); if(rnd()%97==0) v*=4; x[i*C+c]=v; }
   memcpy(y,x,sizeof(float)*n*C); int inrange=1; for(int i=0;i<n*C;i++) if(fabsf(x[i])>1) inrange=0; int memzero=1; for(int c=0;c<C;c++) if(mem[c]!=0) memzero=0;
   opus_pcm_soft_clip(y,n,C,mem); cases++;
   for(int i=0;i<n*C;i++){ if(!(fabsf(y[i])<=1.0f)){ over++; if(fabsf(y[i])>maxo)maxo=fabsf(y[i]); } if((x[i]>0&&y[i]<0)||(x[i]<0&&y[i]>0)) flip++; }
   if(inrange&&memzero&&memcmp(x,y,sizeof(float)*n*C)) changed++;
   for(int c=0;c<C;c++){ for(int i=0;i<n;i++) z[i]=x[i*C+c]; opus_pcm_soft_clip(z,n,1,&mem1[c]); for(int i=0;i<n;i++) if(z[i]!=y[i*C+c]){ chdep++; break; } }
  } }
 printf("cases=%ld over=%ld maxo=%.9g flip=%ld changed=%ld chdep=%ld\n",cases,over,maxo,flip,changed,chdep); return 0; }
