#!/usr/bin/env python3
"""avoid_text.py Cxx : text listing earlier seeded changes for a property (file + one-line summary), for the next round's prompt."""
import sys, os, re, glob
pid = sys.argv[1]; out = []
for d in sorted(glob.glob('/verif/seeded/%s-*' % pid) + glob.glob('/verif/seeded_pending/%s-*' % pid)):
    name = os.path.basename(d)
    if any(name in o for o in out): continue
    try: patch = open(d + '/patch.diff').read()
    except OSError: continue
    files = sorted(set(re.findall(r'^\+\+\+ b/(\S+)', patch, re.M)))
    title = ''
    try:
        for l in open(d + '/NOTES.md'):
            l = l.strip().lstrip('#').strip()
            if l: title = l; break
    except OSError: pass
    out.append('  - %s: %s -- %s' % (name, ', '.join(files), title[:160]))
print('EARLIER ROUNDS already produced the following changes for this property. Do NOT reuse these code sites or ideas; pick different functions, different clauses of the property and different trigger conditions (e.g. rarely used configurations, state carried across several calls, boundary sizes):\n' + '\n'.join(out))
