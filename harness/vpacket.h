/* vpacket.h -- ground-truth packet builder and extension-list generator shared by C07 and C16.
 * A built packet carries its own description (frames, padding kind, the extension list that was
 * serialised into its padding), so monitors compare the library's output with what was *put in*,
 * not with what the library's own parser says about it. */
#ifndef VPACKET_H
#define VPACKET_H
#include "vcodec.h"
#include "opus_private.h"

#define VP_MAXEXT 400
enum { VP_PAD_NONE, VP_PAD_ZERO, VP_PAD_RANDOM, VP_PAD_EXT, VP_PAD_EXT_ONES /* valid extensions behind 0x01 fill */, VP_PAD_NKINDS };
typedef struct {
  unsigned char *buf; int len;          /* exact-size heap block */
  int toc, M, vbr, sizes[48], off[48];
  int padkind, padbytes;                /* padding data bytes (excluding the length bytes) */
  int next; opus_extension_data ext[VP_MAXEXT]; unsigned char *extstore;   /* ground-truth extensions (frame order) */
} vp_pkt;

static void vp_free(vp_pkt *p){ free(p->buf); free(p->extstore); p->buf=p->extstore=NULL; }

/* ---- extension list generator: legal lists with the patterns the serialiser special-cases */
static const int vp_lens[]={0,1,2,3,7,31,100,253,254,255,256,257,300,508,509,510,511,512,764,765,766,1000};
static int vp_gen_exts(vc_rng *r,int nbf,int maxn,int maxpay,opus_extension_data *ext,unsigned char *store,int storecap){
  int n=0, so=0; int pattern=vc_below(r,8); int want=vc_chance(r,1,5)?vc_range(r,0,3):vc_range(r,0,maxn);
  int rep_id=vc_range(r,3,127), rep_id2=vc_range(r,3,127);
  for(int f=0;f<nbf&&n<want;f++){
    int k= pattern==0?vc_range(r,0,3): pattern==1?1: pattern==2?2: pattern==3?(vc_chance(r,1,2)?0:vc_range(r,1,4)): vc_range(r,0,5);
    if(pattern==7&&f!=nbf-1&&vc_chance(r,2,3)) k=0;
    if(want>6*nbf) k=want/nbf+1;   /* long lists: many extensions per frame */
    for(int j=0;j<k&&n<want;j++){ opus_extension_data *e=&ext[n]; e->frame=f;
      if(pattern==1) e->id=rep_id; else if(pattern==2) e->id=j==0?rep_id:rep_id2; else if(pattern==5) e->id=vc_chance(r,3,4)?rep_id:vc_range(r,3,127); else if(pattern==6) e->id=vc_range(r,3,31); else e->id=vc_chance(r,1,3)?vc_range(r,3,31):vc_range(r,32,127);
      if(e->id<32) e->len=(pattern==1||pattern==2)?(rep_id&1):(int)vc_below(r,2);
      else { int L=vc_chance(r,1,2)?VC_PICK(r,vp_lens):(int)vc_below(r,vc_chance(r,1,8)?maxpay+1:40); if(L>maxpay) L=maxpay; e->len=L; }
      if(so+e->len>storecap) e->len=0;
      for(int b=0;b<e->len;b++) store[so+b]=(unsigned char)vc_u32(r);
      e->data=store+so; so+=e->len; n++; } }
  /* unsorted variant: shuffle (the generator must not require frame order) */
  if(n>1&&vc_chance(r,1,4)){ for(int i=n-1;i>0;i--){ int j=vc_below(r,i+1); opus_extension_data t=ext[i]; ext[i]=ext[j]; ext[j]=t; } }
  return n; }
/* stable sort by frame (per-frame order preserved): the canonical view monitors compare */
static void vp_sort_exts(opus_extension_data *e,int n){ for(int i=1;i<n;i++){ opus_extension_data t=e[i]; int j=i-1; while(j>=0&&e[j].frame>t.frame){ e[j+1]=e[j]; j--; } e[j+1]=t; } }
static int vp_ext_eq(const opus_extension_data *a,const opus_extension_data *b){ return a->id==b->id&&a->frame==b->frame&&a->len==b->len&&(a->len==0||!memcmp(a->data,b->data,a->len)); }

/* ---- packet builder.  config6 = toc>>2 (config + stereo).  frames: optional source of real frame bytes. */
static int vp_build(vc_rng *r,vp_pkt *p,int config6,int M,const int *sizes,int force_code3,int vbr_flag,int padkind,const unsigned char *const *fsrc,int sd){
  static unsigned char tmp[70000+48*1276+600]; static unsigned char exttmp[66000];
  memset(p,0,sizeof *p); p->M=M; p->padkind=padkind;
  int equal=1; for(int i=1;i<M;i++) if(sizes[i]!=sizes[0]) equal=0;
  int code; if(!force_code3&&padkind==VP_PAD_NONE&&M==1) code=0; else if(!force_code3&&padkind==VP_PAD_NONE&&M==2) code=(equal&&!vc_chance(r,1,3))?1:2 /* code 2 with equal sizes is valid but not canonical */; else code=3;
  int vbr= code==2?1: code==3?(equal?vbr_flag:1):0; p->vbr=vbr;
  int pos=0; tmp[pos++]=(unsigned char)((config6<<2)|code); p->toc=tmp[0];
  int padbytes=0; p->next=0;
  if(code==3){ int P=padkind!=VP_PAD_NONE;
    if(P){ if(padkind==VP_PAD_ZERO||padkind==VP_PAD_RANDOM){ static const int pb[]={0,1,2,10,253,254,255,256,508,509,600}; padbytes=vc_chance(r,2,3)?VC_PICK(r,pb):(int)vc_below(r,1200); for(int i=0;i<padbytes;i++) exttmp[i]=padkind==VP_PAD_ZERO?0:(unsigned char)vc_u32(r); }
      else { p->extstore=(unsigned char*)malloc(24000); p->next=vp_gen_exts(r,M,vc_chance(r,1,6)?60:8,vc_chance(r,1,10)?3000:300,p->ext,p->extstore,24000);
        int n0=opus_packet_extensions_generate(NULL,66000,p->ext,p->next,M,0); if(n0<0){ fprintf(stderr,"vp_build: generator refused a legal list (%d)\n",n0); p->next=0; n0=0; }
        padbytes=n0; int ones=0; if(padkind==VP_PAD_EXT_ONES&&n0>0){ ones=vc_range(r,1,vc_chance(r,1,4)?300:4); padbytes=n0+ones; }
        int w=opus_packet_extensions_generate(exttmp,padbytes,p->ext,p->next,M,ones>0); if(w!=padbytes){ fprintf(stderr,"vp_build: generator wrote %d expected %d\n",w,padbytes); exit(3); }
        vp_sort_exts(p->ext,p->next); } }
    tmp[pos++]=(unsigned char)(M|(vbr<<7)|(P<<6));
    if(P){ int rem=padbytes; while(rem>=255){ tmp[pos++]=255; rem-=254; } tmp[pos++]=(unsigned char)rem; } }
  if(vbr) for(int i=0;i<M-1;i++) pos+=vk_put_len(tmp+pos,sizes[i]);
  if(sd) pos+=vk_put_len(tmp+pos,sizes[M-1]);
  for(int i=0;i<M;i++){ p->sizes[i]=sizes[i]; p->off[i]=pos; for(int b=0;b<sizes[i];b++) tmp[pos+b]=fsrc&&fsrc[i]?fsrc[i][b]:(unsigned char)vc_u32(r); pos+=sizes[i]; }
  memcpy(tmp+pos,exttmp,padbytes); pos+=padbytes; p->padbytes=padbytes;
  p->buf=vc_exact_copy(tmp,pos); p->len=pos; return pos; }

/* random frame-size vector for M frames; total kept below cap */
static void vp_rand_sizes(vc_rng *r,int M,int *sizes,int cap){ static const int bs[]={0,1,2,3,10,40,100,250,251,252,253,254,255,256,600,1274,1275}; int style=vc_below(r,5); int base=vc_chance(r,1,2)?VC_PICK(r,bs):(int)vc_below(r,200); int tot=0;
  for(int i=0;i<M;i++){ int s= style==0?base: style==1?(vc_chance(r,1,2)?base:VC_PICK(r,bs)): style==2?(int)vc_below(r,300): style==3?VC_PICK(r,bs):(i==M-1?VC_PICK(r,bs):base); if(tot+s>cap) s=0; sizes[i]=s; tot+=s; } }
#endif
