#include <stdio.h>
#include <string.h>
#include "opus.h"
int main(){
  /* code 3, 1 frame, padding flag, pad len 3, frame 2 bytes, padding bytes garbage */
  unsigned char pkt[16]={0x03|0x08, 0x41, 3, 0xAA,0xBB, 0x41,0xFF,0x05};
  int len=8; unsigned char toc; short sz[48]; const unsigned char*fr[48]; int off;
  int n=opus_packet_parse(pkt,len,&toc,fr,sz,&off); printf("parse=%d size0=%d\n",n,sz[0]);
  OpusRepacketizer*rp=opus_repacketizer_create(); int r=opus_repacketizer_cat(rp,pkt,len); printf("cat=%d\n",r);
  unsigned char out[2000]; r=opus_repacketizer_out(rp,out,2000); printf("out=%d\n",r);
  unsigned char b[100]; memcpy(b,pkt,len); r=opus_packet_pad(b,len,20); printf("pad=%d\n",r);
  memcpy(b,pkt,len); r=opus_packet_unpad(b,len); printf("unpad=%d\n",r);
  return 0; }
