#include <stdio.h>
#include <stdlib.h>
#include <string.h>
#include <math.h>
#include "opus.h"
#include "opus_multistream.h"
#include "opus_projection.h"
static unsigned long long rs=1; static unsigned rnd(void){ rs=rs*6364136223846793005ULL+1442695040888963407ULL; return (unsigned)(rs>>33); }
int main(int argc,char**argv){ int N=atoi(argv[1]); rs=atoi(argv[2]); int err; long calls=0, interr=0, other=0, small=0, decbad=0, over=0;
 for(int it=0;it<N;it++){
  int Fs=(int[]){8000,12000,16000,24000,48000}[rnd()%5]; int ch=1+rnd()%8; int fam=(int[]){0,1,255,2,3}[rnd()%5]; if(fam==0&&ch>2) fam=1; if(fam==2||fam==3){ int opts[]={1,4,6,9,11,16,18}; ch=opts[rnd()%7]; if(fam==3&&(ch==1)) ch=4; }
  int streams,coupled; unsigned char mapping[255]; OpusMSEncoder*e=NULL; OpusProjectionEncoder*pe=NULL; OpusMSDecoder*d=NULL; OpusProjectionDecoder*pd=NULL;
  int app=(int[]){OPUS_APPLICATION_VOIP,OPUS_APPLICATION_AUDIO,OPUS_APPLICATION_RESTRICTED_LOWDELAY}[rnd()%3];
  if(fam==3){ pe=opus_projection_ambisonics_encoder_create(Fs,ch,3,&streams,&coupled,app,&err); if(!pe){ continue;} opus_int32 msz; opus_projection_encoder_ctl(pe,OPUS_PROJECTION_GET_DEMIXING_MATRIX_SIZE(&msz)); unsigned char*m=malloc(msz); opus_projection_encoder_ctl(pe,OPUS_PROJECTION_GET_DEMIXING_MATRIX(m,msz)); pd=opus_projection_decoder_create(Fs,ch,streams,coupled,m,msz,&err); free(m);} 
  else { e=opus_multistream_surround_encoder_create(Fs,ch,fam,&streams,&coupled,mapping,app,&err); if(!e) continue; d=opus_multistream_decoder_create(Fs,ch,streams,coupled,mapping,&err);} 
  for(int k=0;k<25;k++){
    int fs=(int[]){Fs/400,Fs/200,Fs/100,Fs/50,Fs/25,3*Fs/50,4*Fs/50,5*Fs/50,6*Fs/50}[rnd()%9];
    int br= rnd()%8==0?OPUS_BITRATE_MAX: rnd()%8==0?OPUS_AUTO: 500+rnd()%(60000*ch); int vbr=rnd()%2;
    if(rnd()%3==0){ if(e){opus_multistream_encoder_ctl(e,OPUS_SET_BITRATE(br)); opus_multistream_encoder_ctl(e,OPUS_SET_VBR(vbr)); opus_multistream_encoder_ctl(e,OPUS_SET_COMPLEXITY(rnd()%11));} else {opus_projection_encoder_ctl(pe,OPUS_SET_BITRATE(br)); opus_projection_encoder_ctl(pe,OPUS_SET_VBR(vbr));} }
    static float in[5760*18]; for(int i=0;i<fs*ch;i++) in[i]=0.4f*sinf(i*0.013f*(1+k))+0.1f*((rnd()%2001)/1000.f-1);
    int maxb= rnd()%3==0? 1+rnd()%(8*streams+20) : (rnd()%2? 4000: 100+rnd()%2000);
    unsigned char*buf=malloc(maxb+8); memset(buf+maxb,0x5C,8);
    int len= e? opus_multistream_encode_float(e,in,fs,buf,maxb): opus_projection_encode_float(pe,in,fs,buf,maxb); calls++;
    for(int i=0;i<8;i++) if(buf[maxb+i]!=0x5C) over++;
    if(len==OPUS_INTERNAL_ERROR){ interr++; if(interr<8) printf("INTERNAL fam=%d ch=%d streams=%d Fs=%d fs=%d maxb=%d br=%d vbr=%d k=%d\n",fam,ch,streams,Fs,fs,maxb,br,vbr,k);} 
    else if(len==OPUS_BUFFER_TOO_SMALL) small++; else if(len<0){ other++; if(other<5) printf("ERR %d\n",len);} 
    else { if(len>maxb){ printf("LEN>MAXB %d %d\n",len,maxb);} static float out[5760*18]; int r= d? opus_multistream_decode_float(d,buf,len,out,5760,0): opus_projection_decode_float(pd,buf,len,out,5760,0); if(r!=fs){ decbad++; if(decbad<8) printf("DECBAD r=%d fs=%d len=%d fam=%d ch=%d streams=%d maxb=%d vbr=%d br=%d Fs=%d\n",r,fs,len,fam,ch,streams,maxb,vbr,br,Fs);} }
    free(buf);
  }
  if(e)opus_multistream_encoder_destroy(e); if(pe)opus_projection_encoder_destroy(pe); if(d)opus_multistream_decoder_destroy(d); if(pd)opus_projection_decoder_destroy(pd);
 }
 printf("calls=%ld interr=%ld small=%ld other=%ld decbad=%ld over=%ld\n",calls,interr,small,other,decbad,over); return 0; }
