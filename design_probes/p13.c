#include <stdio.h>
#include <stdlib.h>
#include <string.h>
#include <math.h>
#include <alloca.h>
#include "opus.h"
static unsigned long long rs=1; static unsigned rnd(void){ rs=rs*6364136223846793005ULL+1442695040888963407ULL; return (unsigned)(rs>>33); }
static void __attribute__((noinline)) paint(int v){ volatile char*p=alloca(200000); for(int i=0;i<200000;i++) p[i]=(char)v; }
static void gen(short*in,int n,int ch,int k,int t0){ for(int i=0;i<n;i++){ double t=(t0+i); double v=8000*sin(t*0.03*(1+k%3))*(0.5+0.5*sin(t*0.001))+3000*sin(t*0.21); for(int c=0;c<ch;c++) in[i*ch+c]=(short)(c? v*0.5: v); } }
int main(int argc,char**argv){ int N=atoi(argv[1]); rs=atoi(argv[2]); int err; long cmp=0,dpoison=0,dreset=0,dclone=0,epoison=0;
 for(int it=0;it<N;it++){
  int Fs=(int[]){8000,12000,16000,24000,48000}[rnd()%5], ch=1+rnd()%2, app=(int[]){OPUS_APPLICATION_VOIP,OPUS_APPLICATION_AUDIO,OPUS_APPLICATION_RESTRICTED_LOWDELAY}[rnd()%3];
  int esz=opus_encoder_get_size(ch), dsz=opus_decoder_get_size(ch);
  OpusEncoder*e1=malloc(esz),*e2=malloc(esz); memset(e1,0x00,esz); memset(e2,0xA5,esz); opus_encoder_init(e1,Fs,ch,app); opus_encoder_init(e2,Fs,ch,app);
  int br=6000+rnd()%150000; int fecv=rnd()%2; opus_encoder_ctl(e1,OPUS_SET_BITRATE(br)); opus_encoder_ctl(e2,OPUS_SET_BITRATE(br)); opus_encoder_ctl(e1,OPUS_SET_INBAND_FEC(fecv)); opus_encoder_ctl(e2,OPUS_SET_INBAND_FEC(fecv)); opus_encoder_ctl(e1,OPUS_SET_PACKET_LOSS_PERC(15)); opus_encoder_ctl(e2,OPUS_SET_PACKET_LOSS_PERC(15));
  OpusDecoder*d1=malloc(dsz),*d2=malloc(dsz),*dc=malloc(dsz),*dr=malloc(dsz),*dfresh=malloc(dsz); memset(d1,0,dsz); memset(d2,0x5A,dsz); memset(dfresh,0xFF,dsz); opus_decoder_init(d1,Fs,ch); opus_decoder_init(d2,Fs,ch); opus_decoder_init(dfresh,Fs,ch);
  int fs=(int[]){Fs/400,Fs/200,Fs/100,Fs/50,Fs/25,3*Fs/50}[rnd()%6]; static short in[2880*2], o1[5760*2], o2[5760*2]; unsigned char p1[1500],p2[1500]; int t0=0;
  static unsigned char store[60][1500]; static int slen[60]; int np=20+rnd()%30; int clone_at=rnd()%np;
  for(int k=0;k<np;k++){ gen(in,fs,ch,k,t0); t0+=fs; if(rnd()%7==0){ int nb=6000+rnd()%150000; opus_encoder_ctl(e1,OPUS_SET_BITRATE(nb)); opus_encoder_ctl(e2,OPUS_SET_BITRATE(nb)); }
    paint(0x11); int l1=opus_encode(e1,in,fs,p1,1500); paint(0xEE); int l2=opus_encode(e2,in,fs,p2,1500); cmp++; if(l1!=l2||memcmp(p1,p2,l1>0?l1:0)){epoison++; break;}
    memcpy(store[k],p1,l1); slen[k]=l1;
    int lost=rnd()%8==0; paint(0x22); int r1=opus_decode(d1,lost?NULL:p1,lost?0:l1,o1,fs,0); paint(0xDD); int r2=opus_decode(d2,lost?NULL:p1,lost?0:l1,o2,fs,0);
    if(r1!=r2||memcmp(o1,o2,2*r1*ch)){dpoison++; break;}
    if(k==clone_at){ memcpy(dc,d1,dsz); }
    if(k>clone_at){ int r3=opus_decode(dc,lost?NULL:p1,lost?0:l1,o2,fs,0); if(r3!=r1||memcmp(o1,o2,2*r1*ch)){dclone++; break;} }
  }
  /* reset vs fresh */
  opus_decoder_ctl(d1,OPUS_RESET_STATE);
  for(int k=0;k<np;k++){ int lost=(k%9==5); int r1=opus_decode(d1,lost?NULL:store[k],lost?0:slen[k],o1,fs,0); int r2=opus_decode(dfresh,lost?NULL:store[k],lost?0:slen[k],o2,fs,0); unsigned a,b; opus_decoder_ctl(d1,OPUS_GET_FINAL_RANGE(&a)); opus_decoder_ctl(dfresh,OPUS_GET_FINAL_RANGE(&b)); if(r1!=r2||a!=b||memcmp(o1,o2,2*(r1>0?r1:0)*ch)){dreset++; printf("DRESET k=%d Fs=%d ch=%d fs=%d\n",k,Fs,ch,fs); break;} }
  free(e1);free(e2);free(d1);free(d2);free(dc);free(dr);free(dfresh);
 }
 printf("cmp=%ld epoison=%ld dpoison=%ld dclone=%ld dreset=%ld\n",cmp,epoison,dpoison,dclone,dreset); return 0; }
