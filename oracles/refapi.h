/* refapi.h -- declarations of the frozen reference libraries' public API.
 * The reference is the source snapshot /verif/ref (pinned commit b5b845fb) built with clang -O2,
 * portable C only, and with every global symbol renamed:  ref_<sym> (float build), rfx_<sym> (fixed build).
 * The opaque state types are only ever used through pointers, so the tree's typedef names are reused. */
#ifndef REFAPI_H
#define REFAPI_H
#include "opus.h"
#include "opus_multistream.h"
#include "opus_projection.h"

#define REF_DECLARE(P) \
 OpusDecoder *P##opus_decoder_create(opus_int32 Fs,int channels,int *error); \
 void P##opus_decoder_destroy(OpusDecoder *st); \
 int P##opus_decoder_ctl(OpusDecoder *st,int request,...); \
 int P##opus_decode(OpusDecoder *st,const unsigned char *data,opus_int32 len,opus_int16 *pcm,int frame_size,int decode_fec); \
 int P##opus_decode24(OpusDecoder *st,const unsigned char *data,opus_int32 len,opus_int32 *pcm,int frame_size,int decode_fec); \
 int P##opus_decode_float(OpusDecoder *st,const unsigned char *data,opus_int32 len,float *pcm,int frame_size,int decode_fec); \
 OpusEncoder *P##opus_encoder_create(opus_int32 Fs,int channels,int application,int *error); \
 void P##opus_encoder_destroy(OpusEncoder *st); \
 int P##opus_encoder_ctl(OpusEncoder *st,int request,...); \
 opus_int32 P##opus_encode(OpusEncoder *st,const opus_int16 *pcm,int frame_size,unsigned char *data,opus_int32 max_data_bytes); \
 opus_int32 P##opus_encode_float(OpusEncoder *st,const float *pcm,int frame_size,unsigned char *data,opus_int32 max_data_bytes); \
 OpusRepacketizer *P##opus_repacketizer_create(void); \
 void P##opus_repacketizer_destroy(OpusRepacketizer *rp); \
 OpusRepacketizer *P##opus_repacketizer_init(OpusRepacketizer *rp); \
 int P##opus_repacketizer_cat(OpusRepacketizer *rp,const unsigned char *data,opus_int32 len); \
 opus_int32 P##opus_repacketizer_out(OpusRepacketizer *rp,unsigned char *data,opus_int32 maxlen); \
 int P##opus_packet_pad(unsigned char *data,opus_int32 len,opus_int32 new_len); \
 OpusMSDecoder *P##opus_multistream_decoder_create(opus_int32 Fs,int channels,int streams,int coupled_streams,const unsigned char *mapping,int *error); \
 void P##opus_multistream_decoder_destroy(OpusMSDecoder *st); \
 int P##opus_multistream_decoder_ctl(OpusMSDecoder *st,int request,...); \
 int P##opus_multistream_decode_float(OpusMSDecoder *st,const unsigned char *data,opus_int32 len,float *pcm,int frame_size,int decode_fec); \
 int P##opus_compare_main(int argc,const char **argv);

REF_DECLARE(ref_)
REF_DECLARE(rfx_)
#endif
