/* C09 -- packet loss: PLC and FEC return the requested audio, stay bounded, and recover.
 * Fault enumeration over loss patterns with twin decoders.  Modes:
 *   window   one encoded stream per case; ALL 2^k loss patterns over a window of k packets (arg k=) at a random position are decoded,
 *            each lost packet concealed by a whole-packet call, by 2.5-20 ms pieces (bursts also entirely in 2.5 ms calls), or recovered by an FEC call on the next packet
 *   burst    random long bursts (up to 10 s) for the decay clause, plus FEC calls with frame_size larger than the packet
 *   multiburst  60 s streams with several 4-10 s bursts in one decoder lifetime (state accumulated over loss episodes)
 * Oracles: exact requested duration, finite samples, received packets reproduce the encoder's final range, concealed level bounded by
 * the recently decoded level, decay under sustained loss, FEC (when the next packet has LBRR) far closer to the loss-free decoder than
 * concealment and otherwise identical to concealment on a cloned decoder, convergence to the loss-free twin after losses stop.
 * Thresholds: calib/c09.json (compiled in below).
 */
#include "vcodec.h"
#include "entdec.h"
extern const opus_uint8 * const silk_LBRR_flags_iCDF_ptr[2];
/* which 20 ms SILK frames of a (code 0) packet carry LBRR data for the mid channel: the header bits RFC 6716 4.2.3/4.2.4 define (VAD and
   LBRR flag per channel, then the per-frame LBRR symbol); -1 for packets this does not apply to */
static int lbrr_frame_flags(const unsigned char *pkt,int len,int flags[3]){ flags[0]=flags[1]=flags[2]=0; if(len<2||(pkt[0]&3)!=0||(pkt[0]&0x80)) return -1; int cfg=pkt[0]>>3, nf= cfg<12?((cfg&3)==2?2:(cfg&3)==3?3:1):1, nch=(pkt[0]&4)?2:1; ec_dec dec; ec_dec_init(&dec,(unsigned char*)pkt+1,len-1); int lb[2]={0,0};
  for(int n=0;n<nch;n++){ for(int i=0;i<nf;i++) ec_dec_bit_logp(&dec,1); lb[n]=ec_dec_bit_logp(&dec,1); }
  if(lb[0]){ if(nf==1) flags[0]=1; else { int sym=ec_dec_icdf(&dec,silk_LBRR_flags_iCDF_ptr[nf-2],8)+1; for(int i=0;i<nf;i++) flags[i]=(sym>>i)&1; } }
  return nf; }

/* ---- committed calibration (see calib/c09.json) */
#ifndef C09_KAPPA
#define C09_KAPPA 8.0          /* concealed 20 ms-block RMS <= KAPPA x max block RMS of the last 500 ms decoded */
#define C09_PEAK_KAPPA 3.3     /* concealed peak <= x recent peak */
#define C09_DELTA 0.7          /* after >= 1 s of continuous loss: block RMS <= DELTA x recent level */
#define C09_RHO 1.0            /* sum of FEC error energies <= RHO x sum of PLC error energies, over a case's LBRR events */
#define C09_LBRR_GAIN 0.5      /* decoded LBRR sub-frame gain >= this x the gain the encoder quantised the LBRR frame with */
#define C09_EPISODE_GROWTH 3.0  /* stationary stimulus: level 1 s into a loss episode <= this x the level 1 s into the previous episode */
#define C09_RECOVER_BADFRAC 0.10 /* at most this fraction of the audible 20 ms blocks from 1 s after the last loss may be further than RECOVER_DB from the twin */
#define C09_FRAC 0.6           /* at least this fraction of a case's LBRR events must be closer to the loss-free twin than concealment */
#define C09_RECOVER_DB 20.0    /* segmental SNR vs the loss-free twin, 1 s after the last loss */
#endif

/* hooks H3 + H2: the encoder reports the sub-frame gains it quantises every LBRR frame with (mid channel recorded per packet / 20 ms frame);
   an FEC call compares the gains the decoder rebuilds each LBRR frame with against them.  A frame coded independently is subject to the
   decoder's "at most 16 steps below the previous gain" limiter, which can only raise the decoded gain. */
#include "main.h"
extern void (*opus_verif_silk_params_cb)(const silk_decoder_state *psDec,const silk_decoder_control *psDecCtrl,const opus_int16 *pNLSF_Q15) __attribute__((weak));
extern void (*opus_verif_silk_lbrr_gains_cb)(int channelNb,int frame,int nb_subfr,const opus_int32 *Gains_Q16) __attribute__((weak));
static opus_int32 g_enc[3200][3][4]; static int g_phase=0, g_pkt=0; static const void *g_mid=NULL; static double g_minratio, g_maxratio; static int g_seen, g_exact;
static void lbrr_enc_cb(int chn,int frame,int nsub,const opus_int32 *g){ if(chn!=0||frame<0||frame>2||g_phase!=1) return; for(int k=0;k<4;k++) g_enc[g_pkt][frame][k]= k<nsub?g[k]:0; }
static int dbg_cb=0;
#ifdef C09_REF   /* debugging build linked with the frozen reference (verif.build_harness(..., ref='float', extra_defs=['-DC09_REF'])) */
OpusDecoder *ref_opus_decoder_create(opus_int32,int,int*); int ref_opus_decode_float(OpusDecoder*,const unsigned char*,opus_int32,float*,int,int);
#else
OpusDecoder *ref_opus_decoder_create(opus_int32,int,int*) __attribute__((weak)); int ref_opus_decode_float(OpusDecoder*,const unsigned char*,opus_int32,float*,int,int) __attribute__((weak));
#endif
static OpusDecoder *dbg_ref=NULL;
/* frozen build of the same arithmetic, driven through exactly the calls the tree decoder gets (float entry point) */
#ifdef VERIF_HAVE_REF
#ifdef FIXED_POINT
#define RD(x) rfx_##x
#else
#define RD(x) ref_##x
#endif
OpusDecoder *RD(opus_decoder_create)(opus_int32,int,int*); int RD(opus_decode_float)(OpusDecoder*,const unsigned char*,opus_int32,float*,int,int); void RD(opus_decoder_destroy)(OpusDecoder*);
#endif
#ifndef C09_REL_DB
#define C09_REL_DB 12.0      /* a block's distance from the loss-free output may exceed the frozen build's by this much ... */
#define C09_REL_FLOOR_DB 20.0 /* ... unless it is this far below the block's own level anyway */
#endif
static void gains_cb(const silk_decoder_state *psDec,const silk_decoder_control *c,const opus_int16 *nlsf){ (void)nlsf; if(!g_mid) g_mid=psDec; if(dbg_cb) fprintf(stderr,"    silk frame: dec %p type %d prevtype %d gains %d %d %d %d lossCnt %d first_after_reset %d lag %d cng_smth_gain %d plc_prevgain %d %d\n",(void*)psDec,psDec->indices.signalType,psDec->prevSignalType,c->Gains_Q16[0],c->Gains_Q16[1],c->Gains_Q16[2],c->Gains_Q16[3],psDec->lossCnt,psDec->first_frame_after_reset,c->pitchL[0],psDec->sCNG.CNG_smth_Gain_Q16,psDec->sPLC.prevGain_Q16[0],psDec->sPLC.prevGain_Q16[1]); if(psDec!=g_mid||g_phase!=2) return; int j=psDec->nFramesDecoded; if(j<0||j>2) return;
  for(int k=0;k<psDec->nb_subfr;k++) if(g_enc[g_pkt][j][k]>0){ double q=(double)c->Gains_Q16[k]/g_enc[g_pkt][j][k]; if(q<g_minratio) g_minratio=q; if(q>g_maxratio) g_maxratio=q; g_seen++; if(c->Gains_Q16[k]==g_enc[g_pkt][j][k]) g_exact++; }
  if(getenv("C09_DEBUG")&&atoi(getenv("C09_DEBUG"))>=2) fprintf(stderr,"  lbrr of packet %d frame %d decoded gains %d %d %d %d encoder's %d %d %d %d\n",g_pkt,j,c->Gains_Q16[0],c->Gains_Q16[1],c->Gains_Q16[2],c->Gains_Q16[3],g_enc[g_pkt][j][0],g_enc[g_pkt][j][1],g_enc[g_pkt][j][2],g_enc[g_pkt][j][3]); }
#define MAXP 3200
typedef struct { int n, fs, ch, Fs, mode, fidx; unsigned char *pkt[MAXP]; int len[MAXP]; opus_uint32 rng[MAXP]; int lbrr[MAXP]; float *twin, *twin16, *twin24; } cstream;
static int g_steady=0;   /* 1: stationary noise after a quiet 1.5 s lead-in (instead of speech-like bursts) */
static void make_stream(vc_rng *r,cstream *s,int want_ms){ int err; static const int mfs[3][5]={{2,3,4,5,3},{2,3,3,3,2},{0,1,2,3,3}}; int mode=VK_MODE_SILK+(int)vc_below(r,3); if(g_steady) mode=VK_MODE_CELT;   /* the stationary stimulus is for the CELT noise-floor tracker only: SILK's comfort noise legitimately continues stationary noise at its level */ int eFs=vc_chance(r,2,3)?48000:VC_PICK(r,vk_rates); int ch=1+vc_below(r,2); int fidx=mfs[mode-VK_MODE_SILK][vc_below(r,5)];
  /* one stream in three changes its configuration while running (forced channels, audio bandwidth, coding mode): transitions, redundancy frames and LBRR across a change are then inside the loss windows */
  int sw=!g_steady&&vc_chance(r,1,3); if(sw) fidx=2+(int)vc_below(r,2); int mixed=0, next_sw=sw?(int)vc_range(r,8,40):1<<30;
  int gate=!g_steady&&vc_chance(r,1,2), gate_open=1, gate_left=(int)(vc_range(r,600,1500)*(double)eFs/1000.0/vk_frame_samples(eFs,fidx))+1; if(gate) vc_count("gated_streams",1);
  OpusEncoder *e=opus_encoder_create(eFs,ch,OPUS_APPLICATION_AUDIO,&err); opus_encoder_ctl(e,VK_SET_FORCE_MODE_REQUEST,mode); int bw= mode==VK_MODE_SILK?OPUS_BANDWIDTH_NARROWBAND+(int)vc_below(r,3): mode==VK_MODE_HYBRID?OPUS_BANDWIDTH_SUPERWIDEBAND+(int)vc_below(r,2):OPUS_AUTO; opus_encoder_ctl(e,OPUS_SET_BANDWIDTH(bw));
  opus_encoder_ctl(e,OPUS_SET_BITRATE(vc_range(r,16000,64000)*ch)); int fec=(mode!=VK_MODE_CELT||sw)&&vc_chance(r,3,4); if(fec){ opus_encoder_ctl(e,OPUS_SET_INBAND_FEC(1)); opus_encoder_ctl(e,OPUS_SET_PACKET_LOSS_PERC(vc_range(r,15,40))); }
  vc_siggen g; vs_init(&g,g_steady?VS_BANDNOISE:VS_SPEECHLIKE,eFs,ch,(float)(0.3+0.5*vc_unit(r)),vc_next(r)); int efs=vk_frame_samples(eFs,fidx); static float in[5760*2]; unsigned char buf[1500]; int n=(int)(want_ms/(efs*1000.0/eFs)); if(n>MAXP) n=MAXP; s->n=0;
  memset(g_enc,0,sizeof g_enc); g_phase=1;
  for(int k=0;k<n;k++){
    if(k==next_sw){ next_sw=k+(int)vc_range(r,8,40); int what=(int)vc_below(r,3); vc_count("stream_configuration_changes",1);
      if(what==0&&ch==2){ static const int fcs[3]={1,2,OPUS_AUTO}; opus_encoder_ctl(e,OPUS_SET_FORCE_CHANNELS(fcs[vc_below(r,3)])); }
      else if(what==1||(what==0&&ch==1)){ int b= mode==VK_MODE_SILK?OPUS_BANDWIDTH_NARROWBAND+(int)vc_below(r,3): mode==VK_MODE_HYBRID?OPUS_BANDWIDTH_SUPERWIDEBAND+(int)vc_below(r,2):OPUS_AUTO; opus_encoder_ctl(e,OPUS_SET_BANDWIDTH(b)); }
      else { mode=VK_MODE_SILK+(int)vc_below(r,3); mixed=1; opus_encoder_ctl(e,VK_SET_FORCE_MODE_REQUEST,mode); int b= mode==VK_MODE_SILK?OPUS_BANDWIDTH_NARROWBAND+(int)vc_below(r,3): mode==VK_MODE_HYBRID?OPUS_BANDWIDTH_SUPERWIDEBAND+(int)vc_below(r,2):OPUS_AUTO; opus_encoder_ctl(e,OPUS_SET_BANDWIDTH(b)); } }
    vs_fill(&g,in,efs); if(g_steady&&(long long)k*efs<(long long)eFs*3/2) for(int q=0;q<efs*ch;q++) in[q]*=0.002f;
    /* gated streams: loud segments end abruptly (-48 dB from one packet to the next), so that a loss window can hide a large fall of the coded gains */
    if(gate){ if(--gate_left<=0){ gate_open=!gate_open; double ms=gate_open?vc_range(r,300,1500):vc_range(r,150,700); gate_left=(int)(ms*eFs/1000.0/efs)+1; } if(!gate_open) for(int q=0;q<efs*ch;q++) in[q]*=0.004f; } g_pkt=s->n; int len=opus_encode_float(e,in,efs,buf,1500); if(len<=0) break; s->pkt[s->n]=vc_exact_copy(buf,len); s->len[s->n]=len; opus_encoder_ctl(e,OPUS_GET_FINAL_RANGE(&s->rng[s->n])); s->lbrr[s->n]=opus_packet_has_lbrr(buf,len)>0; s->n++; }
  g_phase=0; opus_encoder_destroy(e); s->Fs=vc_chance(r,2,3)?eFs:VC_PICK(r,vk_rates); s->ch=vc_chance(r,3,4)?ch:1+(int)vc_below(r,2); s->fs=(int)((long long)efs*s->Fs/eFs); s->mode=mixed?0:mode; s->fidx=fidx; if(sw) vc_count("streams_with_configuration_changes",1);
  /* loss-free twin */
  s->twin=(float*)malloc(sizeof(float)*(size_t)s->n*s->fs*s->ch); OpusDecoder *d=opus_decoder_create(s->Fs,s->ch,&err); g_mid=NULL; for(int k=0;k<s->n;k++){ int rc=opus_decode_float(d,s->pkt[k],s->len[k],s->twin+(size_t)k*s->fs*s->ch,s->fs,0); if(rc!=s->fs){ fprintf(stderr,"twin decode %d\n",rc); exit(3); } } g_phase=0; g_mid=NULL; opus_decoder_destroy(d);
  /* loss-free twins through the 16-bit and 24-bit entry points (patterns decoded through those are compared with these) */
  { size_t tot=(size_t)s->n*s->fs*s->ch; s->twin16=(float*)malloc(sizeof(float)*tot); s->twin24=(float*)malloc(sizeof(float)*tot); static opus_int16 t16[5760*2]; static opus_int32 t24[5760*2]; OpusDecoder *d16=opus_decoder_create(s->Fs,s->ch,&err), *d24=opus_decoder_create(s->Fs,s->ch,&err);
    for(int k=0;k<s->n;k++){ size_t o=(size_t)k*s->fs*s->ch; int r1=opus_decode(d16,s->pkt[k],s->len[k],t16,s->fs,0), r2=opus_decode24(d24,s->pkt[k],s->len[k],t24,s->fs,0); if(r1!=s->fs||r2!=s->fs){ vc_viol("received:duration","loss-free decode of packet %d through the 16/24-bit entry points returned %d/%d, expected %d",k,r1,r2,s->fs); r1=r2=0; memset(t16,0,sizeof t16); memset(t24,0,sizeof t24); } for(int i=0;i<s->fs*s->ch;i++){ s->twin16[o+i]=t16[i]*(1.f/32768.f); s->twin24[o+i]=t24[i]*(1.f/8388608.f); } }
    opus_decoder_destroy(d16); opus_decoder_destroy(d24); } }
static void free_stream(cstream *s){ for(int i=0;i<s->n;i++) free(s->pkt[i]); free(s->twin); free(s->twin16); free(s->twin24); }

typedef struct { double blk[25]; double pk[25]; int nb; double acc; double accpk; int accn; int blkn; int chn; } recent_t;   /* last 500 ms of normally decoded audio in 20 ms blocks */
static void recent_reset(recent_t *q,int Fs){ memset(q,0,sizeof *q); q->blkn=Fs/50; q->chn=1; }
static void recent_push(recent_t *q,const float *x,int n,int ch){ q->chn=ch; for(int i=0;i<n;i++){ for(int c=0;c<ch;c++){ double v=x[i*ch+c]; q->acc+=v*v; if(fabs(v)>q->accpk) q->accpk=fabs(v); } if(++q->accn==q->blkn){ if(q->nb<25) q->nb++; memmove(q->blk+1,q->blk,sizeof(double)*24); memmove(q->pk+1,q->pk,sizeof(double)*24); q->blk[0]=sqrt(q->acc/(q->blkn*ch)); q->pk[0]=q->accpk; q->acc=0; q->accpk=0; q->accn=0; } } }
/* (the block still being filled counts too: with 2.5-10 ms packets the audio decoded last would otherwise be missing from the "recently decoded level" for up to 20 ms) */
static double recent_level(const recent_t *q){ double m=0; for(int i=0;i<q->nb;i++) if(q->blk[i]>m) m=q->blk[i]; if(q->accn*8>=q->blkn){ double p=sqrt(q->acc/((double)q->blkn*q->chn)); if(p>m) m=p; } return m; }
static double recent_peak(const recent_t *q){ double m=0; for(int i=0;i<q->nb;i++) if(q->pk[i]>m) m=q->pk[i]; if(q->accpk>m) m=q->accpk; return m; }

/* concealed audio is collected across consecutive calls into 20 ms blocks (the same block length as the reference level), so that
   2.5 ms pieces are not compared with 20 ms averages; lossms = length of the current continuous loss before this buffer */
static struct { double e,p; int n; } cacc; static struct { double e; int n; } dacc;
static int cc_steady=0; static double cc_prev1s=0, cc_cur1s=0; static int cc_have1s=0;   /* stationary stimulus: concealment level 1 s into each loss episode of one decoder lifetime */
static int check_concealed(const float *x,int n,int ch,const recent_t *q,double lossms,int Fs,const char *what,const char *ctx){ double lvl=recent_level(q), pk=recent_peak(q); int bn=Fs/50;
  for(int i=0;i<n*ch;i++) if(!isfinite(x[i])){ vc_viol("conceal:not-finite","%s: non-finite sample (%s)",what,ctx); return 1; }
  for(int i=0;i<n;i++){ for(int c=0;c<ch;c++){ double v=x[i*ch+c]; cacc.e+=v*v; if(fabs(v)>cacc.p) cacc.p=fabs(v); } if(++cacc.n<bn) continue; double rm=sqrt(cacc.e/(bn*ch)), p=cacc.p; double t=lossms+(i+1)*1000.0/Fs-20; cacc.e=0; cacc.p=0; cacc.n=0;
    if(lvl>1e-3){ vc_max("concealed_rms_over_recent_level",rm/lvl); vc_max("concealed_peak_over_recent_peak",p/(pk+1e-9)); }
    if(lvl>1e-3&&rm>3.2*lvl&&getenv("C09_DEBUG")) fprintf(stderr,"loud concealment: %s rm %.4f lvl %.4f t %.0f (%s)\n",what,rm,lvl,t,ctx);
    if(rm>C09_KAPPA*lvl+2e-3){ vc_viol("conceal:unbounded-rms","%s: 20 ms block RMS %.4f is %.2f x the level decoded in the last 500 ms (%.4f), %0.f ms into the loss (%s)",what,rm,rm/(lvl+1e-12),lvl,t,ctx); return 1; }
    if(p>C09_PEAK_KAPPA*pk+5e-3){ vc_viol("conceal:unbounded-peak","%s: peak %.4f is %.2f x the recent peak %.4f, %.0f ms into the loss (%s)",what,p,p/(pk+1e-12),pk,t,ctx); return 1; }
    if(cc_steady&&t>=1000&&!cc_have1s&&lvl>0.02){ cc_have1s=1; cc_cur1s=rm; if(cc_prev1s>1e-4){ vc_max("level_1s_into_loss_over_previous_episode",rm/cc_prev1s); if(rm>C09_EPISODE_GROWTH*cc_prev1s&&rm>0.02*lvl){ vc_viol("conceal:floor-grows","%s: 1 s into this loss episode the output level is %.5f, %.1f x the level 1 s into the previous episode (%.5f) of the same stationary stream; pre-loss level %.4f (%s)",what,rm,rm/cc_prev1s,cc_prev1s,lvl,ctx); return 1; } vc_count("episode_growth_checked",1); } }
    if(getenv("C09_DEBUG")&&atoi(getenv("C09_DEBUG"))>=3) fprintf(stderr,"blk t %.0f rm %.5f pk %.5f\n",t,rm,p);
    /* decay clause: from 1 s into a continuous loss, the level over each 200 ms (ten blocks; comfort noise fluctuates from block to block) against the pre-loss level */
    if(t>=1000){ dacc.e+=rm*rm; if(++dacc.n==10){ double r2=sqrt(dacc.e/10); dacc.e=0; dacc.n=0; if(lvl>1e-3) vc_max("level_after_1s_loss_over_recent_level",r2/lvl);
      if(lvl>0.02&&r2>C09_DELTA*lvl){ vc_viol("conceal:no-decay","%s: after %.0f ms of continuous loss the output level over 200 ms, %.4f, is still %.2f x the pre-loss level %.4f (%s)",what,t,r2,r2/lvl,lvl,ctx); return 1; } } } }
  return 0; }

/* sample format of the decoder calls of one pattern: 0 float, 1 16-bit, 2 24-bit (converted to float for the numeric oracles; return values
   and durations are those of the entry point used) */
static int g_api=0, g_dec_ch=1;
static int dec_api(OpusDecoder *d,const unsigned char *p,int len,float *out,int fs,int fec){
  if(g_api==0||fs<=0||fs>5760) return opus_decode_float(d,p,len,out,fs,fec);
  static opus_int16 t16[5760*2]; static opus_int32 t24[5760*2]; int ch=g_dec_ch, rc;
  if(g_api==1){ rc=opus_decode(d,p,len,t16,fs,fec); for(int i=0;i<rc*ch;i++) out[i]=t16[i]*(1.f/32768.f); vc_count("calls_through_16bit_api",1); }
  else { rc=opus_decode24(d,p,len,t24,fs,fec); for(int i=0;i<rc*ch;i++) out[i]=t24[i]*(1.f/8388608.f); vc_count("calls_through_24bit_api",1); }
  return rc; }
static long fec_better=0, lbrr_sub=0, lbrr_silent=0;
static OpusDecoder *g_rd=NULL;
static int decode_pattern_impl(const cstream *s,OpusDecoder *d,OpusDecoder *clone,const unsigned char *lost,int shape,const char *ctx,double *fec_err,double *plc_err,long *fec_events){
  static float out[5760*2], out2[5760*2]; int fs=s->fs, ch=s->ch, Fs=s->Fs; g_dec_ch=ch; const float *TW= g_api==1?s->twin16: g_api==2?s->twin24: s->twin; recent_t q; recent_reset(&q,Fs); int sz=opus_decoder_get_size(ch); double lossms=0; int last_loss=-1000; double sig=0,noi=0; long rn=0; double racc_n=0,racc_s=0; long racc_k=0, rblk=0, rbad=0; int dec_celt=-1;   /* mode of the last packet the decoder actually decoded (1 = MDCT-only) */   /* recovery: per >=20 ms block of audible twin audio, SNR against the twin */
  OpusDecoder *dbg_tw=NULL; if(getenv("C09_DEBUG")&&atoi(getenv("C09_DEBUG"))>=5){ int e2; dbg_tw=opus_decoder_create(Fs,ch,&e2); }
  dbg_ref=NULL; if(getenv("C09_DEBUG")&&atoi(getenv("C09_DEBUG"))>=6&&&ref_opus_decoder_create){ int e3; dbg_ref=ref_opus_decoder_create(Fs,ch,&e3); }
  OpusDecoder *rd=g_rd; static float rout[5760*2]; long relbad=0, relblk=0; int relfirst=-1, relfirst_after=0; double relw_t=0,relw_r=0,relw_s=0;
  opus_decoder_ctl(d,OPUS_RESET_STATE); cacc.e=0; cacc.p=0; cacc.n=0; dacc.e=0; dacc.n=0; cc_prev1s=0; cc_cur1s=0; cc_have1s=0;
  for(int i=0;i<s->n;i++){ double Dms=fs*1000.0/Fs;
    if(getenv("C09_DEBUG")&&atoi(getenv("C09_DEBUG"))>=7) dbg_cb=(i>=196&&i<=206);
    if(dbg_tw&&atoi(getenv("C09_DEBUG"))<7){ static float o3[5760*2]; dbg_cb=(last_loss>=0&&i-last_loss>=272&&i-last_loss<=279); if(dbg_cb) fprintf(stderr,"  twin decodes packet +%d\n",i-last_loss); opus_decode_float(dbg_tw,s->pkt[i],s->len[i],o3,fs,0); if(dbg_cb) fprintf(stderr,"  lossy decoder, packet +%d\n",i-last_loss); }
    if(lost[i]){ int next_ok=(i+1<s->n&&!lost[i+1]); int use_fec=(shape==2||shape==3)&&next_ok&&s->mode!=VK_MODE_CELT;
      if(use_fec&&dec_celt==1&&s->lbrr[i+1]) vc_count("fec_unavailable_decoder_in_celt_mode",1);
      if(use_fec){ /* the decoder conceals from a clone first (for comparison), then the real decoder uses the next packet's LBRR */
        memcpy(clone,d,sz); int rp=dec_api(clone,NULL,0,out2,fs,0); int want=fs; int big=(shape==3&&fs*2<=Fs/25*3); if(big) want=fs*2;   /* frame_size larger than the packet: concealment for the gap + LBRR */
        g_phase=2; g_pkt=i; g_minratio=1e9; g_maxratio=0; g_seen=0; g_exact=0; int rf=dec_api(d,s->pkt[i+1],s->len[i+1],out,want,1); g_phase=0; vc_count("fec_calls",1);
#ifdef VERIF_HAVE_REF
        if(rd) RD(opus_decode_float)(rd,s->pkt[i+1],s->len[i+1],rout,want,1);
#endif

        if(g_seen){ vc_count("lbrr_subframe_gains_compared",g_seen); vc_count("lbrr_subframe_gains_equal_to_encoder",g_exact); vc_min("lbrr_decoded_gain_over_encoder_gain",g_minratio); vc_max("lbrr_decoded_gain_over_encoder_gain",g_maxratio);
          if(g_minratio<C09_LBRR_GAIN){ vc_viol("fec:lbrr-gain-collapsed","a frame rebuilt from the LBRR data in packet %d is decoded with a sub-frame gain %.4f x the gain the encoder quantised that LBRR frame with (%s)",i+1,g_minratio,ctx); return 1; } }
        if(rp!=fs||rf!=want){ vc_viol("fec:duration","FEC call returned %d for frame_size %d (concealment on the clone %d) %s",rf,want,rp,ctx); return 1; }
        const float *frame=out+(size_t)(want-fs)*ch; for(int k=0;k<want*ch;k++) if(!isfinite(out[k])){ vc_viol("fec:not-finite","non-finite sample in FEC output (%s)",ctx); return 1; }
        /* the concealed part (the gap before the LBRR frame, or everything when the packet has no LBRR) obeys the concealment bounds; a frame rebuilt from LBRR data is coded audio and may legitimately be an onset */
        if(big){ if(check_concealed(out,want-fs,ch,&q,lossms,Fs,"FEC call, concealed gap",ctx)) return 1; } if(!s->lbrr[i+1]){ if(check_concealed(frame,fs,ch,&q,lossms+(big?Dms:0),Fs,"FEC call on a packet without LBRR",ctx)) return 1; } else { cacc.e=0; cacc.p=0; cacc.n=0; }
        if(!big){ double ef=0,ep=0; const float *t=TW+(size_t)i*fs*ch; for(int k=0;k<fs*ch;k++){ double a=frame[k]-t[k], b=out2[k]-t[k]; ef+=a*a; ep+=b*b; }
          if(s->lbrr[i+1]&&dec_celt!=1){ /* (the decoder cannot use LBRR data while its previous frame was MDCT-only: it conceals instead, by design) */ /* per 20 ms sub-frame: a frame rebuilt from LBRR data must carry the audio, not near-silence */
            int sb=Fs/50, lf[3]; int nlf=lbrr_frame_flags(s->pkt[i+1],s->len[i+1],lf); if(sb<=fs&&nlf==fs/sb) for(int b0=0;b0+sb<=fs;b0+=sb){ if(!lf[b0/sb]){ vc_count("fec_subframes_without_lbrr_data",1); continue; } double et=0,efb=0; for(int k=b0*ch;k<(b0+sb)*ch;k++){ et+=(double)t[k]*t[k]; efb+=(double)frame[k]*frame[k]; } vc_count("fec_lbrr_subframes",1); lbrr_sub++; if(et>sb*ch*0.03*0.03&&efb<0.003*et){ vc_count("fec_lbrr_subframes_near_silent",1); lbrr_silent++; if(getenv("C09_DEBUG")) fprintf(stderr,"near-silent LBRR sub-frame: packet %d sub %d twin rms %.4f fec rms %.5f (%s)\n",i,b0/sb,sqrt(et/(sb*ch)),sqrt(efb/(sb*ch)),ctx); } }
            if(getenv("C09_DEBUG")&&ef>=ep) fprintf(stderr,"fec worse than plc: lost packet %d (toc %02x len %d) next toc %02x len %d: fec err %.4g plc err %.4g twin energy %.4g (%s)\n",i,s->pkt[i][0],s->len[i],s->pkt[i+1][0],s->len[i+1],ef,ep,({double tt=0; for(int k=0;k<fs*ch;k++) tt+=(double)t[k]*t[k]; tt;}),ctx);
            *fec_err+=ef; *plc_err+=ep; (*fec_events)++; vc_count("fec_lbrr_events",1); if(ef<ep){ vc_count("fec_better_than_plc",1); fec_better++; } }
          else { vc_count("fec_without_lbrr",1); if(memcmp(frame,out2,sizeof(float)*fs*ch)==0) vc_count("fec_without_lbrr_equals_plc",1); else vc_count("fec_without_lbrr_differs_from_plc",1); /* 'behaves like concealment': bounded like concealment (checked above); bit equality with a cloned decoder's concealment is reported, not required */ } }
        if(dec_celt==0&&!(s->pkt[i+1][0]&0x80)) dec_celt=0; lossms+=Dms*(big?2:1); last_loss=i; continue; }
      /* concealment, whole or in pieces */
      /* call shapes: whole packet; pieces of 2.5..20 ms incl. 7.5 / 12.5 / 15 / 17.5 ms (served by the decoder in several internal steps); several lost
         packets concealed by one call of up to 120 ms.  The buffer is pre-filled with NaN so that any sample the call does not write is seen. */
      int merge=1; if(shape==0&&(i&1)==0){ while(merge<3&&i+merge<s->n&&lost[i+merge]&&(merge+1)*fs<=Fs/25*3) merge++; }
      int total=fs*merge; int piece= shape==1?(Fs/400)*(1+(i*7+3)%8): shape==4?Fs/400 /* everything in 2.5 ms calls */ :total; if(piece>total) piece=total; int done=0; for(int k=0;k<total*ch;k++) out[k]=NAN;
      if(merge>1) vc_count("plc_calls_spanning_several_packets",1);
      while(done<total){ int w=total-done<piece?total-done:piece; int rc=dec_api(d,NULL,0,out+(size_t)done*ch,w,0); vc_count("plc_calls",1);
#ifdef VERIF_HAVE_REF
        if(rd) RD(opus_decode_float)(rd,NULL,0,rout,w,0);
#endif
        if(rc!=w){ vc_viol("plc:duration","concealment call returned %d for frame_size %d (%s)",rc,w,ctx); return 1; } opus_int32 lpd=0; opus_decoder_ctl(d,OPUS_GET_LAST_PACKET_DURATION(&lpd)); if(lpd!=w){ vc_viol("plc:last-duration","last packet duration %d after concealing %d samples (%s)",lpd,w,ctx); return 1; } done+=w; }
      if(getenv("C09_DEBUG")&&atoi(getenv("C09_DEBUG"))>=6){ double e0=0,e1=0; for(int k=0;k<total;k++){ e0+=out[k*ch]*out[k*ch]; if(ch>1) e1+=out[k*ch+1]*out[k*ch+1]; } fprintf(stderr,"pkt %d LOST (toc %02x len %d) concealed %d samples rmsL %.4f rmsR %.4f\n",i,s->pkt[i][0],s->len[i],total,sqrt(e0/total),sqrt(e1/total)); if(dbg_ref){ static float o4[5760*2]; ref_opus_decode_float(dbg_ref,NULL,0,o4,total,0); double r0=0; for(int k=0;k<total;k++) r0+=o4[k*ch]*o4[k*ch]; fprintf(stderr,"      frozen reference decoder conceals the same loss at rmsL %.4f\n",sqrt(r0/total)); } }
      if(check_concealed(out,total,ch,&q,lossms,Fs,"concealment",ctx)) return 1; lossms+=Dms*merge; last_loss=i+merge-1; i+=merge-1; continue; }
    int rc=dec_api(d,s->pkt[i],s->len[i],out,fs,0); if(getenv("C09_DEBUG")&&atoi(getenv("C09_DEBUG"))>=6){ double e0=0,e1=0; for(int k=0;k<fs;k++){ e0+=out[k*ch]*out[k*ch]; if(ch>1) e1+=out[k*ch+1]*out[k*ch+1]; } fprintf(stderr,"pkt %d rx toc %02x len %d rmsL %.4f rmsR %.4f\n",i,s->pkt[i][0],s->len[i],sqrt(e0/fs),sqrt(e1/fs)); if(dbg_ref){ static float o4[5760*2]; ref_opus_decode_float(dbg_ref,s->pkt[i],s->len[i],o4,fs,0); } } opus_uint32 fr=0; opus_decoder_ctl(d,OPUS_GET_FINAL_RANGE(&fr)); vc_count("received_calls",1);
    if(rc!=fs){ vc_viol("received:duration","received packet %d returned %d expected %d (%s)",i,rc,fs,ctx); return 1; }
    if(fr!=s->rng[i]){ vc_viol("received:final-range","packet %d after losses decodes with final range %08x, encoder had %08x (%s)",i,fr,s->rng[i],ctx); return 1; }
    for(int k=0;k<fs*ch;k++) if(!isfinite(out[k])){ vc_viol("received:not-finite","non-finite sample in packet %d (%s)",i,ctx); return 1; }
#ifdef VERIF_HAVE_REF
    if(rd){ int rr=RD(opus_decode_float)(rd,s->pkt[i],s->len[i],rout,fs,0); if(rr==fs&&last_loss>=0){ /* convergence relative to the frozen build: per 5 ms block, distance from the loss-free output */
        const float *t=TW+(size_t)i*fs*ch; int B=Fs/200; for(int b0=0;b0+B<=fs;b0+=B){ double et=0,er=0,st=0; for(int k=b0*ch;k<(b0+B)*ch;k++){ double a=out[k]-t[k], q=rout[k]-t[k]; et+=a*a; er+=q*q; st+=(double)t[k]*t[k]; }
          if(st<1e-6*B*ch&&et<1e-6*B*ch) continue; relblk++; if(et>pow(10,-C09_REL_FLOOR_DB/10)*st){ vc_count("recovery_blocks_above_floor",1); vc_max("recovery_block_error_tree_over_frozen_db_above_floor",10*log10(et/(er+1e-9*B*ch))); }
          if(et>pow(10,-C09_REL_FLOOR_DB/10)*st&&et>pow(10,C09_REL_DB/10)*er+1e-9*B*ch){ relbad++; if(relfirst<0){ relfirst=i; relfirst_after=i-last_loss; relw_t=et; relw_r=er; relw_s=st; } } } } }
#endif
    if(cc_have1s){ cc_prev1s=cc_cur1s; cc_have1s=0; } dacc.e=0; dacc.n=0; lossms=0; cacc.e=0; cacc.p=0; cacc.n=0; recent_push(&q,out,fs,ch); dec_celt=(s->pkt[i][0]&0x80)?1:0;
    /* recovery: from 1 s after the last loss, compare with the loss-free twin */
    if(dbg_tw&&last_loss>=0&&(i-last_loss)%20==0){ const unsigned char *a=(const unsigned char*)d,*b=(const unsigned char*)dbg_tw; int nd=0; char offs[400]; offs[0]=0; int prev=-100; for(int q=0;q<sz;q++) if(a[q]!=b[q]){ nd++; if(q-prev>8&&strlen(offs)<380) sprintf(offs+strlen(offs),"%d ",q); prev=q; } fprintf(stderr,"state diff +%d: %d bytes differ; offsets %s\n",i-last_loss,nd,offs); }
    if(last_loss>=0&&getenv("C09_DEBUG")&&atoi(getenv("C09_DEBUG"))>=4){ const float *t=TW+(size_t)i*fs*ch; double n1=0,s1=0; for(int k=0;k<fs*ch;k++){ double a=out[k]-t[k]; n1+=a*a; s1+=(double)t[k]*t[k]; } fprintf(stderr,"after loss +%d packets toc %02x len %d: snr %.1f dB (sig %.3g)\n",i-last_loss,s->pkt[i][0],s->len[i],10*log10(s1/(n1+1e-20)),s1); }
    if(last_loss>=0&&(i-last_loss)*Dms>=1000){ const float *t=TW+(size_t)i*fs*ch; double n1=0,s1=0; for(int k=0;k<fs*ch;k++){ double a=out[k]-t[k]; n1+=a*a; s1+=(double)t[k]*t[k]; } noi+=n1; sig+=s1; rn+=fs; racc_n+=n1; racc_s+=s1; racc_k+=fs; if(racc_k>=Fs/50){ if(racc_s>1e-6*racc_k*ch){ rblk++; if(racc_s<100*racc_n) rbad++; } racc_n=racc_s=0; racc_k=0; } } }
  /* recovery: from 1 s after the last loss the output is the loss-free twin's again.  Verdict on the fraction of audible >=20 ms blocks within C09_RECOVER_DB of the twin (a decoder that
     went through a loss keeps last-bit state differences for ever, and SILK's long-term predictor can amplify them for a few frames at a strong voiced onset seconds later: the
     closed-loop encoder only keeps its own synthesis on track); the aggregate SNR is reported */
  if(rd&&relblk){ vc_count("recovery_blocks_compared_with_frozen_build",relblk); vc_count("recovery_patterns_compared_with_frozen_build",1);
    if(relbad){ vc_viol("recovery:worse-than-frozen-build","after the loss %ld of %ld 5 ms blocks of received packets are more than %.0f dB further from the loss-free decoder's output than the frozen build's decoder is under the same calls (and less than %.0f dB below the block's level); first: packet %d, %d packets after the last loss: distance %.1f dB re the block's level, frozen build %.1f dB (%s)",relbad,relblk,C09_REL_DB,C09_REL_FLOOR_DB,relfirst,relfirst_after,10*log10(relw_t/(relw_s+1e-20)),10*log10((relw_r+1e-20)/(relw_s+1e-20)),ctx); return 1; } }
  if(rn>=Fs/4&&sig>1e-6&&rblk>=5){ double snr=10*log10(sig/(noi+1e-20)); vc_min("recovery_snr_db_1s_after_loss",snr); vc_max("recovery_fraction_of_blocks_not_converged",(double)rbad/rblk); if(rbad>C09_RECOVER_BADFRAC*rblk&&rbad>=5 /* gated stimuli leave few audible blocks: a fraction of fewer than five blocks is not a measurement */){ vc_viol("recovery:not-converged","from 1 s after the last loss %ld of %ld audible 20 ms blocks are still more than %.0f dB (SNR) away from the loss-free decoder's output (aggregate SNR %.1f dB) (%s)",rbad,rblk,C09_RECOVER_DB,snr,ctx); return 1; } vc_count("recoveries_checked",1); if(noi==0) vc_count("recoveries_bit_exact",1); }
  return 0; }

static int decode_pattern(const cstream *s,OpusDecoder *d,OpusDecoder *clone,const unsigned char *lost,int shape,const char *ctx,double *fec_err,double *plc_err,long *fec_events){
  g_rd=NULL;
#ifdef VERIF_HAVE_REF
  static unsigned alt=0; if(g_api==0&&((alt++)&1)==0){ int e4; g_rd=RD(opus_decoder_create)(s->Fs,s->ch,&e4); }
#endif
  int rc=decode_pattern_impl(s,d,clone,lost,shape,ctx,fec_err,plc_err,fec_events);
#ifdef VERIF_HAVE_REF
  if(g_rd){ RD(opus_decoder_destroy)(g_rd); g_rd=NULL; }
#endif
  return rc; }

static void mode_window(void){
  vc_rng r; vc_case_rng(&r,9); int err; int K=(int)vc_argl("k",8); cstream s; make_stream(&r,&s,3400); double Dms0=s.fs*1000.0/s.Fs; int pos_min=(int)(500/Dms0)+1, pos_max=s.n-K-(int)(1500/Dms0)-2; if(pos_max<pos_min){ vc_count("streams_too_short",1); free_stream(&s); return; }
  OpusDecoder *d=opus_decoder_create(s.Fs,s.ch,&err); OpusDecoder *clone=(OpusDecoder*)malloc(opus_decoder_get_size(s.ch)); int pos=vc_range(&r,pos_min,pos_max);
  /* every second stream: the window sits on the end of a loud segment (the level falls by more than 24 dB within three packets), so that the lost span hides a large drop
     of the coded gains and concealment extrapolates the loud audio into what follows */
  if(vc_chance(&r,1,2)){ int cand[64], nc=0; for(int i=pos_min+1;i+3<pos_max+K&&i+3<s.n&&nc<64;i++){ double e0=0,e1=0; const float *a=s.twin+(size_t)(i-1)*s.fs*s.ch, *b=s.twin+(size_t)(i+2)*s.fs*s.ch; for(int k=0;k<s.fs*s.ch;k++){ e0+=(double)a[k]*a[k]; e1+=(double)b[k]*b[k]; } if(e0>1e-4*s.fs*s.ch&&e1<e0/250) cand[nc++]=i; }
    if(nc){ int c0=cand[vc_below(&r,nc)]; int p2=c0-1-(int)vc_below(&r,K>3?K/2:1); if(p2<pos_min) p2=pos_min; if(p2>pos_max) p2=pos_max; pos=p2; vc_count("windows_on_the_end_of_a_loud_segment",1); } }
  char ctx[200]; static unsigned char lost[MAXP]; double fe=0,pe=0; long fev=0;
  fec_better=0; lbrr_sub=0; lbrr_silent=0;
  for(unsigned pat=0;pat<(1u<<K);pat++){ memset(lost,0,sizeof lost); for(int b=0;b<K;b++) if(pat&(1u<<b)) lost[pos+b]=1; int shape=(pat*2654435761u>>13)&3; { unsigned a=(pat*40503u>>5)&7; g_api= a==6?1: a==7?2:0; } snprintf(ctx,sizeof ctx,"mode %d frame %.1f ms Fs %d ch %d window at %d pattern %#x shape %d api %d",s.mode,s.fs*1000.0/s.Fs,s.Fs,s.ch,pos,pat,shape,g_api);
    if(decode_pattern(&s,d,clone,lost,shape,ctx,&fe,&pe,&fev)){ g_api=0; goto out; } g_api=0; vc_count("patterns",1); }
  /* near-silent LBRR reconstructions are reported (counters): an LBRR frame quantised with raised gains may legitimately code no pulses */
  if(fev>=40){ vc_max("fec_error_energy_over_plc_error_energy",fe/(pe+1e-20)); vc_count("fec_aggregates",1); vc_min("fec_fraction_of_events_better_than_plc",(double)fec_better/fev); if(fe>C09_RHO*pe||fec_better<C09_FRAC*fev){ vc_viol("fec:not-better-than-plc","over %ld lost frames whose next packet carries LBRR, FEC error energy is %.2f x the concealment error energy and only %ld are closer to the loss-free decoder than concealment (%s)",fev,fe/(pe+1e-20),fec_better,ctx); } else vc_count("fec_aggregate_checked",1); }
  vc_sig3((uint64_t)s.mode|((uint64_t)s.fidx<<12),(uint64_t)(s.Fs/8000)|((uint64_t)s.ch<<3),(uint64_t)K);
  if(vc_want_sample()) vc_sample("{\"mode\":\"window\",\"codec_mode\":%d,\"frame_ms\":%.1f,\"Fs\":%d,\"ch\":%d,\"packets\":%d,\"window_at\":%d,\"k\":%d,\"patterns\":%u,\"lbrr_events\":%ld}",s.mode,s.fs*1000.0/s.Fs,s.Fs,s.ch,s.n,pos,K,1u<<K,fev);
out:
  opus_decoder_destroy(d); free(clone); free_stream(&s);
}

static void mode_burst(void){
  vc_rng r; vc_case_rng(&r,10); int err; cstream s; make_stream(&r,&s,vc_range(&r,4000,12000)); if(s.n<60){ free_stream(&s); return; } OpusDecoder *d=opus_decoder_create(s.Fs,s.ch,&err); OpusDecoder *clone=(OpusDecoder*)malloc(opus_decoder_get_size(s.ch)); static unsigned char lost[MAXP]; char ctx[200]; double fe=0,pe=0; long fev=0; double Dms=s.fs*1000.0/s.Fs;
  for(int t=0;t<4;t++){ memset(lost,0,sizeof lost); int start=vc_range(&r,(int)(600/Dms)+1,s.n/2); int len= t==0?(int)(vc_range(&r,1000,10000)/Dms): t==1?(int)(vc_range(&r,1000,3000)/Dms): vc_range(&r,1,12); for(int i=start;i<start+len&&i<s.n;i++) lost[i]=1; if(t>=2) for(int i=0;i<s.n;i++) if(i>20&&vc_chance(&r,1,10)) lost[i]=1;
    int shape=t==3?3:(int)vc_below(&r,4); if(shape==3) shape=4; snprintf(ctx,sizeof ctx,"mode %d frame %.1f ms Fs %d ch %d burst of %d packets at %d shape %d",s.mode,Dms,s.Fs,s.ch,len,start,shape); if(decode_pattern(&s,d,clone,lost,shape,ctx,&fe,&pe,&fev)) break; vc_count("burst_patterns",1); if(len*Dms>=1000) vc_count("bursts_over_1s",1); }
  vc_sig3((uint64_t)s.mode|((uint64_t)s.fidx<<12),(uint64_t)(s.Fs/8000)|((uint64_t)s.ch<<3),99);
  opus_decoder_destroy(d); free(clone); free_stream(&s);
}

/* several long bursts in ONE decoder lifetime (no reset in between): state that accumulates over loss episodes (background-noise estimate, loss counters) must not
   keep concealment from decaying in a later burst */
static void mode_multiburst(void){
  vc_rng r; vc_case_rng(&r,11); int err; cstream s; g_steady=(int)vc_below(&r,2); make_stream(&r,&s,60000); int steady=g_steady; g_steady=0; double Dms=s.fs*1000.0/s.Fs; if(s.n*Dms<12000){ vc_count("streams_too_short",1); free_stream(&s); return; } OpusDecoder *d=opus_decoder_create(s.Fs,s.ch,&err); OpusDecoder *clone=(OpusDecoder*)malloc(opus_decoder_get_size(s.ch)); static unsigned char lost[MAXP]; char ctx[200]; double fe=0,pe=0; long fev=0;
  memset(lost,0,sizeof lost); int i=(int)((steady?2600:700)/Dms)+1, nb=0; while(i<s.n){ int len=(int)(vc_range(&r,4000,10000)/Dms), gap=(int)(vc_range(&r,300,1200)/Dms)+1; if(i+len>=s.n-(int)(1200/Dms)) break; for(int k=i;k<i+len;k++) lost[k]=1; i+=len+gap; nb++; }
  int shape=(int)vc_below(&r,4); if(shape==3) shape=4; snprintf(ctx,sizeof ctx,"mode %d frame %.1f ms Fs %d ch %d, %d bursts of 4-10 s in one decoder lifetime, %s, shape %d",s.mode,Dms,s.Fs,s.ch,nb,steady?"stationary noise after a quiet lead-in":"speech-like",shape);
  cc_steady=steady; int bad=nb<2||decode_pattern(&s,d,clone,lost,shape,ctx,&fe,&pe,&fev); cc_steady=0;
  if(!bad){ vc_count("multiburst_patterns",1); vc_count("multiburst_bursts",nb); if(steady) vc_count("multiburst_stationary_patterns",1); }
  vc_sig3((uint64_t)s.mode|((uint64_t)s.fidx<<12),(uint64_t)(s.Fs/8000)|((uint64_t)s.ch<<3),77+steady);
  opus_decoder_destroy(d); free(clone); free_stream(&s);
}

int main(int argc,char **argv){
  if(!&opus_verif_silk_params_cb){ fprintf(stderr,"hook H2 (opus_verif_silk_params_cb) is missing from this tree\n"); return 3; } opus_verif_silk_params_cb=gains_cb; if(!&opus_verif_silk_lbrr_gains_cb){ fprintf(stderr,"hook H3 (opus_verif_silk_lbrr_gains_cb) is missing from this tree\n"); return 3; } opus_verif_silk_lbrr_gains_cb=lbrr_enc_cb;
  static const vc_mode_t modes[]={{"window",mode_window},{"burst",mode_burst},{"multiburst",mode_multiburst},{0,0}};
  return vc_main(argc,argv,"C09",modes);
}
