#include <stdio.h>
#include <stdlib.h>
#include "opus.h"
#include "entdec.h"
int __real_ec_dec_icdf(ec_dec*,const unsigned char*,unsigned);
static const unsigned char* seen[512]; static int nseen; static long calls, bad;
int __wrap_ec_dec_icdf(ec_dec*d,const unsigned char*t,unsigned ftb){ calls++; int i; for(i=0;i<nseen;i++) if(seen[i]==t) break; if(i==nseen&&nseen<512){ seen[nseen++]=t; int k=0; if(t[0]>(1u<<ftb)) bad++; while(t[k]!=0){ if(k>255||t[k+1]>=t[k]){bad++;break;} k++; } }
  return __real_ec_dec_icdf(d,t,ftb); }
int main(){ int err; OpusEncoder*e=opus_encoder_create(16000,1,OPUS_APPLICATION_VOIP,&err); OpusDecoder*d=opus_decoder_create(16000,1,&err); short in[320],out[320]; unsigned char p[400];
 for(int k=0;k<100;k++){ for(int i=0;i<320;i++) in[i]=(short)(8000*__builtin_sin((k*320+i)*0.05)*(1+__builtin_sin(k*0.3))); int l=opus_encode(e,in,320,p,400); opus_decode(d,p,l,out,320,0);} 
 printf("calls=%ld distinct_tables=%d bad=%ld\n",calls,nseen,bad); return 0; }
