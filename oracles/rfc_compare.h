/* rfc_compare.h -- the RFC 6716 / RFC 8251 conformance metric (opus_compare) as a function.
 * Transcribed from the algorithm of the reference tool src/opus_compare.c (band table, window sizes, masking model, weighting and
 * the pass mark Q >= 0 are the tool's).  Two uses:
 *   rfc_compare(ref48, nref, test, rate, nch)         the RFC procedure: reference = 48 kHz *stereo* 16-bit PCM (down-mixed for mono
 *                                                     tests), test = 16-bit PCM at `rate` with nch channels
 *   rfc_compare_same(ref, test, n, rate, nch)         the same metric with a reference at the *same* rate and channel count as the
 *                                                     test (the reference is analysed exactly like the tool analyses its test input)
 * Samples are floats holding 16-bit integer values.  Returns the quality Q in percent (pass: Q >= 0); -1000 on unusable input. */
#ifndef RFC_COMPARE_H
#define RFC_COMPARE_H
#include <stdlib.h>
#include <string.h>
#include <math.h>

#define RC_NBANDS 21
#define RC_NFREQS 240
#define RC_WIN 480
#define RC_STEP 120
static const int RC_BANDS[RC_NBANDS+1]={0,2,4,6,8,10,12,14,16,20,24,28,32,40,48,56,68,80,96,120,156,200};

static void rc_band_energy(float *out,float *ps,int nbands,const float *in,int nch,size_t nframes,int win,int step,int downsample){
  float *window=(float*)malloc(sizeof(float)*(3+nch)*win), *c=window+win, *s=c+win, *x=s+win; int ps_sz=win/2; const double PI=3.14159265358979323846;
  for(int j=0;j<win;j++){ window[j]=0.5f-0.5f*(float)cos((2*PI/(win-1))*j); c[j]=(float)cos((2*PI/win)*j); s[j]=(float)sin((2*PI/win)*j); }
  for(size_t xi=0;xi<nframes;xi++){ for(int ci=0;ci<nch;ci++) for(int k=0;k<win;k++) x[ci*win+k]=window[k]*in[(xi*step+k)*nch+ci];
    int xj=0; for(int bi=0;bi<nbands;bi++){ float p[2]={0,0}; for(;xj<RC_BANDS[bi+1];xj++) for(int ci=0;ci<nch;ci++){ float re=0,im=0; int ti=0; for(int k=0;k<win;k++){ re+=c[ti]*x[ci*win+k]; im-=s[ti]*x[ci*win+k]; ti+=xj; if(ti>=win) ti-=win; } re*=downsample; im*=downsample; ps[(xi*ps_sz+xj)*nch+ci]=re*re+im*im+100000; p[ci]+=ps[(xi*ps_sz+xj)*nch+ci]; }
      if(out){ out[(xi*nbands+bi)*nch]=p[0]/(RC_BANDS[bi+1]-RC_BANDS[bi]); if(nch==2) out[(xi*nbands+bi)*nch+1]=p[1]/(RC_BANDS[bi+1]-RC_BANDS[bi]); } } }
  free(window); }

/* core: x = reference analysed with (xwin,xstep,xds) giving xfreqs bins and xbands bands; y = test at `rate` */
static double rc_core(const float *x,int xfull,const float *y,size_t nframes,int rate,int nch){
  int downsample=48000/rate; int ybands= rate==8000?13: rate==12000?15: rate==16000?17: rate==24000?19: RC_NBANDS; int yfreqs=RC_NFREQS/downsample;
  int xbands= xfull?RC_NBANDS:ybands, xfreqs= xfull?RC_NFREQS:yfreqs;
  float *xb=(float*)calloc(nframes*RC_NBANDS*nch,sizeof(float)), *X=(float*)malloc(sizeof(float)*nframes*xfreqs*nch), *Y=(float*)malloc(sizeof(float)*nframes*yfreqs*nch), *xbt=(float*)malloc(sizeof(float)*nframes*xbands*nch);
  if(xfull) rc_band_energy(xbt,X,RC_NBANDS,x,nch,nframes,RC_WIN,RC_STEP,1); else rc_band_energy(xbt,X,ybands,x,nch,nframes,RC_WIN/downsample,RC_STEP/downsample,downsample);
  for(size_t xi=0;xi<nframes;xi++) for(int bi=0;bi<xbands;bi++) for(int ci=0;ci<nch;ci++) xb[(xi*RC_NBANDS+bi)*nch+ci]=xbt[(xi*xbands+bi)*nch+ci];
  free(xbt); rc_band_energy(NULL,Y,ybands,y,nch,nframes,RC_WIN/downsample,RC_STEP/downsample,downsample);
  for(size_t xi=0;xi<nframes;xi++){
    for(int bi=1;bi<RC_NBANDS;bi++) for(int ci=0;ci<nch;ci++) xb[(xi*RC_NBANDS+bi)*nch+ci]+=0.1f*xb[(xi*RC_NBANDS+bi-1)*nch+ci];
    for(int bi=RC_NBANDS-1;bi-->0;) for(int ci=0;ci<nch;ci++) xb[(xi*RC_NBANDS+bi)*nch+ci]+=0.03f*xb[(xi*RC_NBANDS+bi+1)*nch+ci];
    if(xi>0) for(int bi=0;bi<RC_NBANDS;bi++) for(int ci=0;ci<nch;ci++) xb[(xi*RC_NBANDS+bi)*nch+ci]+=0.5f*xb[((xi-1)*RC_NBANDS+bi)*nch+ci];
    if(nch==2) for(int bi=0;bi<RC_NBANDS;bi++){ float l=xb[(xi*RC_NBANDS+bi)*nch], r=xb[(xi*RC_NBANDS+bi)*nch+1]; xb[(xi*RC_NBANDS+bi)*nch]+=0.01f*r; xb[(xi*RC_NBANDS+bi)*nch+1]+=0.01f*l; }
    for(int bi=0;bi<ybands;bi++) for(int xj=RC_BANDS[bi];xj<RC_BANDS[bi+1];xj++) for(int ci=0;ci<nch;ci++){ X[(xi*xfreqs+xj)*nch+ci]+=0.1f*xb[(xi*RC_NBANDS+bi)*nch+ci]; Y[(xi*yfreqs+xj)*nch+ci]+=0.1f*xb[(xi*RC_NBANDS+bi)*nch+ci]; } }
  for(int bi=0;bi<ybands;bi++) for(int xj=RC_BANDS[bi];xj<RC_BANDS[bi+1];xj++) for(int ci=0;ci<nch;ci++){ float xt=X[xj*nch+ci], yt=Y[xj*nch+ci]; for(size_t xi=1;xi<nframes;xi++){ float x2=X[(xi*xfreqs+xj)*nch+ci], y2=Y[(xi*yfreqs+xj)*nch+ci]; X[(xi*xfreqs+xj)*nch+ci]+=xt; Y[(xi*yfreqs+xj)*nch+ci]+=yt; xt=x2; yt=y2; } }
  int max_compare= rate==48000?RC_BANDS[RC_NBANDS]: rate==12000?RC_BANDS[ybands]:RC_BANDS[ybands]-3; double err=0;
  for(size_t xi=0;xi<nframes;xi++){ double Ef=0; for(int bi=0;bi<ybands;bi++){ double Eb=0; for(int xj=RC_BANDS[bi];xj<RC_BANDS[bi+1]&&xj<max_compare;xj++) for(int ci=0;ci<nch;ci++){ float re=Y[(xi*yfreqs+xj)*nch+ci]/X[(xi*xfreqs+xj)*nch+ci]; float im=re-(float)log(re)-1; if(xj>=79&&xj<=81) im*=0.1f; if(xj==80) im*=0.1f; Eb+=im; } Eb/=(RC_BANDS[bi+1]-RC_BANDS[bi])*nch; Ef+=Eb*Eb; } Ef/=RC_NBANDS; Ef*=Ef; err+=Ef*Ef; }
  free(xb); free(X); free(Y); err=pow(err/nframes,1.0/16); return 100*(1-0.5*log(1+err)/log(1.13)); }

/* RFC procedure.  ref48: interleaved stereo at 48 kHz, nref samples per channel; test: nch channels at rate, nref*rate/48000 samples per channel */
static double rfc_compare(const float *ref48_stereo,size_t nref,const float *test,int rate,int nch){ if(nref<RC_WIN) return -1000; size_t nframes=(nref-RC_WIN+RC_STEP)/RC_STEP; float *x=(float*)malloc(sizeof(float)*nref*nch); if(nch==1) for(size_t i=0;i<nref;i++) x[i]=0.5f*(ref48_stereo[2*i]+ref48_stereo[2*i+1]); else memcpy(x,ref48_stereo,sizeof(float)*nref*2); double q=rc_core(x,1,test,nframes,rate,nch); free(x); return q; }
/* same-rate variant: ref and test both nch channels at rate, n samples per channel */
static double rfc_compare_same(const float *ref,const float *test,size_t n,int rate,int nch){ int ds=48000/rate; if(n*ds<RC_WIN) return -1000; size_t nframes=(n*ds-RC_WIN+RC_STEP)/RC_STEP; return rc_core(ref,0,test,nframes,rate,nch); }
#endif
