/* C03 -- decoder output conforms to the (frozen) reference decoder.
 * Streams come from the FROZEN reference encoder (so encoder-side edits of the tree cannot mask decoder-side edits), are regrouped
 * into multi-frame / padded packets with the frozen repacketizer, and are decoded in lock-step by the tree decoder and by the
 * frozen reference decoder.  Per packet: identical sample count and range-coder final state (exact).  Per stream: the RFC
 * conformance metric (oracles/rfc_compare.h) of the tree's 16-bit output against (a) the reference decoder's 48 kHz stereo output
 * (the RFC procedure) and (b) the reference decoder's output at the same rate and channel count; pass mark Q >= 0 as in the RFC.
 * Modes:  stream   the differential run        metric   cross-check of the metric port against the RFC tool itself
 */
#include "vcodec.h"
#include "refapi.h"
#include "rfc_compare.h"
#ifdef FIXED_POINT
#define TREE_FIXED 1
#else
#define TREE_FIXED 0
#endif

#define MAXPK 400
#ifndef C03_BLOCK_SNR_DB
#define C03_BLOCK_SNR_DB 3.0   /* an audible 2.5 ms block (reference rms >= 200 LSB) must be within this SNR of the reference decoder on the same packets; measured minimum on the pinned tree 16.6 dB over 6e6 blocks (a dropped or doubled block sits at 0 dB) */
#endif
typedef struct { int n; unsigned char *pkt[MAXPK]; int len[MAXPK]; int dur48[MAXPK]; } rstream;
static void rfree(rstream *s){ for(int i=0;i<s->n;i++) free(s->pkt[i]); }
static void emit(rstream *s,const unsigned char *p,int len){ if(s->n>=MAXPK||len<=0) return; s->pkt[s->n]=vc_exact_copy(p,len); s->len[s->n]=len; rfc_pkt m; rfc_parse(p,len,0,&m); s->dur48[s->n]=m.valid?m.count*rfc_dur48(p[0]):0; s->n++; }

/* frozen encoder over its configuration space; packets regrouped by the frozen repacketizer */
/* `joint` streams (one in three): speech-layer streams of voiced material in which internal bandwidth and frame duration are re-drawn
   TOGETHER at every switch point, so that every ordered pair of (8/12/16 kHz internal rate, 10/20/40/60 ms) decoder configurations
   follows each other directly (state that is keyed on a product of the two, e.g. samples per frame, only shows on such pairs) */
static void make_ref_stream(vc_rng *r,rstream *s,int want_ms,char *desc,size_t dn){ int err; int joint=vc_chance(r,1,3); static const int jr[3]={16000,24000,48000}; int eFs=joint?VC_PICK(r,jr):VC_PICK(r,vk_rates), ch=1+vc_below(r,2), app=joint?vk_apps[vc_below(r,2)]:VC_PICK(r,vk_apps);
  /* starved layers: forced-stereo hybrid (or MDCT-only) at very low rates, where the bit allocation works at its thresholds (skip flags, intensity, minimum band budgets) */
  int starve=!joint&&vc_chance(r,1,7); if(starve){ eFs=vc_chance(r,3,4)?48000:24000; ch=vc_chance(r,4,5)?2:1; app=vc_chance(r,2,3)?OPUS_APPLICATION_VOIP:OPUS_APPLICATION_AUDIO; vc_count("starved_layer_streams",1); }
  OpusEncoder *e=ref_opus_encoder_create(eFs,ch,app,&err); if(!e){ fprintf(stderr,"ref encoder create %d\n",err); exit(3); }
  int mode=vc_chance(r,1,4)?OPUS_AUTO:VK_MODE_SILK+(int)vc_below(r,3); if(joint) mode=vc_chance(r,3,5)?VK_MODE_HYBRID:vc_chance(r,1,2)?VK_MODE_SILK:OPUS_AUTO; /* a forced hybrid mode falls back to the speech layer alone at <= WB and makes its internal rate jump 8/12 -> 16 kHz in one packet */ ref_opus_encoder_ctl(e,VK_SET_FORCE_MODE_REQUEST,mode); int br=vc_chance(r,1,8)?vc_range(r,6000,12000):vc_chance(r,1,8)?vc_range(r,200000,510000):vc_range(r,12000,128000)*ch; ref_opus_encoder_ctl(e,OPUS_SET_BITRATE(br));
  if(starve){ mode=vc_chance(r,3,4)?VK_MODE_HYBRID:VK_MODE_CELT; ref_opus_encoder_ctl(e,VK_SET_FORCE_MODE_REQUEST,mode); if(ch==2) ref_opus_encoder_ctl(e,OPUS_SET_FORCE_CHANNELS(2)); ref_opus_encoder_ctl(e,OPUS_SET_BANDWIDTH(eFs==48000?(vc_chance(r,2,3)?OPUS_BANDWIDTH_FULLBAND:OPUS_BANDWIDTH_SUPERWIDEBAND):OPUS_BANDWIDTH_SUPERWIDEBAND)); ref_opus_encoder_ctl(e,OPUS_SET_BITRATE(vc_range(r,10000,26000))); }
  if(vc_chance(r,1,3)){ ref_opus_encoder_ctl(e,OPUS_SET_INBAND_FEC(1)); ref_opus_encoder_ctl(e,OPUS_SET_PACKET_LOSS_PERC(20)); } if(vc_chance(r,1,6)) ref_opus_encoder_ctl(e,OPUS_SET_DTX(1)); if(vc_chance(r,1,4)) ref_opus_encoder_ctl(e,OPUS_SET_VBR(0)); ref_opus_encoder_ctl(e,OPUS_SET_COMPLEXITY(vc_below(r,11)));
  int sig=vc_below(r,VS_NFINITE); if(joint) sig=vc_chance(r,1,2)?VS_VOICED:VS_SPEECHLIKE; vc_siggen g; vs_init(&g,sig,eFs,ch,(float)(0.1+0.8*vc_unit(r)),vc_next(r)); int fidx=vc_below(r,9); if(starve){ fidx=2+(int)vc_below(r,2); g.kind=vc_chance(r,1,2)?VS_VOICED:VS_SPEECHLIKE; }
  if(joint){ fidx=2+(int)vc_below(r,4); ref_opus_encoder_ctl(e,OPUS_SET_BANDWIDTH(OPUS_BANDWIDTH_NARROWBAND+(int)vc_below(r,5))); } static float in[5760*2]; static unsigned char buf[1500], grp[1277*48+200]; OpusRepacketizer *rp=ref_opus_repacketizer_create(); ref_opus_repacketizer_init(rp);
  unsigned char *held[8]; int nheld=0; int gtarget=1; long ms48=0; s->n=0; int switches=0;
  while(ms48<(long)want_ms*48&&s->n<MAXPK-2){
    if(joint&&vc_chance(r,1,4)){ fidx=2+(int)vc_below(r,4); ref_opus_encoder_ctl(e,OPUS_SET_BANDWIDTH(OPUS_BANDWIDTH_NARROWBAND+(int)vc_below(r,5))); vc_count("joint_bandwidth_duration_switches",1); }
    if(!joint&&!starve){
    if(vc_chance(r,1,6)){ mode=vc_chance(r,1,5)?OPUS_AUTO:VK_MODE_SILK+(int)vc_below(r,3); ref_opus_encoder_ctl(e,VK_SET_FORCE_MODE_REQUEST,mode); switches++; }
    if(vc_chance(r,1,10)) ref_opus_encoder_ctl(e,OPUS_SET_BANDWIDTH(vc_chance(r,1,3)?OPUS_AUTO:OPUS_BANDWIDTH_NARROWBAND+(int)vc_below(r,5))); if(ch==2&&vc_chance(r,1,12)) ref_opus_encoder_ctl(e,OPUS_SET_FORCE_CHANNELS(vc_chance(r,1,2)?OPUS_AUTO:1+(int)vc_below(r,2))); if(vc_chance(r,1,10)) fidx=vc_below(r,9); if(vc_chance(r,1,12)) ref_opus_encoder_ctl(e,OPUS_SET_BITRATE(vc_range(r,8000,96000)*ch)); if(vc_chance(r,1,20)){ g.kind=vc_below(r,VS_NFINITE); } }
    int fs=vk_frame_samples(eFs,fidx); vs_fill(&g,in,fs); int len=ref_opus_encode_float(e,in,fs,buf,1500); if(len<=0) break; ms48+=(long)fs*48000/eFs;
    /* regroup: try to add to the pending group; flush when incompatible or complete */
    unsigned char *cp=vc_exact_copy(buf,len); int rc=ref_opus_repacketizer_cat(rp,cp,len);
    if(rc!=OPUS_OK){ int ol=ref_opus_repacketizer_out(rp,grp,sizeof grp); if(ol>0) emit(s,grp,ol); for(int i=0;i<nheld;i++) free(held[i]); nheld=0; ref_opus_repacketizer_init(rp); gtarget=vc_chance(r,1,2)?1:vc_range(r,2,4); rc=ref_opus_repacketizer_cat(rp,cp,len); if(rc!=OPUS_OK){ free(cp); emit(s,buf,len); continue; } }
    held[nheld++]=cp;
    if(nheld>=gtarget||nheld>=8){ int ol=ref_opus_repacketizer_out(rp,grp,sizeof grp); if(ol>0){ if(vc_chance(r,1,4)&&ol<1277*48){ int nl=ol+vc_range(r,1,vc_chance(r,1,3)?600:8); if(ref_opus_packet_pad(grp,ol,nl)==OPUS_OK) ol=nl; } emit(s,grp,ol); } for(int i=0;i<nheld;i++) free(held[i]); nheld=0; ref_opus_repacketizer_init(rp); gtarget=vc_chance(r,1,2)?1:vc_range(r,2,4); } }
  { int ol=nheld?ref_opus_repacketizer_out(rp,grp,sizeof grp):0; if(ol>0) emit(s,grp,ol); for(int i=0;i<nheld;i++) free(held[i]); }
  ref_opus_repacketizer_destroy(rp); ref_opus_encoder_destroy(e); snprintf(desc,dn,"ref encoder Fs=%d ch=%d app=%d bitrate=%d signal=%s mode switches=%d%s",eFs,ch,app,br,vs_names[sig],switches,joint?" joint bandwidth/duration switches":""); }

static void mode_stream(void){
  vc_rng r; vc_case_rng(&r,3); int err; rstream s; char desc[200]; make_ref_stream(&r,&s,vc_range(&r,2200,3200),desc,sizeof desc); if(s.n<10){ rfree(&s); return; }
  long tot48=0; for(int i=0;i<s.n;i++) tot48+=s.dur48[i];
  /* reference decoder at 48 kHz stereo: the RFC procedure's reference signal */
  OpusDecoder *r48=ref_opus_decoder_create(48000,2,&err); float *ref48=(float*)malloc(sizeof(float)*tot48*2); static opus_int16 tmp[5760*2]; long o=0; for(int i=0;i<s.n;i++){ int rc=ref_opus_decode(r48,s.pkt[i],s.len[i],tmp,5760,0); if(rc!=s.dur48[i]){ fprintf(stderr,"reference decoder returned %d for a %d-sample packet\n",rc,s.dur48[i]); exit(3); } for(int k=0;k<rc*2;k++) ref48[o*2+k]=tmp[k]; o+=rc; } ref_opus_decoder_destroy(r48);
  int nconf=(int)vc_argl("configs",3); int used[10]; memset(used,0,sizeof used);
  for(int cfg=0;cfg<nconf;cfg++){ int ci=vc_below(&r,10); if(used[ci]) continue; used[ci]=1; int Fs=vk_rates[ci%5], ch=1+ci/5;
    OpusDecoder *dt=opus_decoder_create(Fs,ch,&err); OpusDecoder *dr=ref_opus_decoder_create(Fs,ch,&err); OpusDecoder *dx=TREE_FIXED?rfx_opus_decoder_create(Fs,ch,&err):NULL; static opus_int16 bx[5760*2]; long n=tot48*Fs/48000; float *yt=(float*)malloc(sizeof(float)*n*ch), *yr=(float*)malloc(sizeof(float)*n*ch); static opus_int16 a[5760*2], b[5760*2]; long pos=0; int ok=1; double maxd=0; long ndiff=0; int prevtoc=-1; long blockbad=0; char blockmsg[200]; blockmsg[0]=0;
    for(int i=0;i<s.n;i++){ int want=(int)((long)s.dur48[i]*Fs/48000); int ra=opus_decode(dt,s.pkt[i],s.len[i],a,want,0), rb=ref_opus_decode(dr,s.pkt[i],s.len[i],b,want,0); if(dx){ int rx=rfx_opus_decode(dx,s.pkt[i],s.len[i],bx,want,0); if(rx==rb) memcpy(b,bx,sizeof(opus_int16)*rx*ch); /* PCM reference for a fixed-point tree = the frozen reference built fixed-point */ } opus_uint32 fa=0,fb=0; opus_decoder_ctl(dt,OPUS_GET_FINAL_RANGE(&fa)); ref_opus_decoder_ctl(dr,OPUS_GET_FINAL_RANGE(&fb)); vc_count("packets_compared",1);
      if(ra!=rb||ra!=want){ vc_viol("count-differs","packet %d (toc %02x, %d bytes): tree decoder returned %d, reference %d, expected %d (decoder %d Hz %d ch; %s)",i,s.pkt[i][0],s.len[i],ra,rb,want,Fs,ch,desc); ok=0; break; }
      if(fa!=fb){ vc_viol("final-range-differs","packet %d (toc %02x, %d bytes, previous toc %02x): tree final range %08x, reference %08x (decoder %d Hz %d ch; %s)",i,s.pkt[i][0],s.len[i],prevtoc&0xff,fa,fb,Fs,ch,desc); ok=0; break; }
      /* segmental view (2.5 ms blocks, per channel): the error of an audible block against the reference decoder on the same packets */
      { int bl=Fs/400; for(int c0=0;c0<ch;c0++) for(int b0=0;b0+bl<=ra;b0+=bl){ double er=0,ee=0; for(int k=b0;k<b0+bl;k++){ double x=b[k*ch+c0], y=a[k*ch+c0]; er+=x*x; ee+=(x-y)*(x-y); } if(er>=bl*200.0*200.0){ double sn=10*log10((er+1e-9)/(ee+1e-9)); vc_min("audible_block_snr_vs_reference_db",sn); vc_count("audible_blocks_compared",1); if(sn<C03_BLOCK_SNR_DB){ blockbad++; if(blockbad==1) snprintf(blockmsg,sizeof blockmsg,"packet %d (toc %02x, previous toc %02x) block at sample %d channel %d: %.1f dB",i,s.pkt[i][0],prevtoc&0xff,b0,c0,sn); } } } }
      { double pm=0; for(int k=0;k<ra*ch;k++){ yt[pos*ch+k]=a[k]; yr[pos*ch+k]=b[k]; double d=fabs((double)a[k]-b[k]); if(d>maxd) maxd=d; if(d>pm) pm=d; if(d>0) ndiff++; } pos+=ra; if(vc_verbose&&pm>50) fprintf(stderr,"  pkt %d toc %02x len %d dur48 %d: max diff %.0f (prev toc %02x)\n",i,s.pkt[i][0],s.len[i],s.dur48[i],pm,prevtoc&0xff); }
      if(prevtoc>=0&&rfc_mode(prevtoc)!=rfc_mode(s.pkt[i][0])) vc_named("transition:%d->%d",rfc_mode(prevtoc),rfc_mode(s.pkt[i][0])); { rfc_pkt m; rfc_parse(s.pkt[i],s.len[i],0,&m); if(m.count>1) vc_named("multiframe-code%d",s.pkt[i][0]&3); if(m.pad>0) vc_named("padded"); }
      vc_sig3((uint64_t)s.pkt[i][0],(uint64_t)(Fs/8000)|((uint64_t)ch<<3),(uint64_t)(prevtoc>=0&&rfc_mode(prevtoc)!=rfc_mode(s.pkt[i][0]))); prevtoc=s.pkt[i][0]; }
    if(ok){ double q1=rfc_compare(ref48,tot48,yt,Fs,ch), q2=rfc_compare_same(yr,yt,n,Fs,ch); vc_min("quality_rfc_procedure_percent",q1); vc_min("quality_same_rate_percent",q2); vc_max("max_abs_sample_difference_vs_reference_same_rate",maxd); vc_count("streams_compared",1); if(ndiff==0) vc_count("streams_bit_identical_to_reference",1);
      /* the RFC procedure against the 48 kHz stereo output is reported only: on arbitrary (low-rate, mode-switching) streams the reference decoder
         itself does not always pass it at other output rates, so it cannot serve as a verdict; the property's clause is the same-rate comparison */
      vc_count(q1>=0?"rfc_procedure_passes":"rfc_procedure_fails_(informational)",1);
      if(blockbad) vc_viol("pcm-block-far-from-reference","%ld audible 2.5 ms block(s) of the tree decoder's output are less than %.0f dB (SNR) from the reference decoder's output for the same packets, first: %s (decoder %d Hz %d ch; %s)",blockbad,(double)C03_BLOCK_SNR_DB,blockmsg,Fs,ch,desc);
      if(q2<0) vc_viol("pcm-fails-rfc-metric:same-rate","tree decoder at %d Hz %d ch fails the RFC metric against the reference decoder at the same rate and channels: quality %.1f %%, max sample difference %.0f (%s)",Fs,ch,q2,maxd,desc); }
    free(yt); free(yr); opus_decoder_destroy(dt); ref_opus_decoder_destroy(dr); if(dx) rfx_opus_decoder_destroy(dx); if(!ok) break; }
  if(vc_want_sample()) vc_sample("{\"mode\":\"stream\",\"stream\":\"%s\",\"packets\":%d,\"seconds\":%.2f}",desc,s.n,tot48/48000.0);
  free(ref48); rfree(&s);
}

/* the port of the metric agrees with the RFC tool (run on files) */
static void wr16(const char *fn,const float *x,long n){ FILE *f=fopen(fn,"wb"); for(long i=0;i<n;i++){ int v=(int)x[i]; unsigned char b[2]={(unsigned char)(v&0xff),(unsigned char)((v>>8)&0xff)}; fwrite(b,1,2,f); } fclose(f); }
static void mode_metric(void){
  vc_rng r; vc_case_rng(&r,4); int err; rstream s; char desc[200]; make_ref_stream(&r,&s,2400,desc,sizeof desc); if(s.n<10){ rfree(&s); return; } long tot48=0; for(int i=0;i<s.n;i++) tot48+=s.dur48[i];
  int Fs=VC_PICK(&r,vk_rates), ch=1+vc_below(&r,2); OpusDecoder *r48=ref_opus_decoder_create(48000,2,&err), *dr=ref_opus_decoder_create(Fs,ch,&err); long n=tot48*Fs/48000; float *ref48=(float*)malloc(sizeof(float)*tot48*2), *y=(float*)malloc(sizeof(float)*n*ch); static opus_int16 t[5760*2]; long o=0,p=0;
  for(int i=0;i<s.n;i++){ int rc=ref_opus_decode(r48,s.pkt[i],s.len[i],t,5760,0); for(int k=0;k<rc*2;k++) ref48[o*2+k]=t[k]; o+=rc; int want=(int)((long)s.dur48[i]*Fs/48000); rc=ref_opus_decode(dr,s.pkt[i],s.len[i],t,want,0); for(int k=0;k<rc*ch;k++) y[p*ch+k]=t[k]; p+=rc; }
  /* degrade the test signal by a random amount so that both passing and failing comparisons are exercised */
  int how=vc_below(&r,4); if(how==1) for(long i=0;i<n*ch;i++) y[i]=(float)(int)(y[i]*0.9f); else if(how==2) for(long i=0;i<n*ch;i++) y[i]=(float)(int)(y[i]+vc_gauss(&r)*(5+vc_below(&r,400))); else if(how==3) for(long i=0;i<n*ch;i++) y[i]=(float)(int)(y[i]*(0.3+0.5*vc_unit(&r)));
  for(long i=0;i<n*ch;i++){ if(y[i]>32767) y[i]=32767; if(y[i]<-32768) y[i]=-32768; }
  double q=rfc_compare(ref48,tot48,y,Fs,ch); char f1[64],f2[64],lg[64]; snprintf(f1,sizeof f1,"c03_ref_%ld.sw",vc_case); snprintf(f2,sizeof f2,"c03_test_%ld.sw",vc_case); snprintf(lg,sizeof lg,"c03_cmp_%ld.log",vc_case); wr16(f1,ref48,tot48*2); wr16(f2,y,n*ch);
  char rate[16]; snprintf(rate,sizeof rate,"%d",Fs); const char *av[8]; int ac=0; av[ac++]="opus_compare"; if(ch==2) av[ac++]="-s"; av[ac++]="-r"; av[ac++]=rate; av[ac++]=f1; av[ac++]=f2;
  fflush(stderr); int saved=dup(2); int lf=open(lg,O_CREAT|O_TRUNC|O_WRONLY,0644); dup2(lf,2); int rc=ref_opus_compare_main(ac,av); fflush(stderr); dup2(saved,2); close(saved); close(lf);
  double qt=-1; { FILE *f=fopen(lg,"r"); char line[300]; while(f&&fgets(line,sizeof line,f)){ char *q2=strstr(line,"quality metric: "); if(q2) qt=atof(q2+16); } if(f) fclose(f); }
  unlink(f1); unlink(f2); unlink(lg); vc_count("metric_crosschecks",1); if(rc==0) vc_count("metric_tool_pass",1); else vc_count("metric_tool_fail",1);
  if((rc==0)!=(q>=0)) vc_viol("metric-port-disagrees","the RFC tool %s but the port computes Q=%.2f (Fs %d ch %d, degradation %d)",rc==0?"passes":"fails",q,Fs,ch,how); else if(rc==0&&fabs(qt-q)>0.06) vc_viol("metric-port-disagrees","the RFC tool reports %.1f %%, the port %.2f %%",qt,q);
  vc_sig3(Fs,ch,(uint64_t)how|((uint64_t)(rc==0)<<4)); free(ref48); free(y); ref_opus_decoder_destroy(r48); ref_opus_decoder_destroy(dr); rfree(&s);
}

int main(int argc,char **argv){
  static const vc_mode_t modes[]={{"stream",mode_stream},{"metric",mode_metric},{0,0}};
  return vc_main(argc,argv,"C03",modes);
}
