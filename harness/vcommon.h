/* vcommon.h -- shared conventions of all verification harnesses (DESIGN.md 2.3).
 *
 * CLI of every harness:   h <mode> <seed> <start> <step> <count> [args...]
 *   runs case indices start, start+step, ... < count.  A case is a pure function of
 *   (mode, seed, index): the same triple replays the same case in any process.
 *
 * stdout protocol (consumed by verif.py):
 *   V <key> <caseid> <text>     violation of the property (key = specific failing predicate)
 *   N <int>                     number of evaluations (cases) run by this shard
 *   C <name> <int>              counter (summed over shards)
 *   M/m <name> <float>          maximum / minimum metric
 *   S <hex> ...                 distinct non-trivial coverage signatures (set union over shards)
 *   D <name> <int>              named observation with count (e.g. a mode transition that was driven)
 *   E <json>                    a sample case written out
 * exit status: 0 normal (even with V lines), 3 = harness/usage error; anything else = crash of the code under test.
 */
#ifndef VCOMMON_H
#define VCOMMON_H
#include <stdio.h>
#include <stdlib.h>
#include <string.h>
#include <stdint.h>
#include <stdarg.h>
#include <math.h>
#include <unistd.h>
#include <fcntl.h>
#include <sys/stat.h>

/* ---------------------------------------------------------------- PRNG */
typedef struct { uint64_t s[4]; int fz; } vc_rng;
#ifdef VERIF_FUZZ
/* coverage-guided tier: the per-case generator is driven by the bytes libFuzzer proposes (the same structure-aware
 * generators and the same oracles run, libFuzzer's coverage feedback chooses the decisions); when the input is
 * used up the generator continues as a PRNG seeded from the input, so a case is a pure function of its bytes */
static const unsigned char *vc_fz_data; static size_t vc_fz_len, vc_fz_pos;
#endif
static inline uint64_t vc_splitmix(uint64_t *x){ uint64_t z=(*x+=0x9E3779B97F4A7C15ULL); z=(z^(z>>30))*0xBF58476D1CE4E5B9ULL; z=(z^(z>>27))*0x94D049BB133111EBULL; return z^(z>>31); }
static inline void vc_rng_seed(vc_rng *r, uint64_t seed){ uint64_t x=seed; for(int i=0;i<4;i++) r->s[i]=vc_splitmix(&x); r->fz=0; }
static inline uint64_t vc_rotl(uint64_t x,int k){ return (x<<k)|(x>>(64-k)); }
static inline uint64_t vc_next(vc_rng *r){
#ifdef VERIF_FUZZ
  if(r->fz&&vc_fz_pos+8<=vc_fz_len){ uint64_t v; memcpy(&v,vc_fz_data+vc_fz_pos,8); vc_fz_pos+=8; return v; }
#endif
  uint64_t *s=r->s; uint64_t res=vc_rotl(s[1]*5,7)*9, t=s[1]<<17; s[2]^=s[0]; s[3]^=s[1]; s[1]^=s[2]; s[0]^=s[3]; s[2]^=t; s[3]=vc_rotl(s[3],45); return res; }
static inline uint32_t vc_u32(vc_rng *r){
#ifdef VERIF_FUZZ
  if(r->fz&&vc_fz_pos+4<=vc_fz_len){ uint32_t v; memcpy(&v,vc_fz_data+vc_fz_pos,4); vc_fz_pos+=4; return v; }
#endif
  return (uint32_t)(vc_next(r)>>32); }
/* uniform in [0,n) ; n>=1 */
static inline uint32_t vc_below(vc_rng *r, uint32_t n){ return (uint32_t)(((uint64_t)vc_u32(r)*n)>>32); }
static inline int vc_range(vc_rng *r, int lo, int hi){ return lo+(int)vc_below(r,(uint32_t)(hi-lo+1)); }
static inline int vc_chance(vc_rng *r, int num, int den){ return (int)vc_below(r,den)<num; }
static inline double vc_unit(vc_rng *r){ return (vc_next(r)>>11)*(1.0/9007199254740992.0); }
static inline float vc_gauss(vc_rng *r){ double u=vc_unit(r)+1e-12, v=vc_unit(r); return (float)(sqrt(-2*log(u))*cos(6.283185307179586*v)); }
#define VC_PICK(r,arr) ((arr)[vc_below((r),sizeof(arr)/sizeof((arr)[0]))])

static inline uint64_t vc_hash64(uint64_t h, uint64_t v){ h^=v+0x9E3779B97F4A7C15ULL+(h<<6)+(h>>2); h*=0xff51afd7ed558ccdULL; h^=h>>33; return h; }
static inline uint64_t vc_hash_bytes(const void *p, size_t n){ const unsigned char *b=(const unsigned char*)p; uint64_t h=1469598103934665603ULL; for(size_t i=0;i<n;i++){ h^=b[i]; h*=1099511628211ULL; } return h; }

/* ---------------------------------------------------------------- run state */
static const char *vc_mode="";
static uint64_t vc_seed=1;
static long vc_case=-1;
static int vc_verbose=0;
static int vc_progress_fd=-1;
static const char *vc_prop="";
static long vc_nviol=0;
static int vc_argc; static char **vc_argv;

static inline const char *vc_arg(const char *name, const char *def){ size_t l=strlen(name); for(int i=0;i<vc_argc;i++) if(!strncmp(vc_argv[i],name,l)&&vc_argv[i][l]=='=') return vc_argv[i]+l+1; return def; }
static inline long vc_argl(const char *name, long def){ const char *s=vc_arg(name,NULL); return s?atol(s):def; }

#ifdef VERIF_FUZZ
static inline void vc_case_rng(vc_rng *r, uint64_t salt){ uint64_t h=vc_hash64(vc_hash64(0x5eed,vc_hash_bytes(vc_fz_data,vc_fz_len)),salt); h=vc_hash64(h,vc_hash_bytes(vc_mode,strlen(vc_mode))); vc_rng_seed(r,h); r->fz=1; }
#else
static inline void vc_case_rng(vc_rng *r, uint64_t salt){ uint64_t h=vc_hash64(vc_hash64(vc_hash64(0x5eed,vc_seed),(uint64_t)vc_case),salt); h=vc_hash64(h,vc_hash_bytes(vc_mode,strlen(vc_mode))); vc_rng_seed(r,h); }
#endif

static void vc_viol(const char *key, const char *fmt, ...){
  va_list ap; char buf[1500]; va_start(ap,fmt); vsnprintf(buf,sizeof buf,fmt,ap); va_end(ap);
  for(char *p=buf;*p;p++) if(*p=='\n') *p=' ';
  vc_nviol++;
#ifdef VERIF_FUZZ
  if(vc_nviol<=40) { printf("V %s %s:%llu:%ld:",key,vc_mode,(unsigned long long)vc_seed,vc_case); for(size_t i=0;i<vc_fz_len&&i<8192;i++) printf("%02x",vc_fz_data[i]); if(!vc_fz_len) printf("-"); printf(" %s\n",buf); fflush(stdout); }
#else
  if(vc_nviol<=40) { printf("V %s %s:%llu:%ld %s\n",key,vc_mode,(unsigned long long)vc_seed,vc_case,buf); fflush(stdout); }
#endif
}

/* counters / named observations: tiny open hash table keyed by string */
#define VC_NT 512
static struct { char name[72]; long cnt; double mx, mn; int kind; } vc_tab[VC_NT];
static int vc_tab_find(const char *name,int kind){ uint64_t h=vc_hash_bytes(name,strlen(name))+kind; for(int i=0;i<VC_NT;i++){ int j=(int)((h+i)%VC_NT); if(!vc_tab[j].name[0]){ snprintf(vc_tab[j].name,sizeof vc_tab[j].name,"%s",name); vc_tab[j].kind=kind; vc_tab[j].mx=-1e300; vc_tab[j].mn=1e300; return j;} if(vc_tab[j].kind==kind&&!strncmp(vc_tab[j].name,name,sizeof(vc_tab[j].name)-1)) return j; } return 0; }
static inline void vc_count(const char *name,long n){ vc_tab[vc_tab_find(name,'C')].cnt+=n; }
static inline void vc_named(const char *fmt,...){ va_list ap; char b[72]; va_start(ap,fmt); vsnprintf(b,sizeof b,fmt,ap); va_end(ap); for(char*p=b;*p;p++) if(*p==' ')*p='_'; vc_tab[vc_tab_find(b,'D')].cnt++; }
static inline void vc_max(const char *name,double v){ int j=vc_tab_find(name,'M'); if(v>vc_tab[j].mx) vc_tab[j].mx=v; }
static inline void vc_min(const char *name,double v){ int j=vc_tab_find(name,'m'); if(v<vc_tab[j].mn) vc_tab[j].mn=v; }

/* distinct-signature set */
static uint64_t *vc_sigs; static size_t vc_sig_cap, vc_sig_n;
static void vc_sig(uint64_t s){ if(!s) s=1; if(vc_sig_n*2>=vc_sig_cap){ size_t nc=vc_sig_cap?vc_sig_cap*2:4096; uint64_t *n=(uint64_t*)calloc(nc,8); for(size_t i=0;i<vc_sig_cap;i++) if(vc_sigs[i]){ size_t j=vc_sigs[i]%nc; while(n[j]) j=(j+1)%nc; n[j]=vc_sigs[i]; } free(vc_sigs); vc_sigs=n; vc_sig_cap=nc; }
  if(vc_sig_n>=200000) return; size_t j=s%vc_sig_cap; while(vc_sigs[j]){ if(vc_sigs[j]==s) return; j=(j+1)%vc_sig_cap; } vc_sigs[j]=s; vc_sig_n++; }
static inline void vc_sig3(uint64_t a,uint64_t b,uint64_t c){ vc_sig(vc_hash64(vc_hash64(vc_hash64(7,a),b),c)); }

static int vc_nsamples=0;
static void vc_sample(const char *fmt,...){ if(vc_nsamples>=2 && !vc_verbose) return; vc_nsamples++; va_list ap; char buf[1800]; va_start(ap,fmt); vsnprintf(buf,sizeof buf,fmt,ap); va_end(ap); for(char *p=buf;*p;p++) if(*p=='\n') *p=' '; printf("E %s\n",buf); }
static inline int vc_want_sample(void){ return vc_nsamples<2 || vc_verbose; }

static void vc_hex(char *dst, size_t dstsz, const unsigned char *p, int n){ size_t o=0; for(int i=0;i<n&&o+3<dstsz;i++) o+=snprintf(dst+o,dstsz-o,"%02x",p[i]); if(dstsz) dst[o<dstsz?o:dstsz-1]=0; }

static void vc_begin_case(long idx){ vc_case=idx; if(vc_progress_fd>=0){ char b[96]; int n=snprintf(b,sizeof b,"%s:%llu:%ld\n                ",vc_mode,(unsigned long long)vc_seed,idx); if(pwrite(vc_progress_fd,b,n,0)<0){} } }

typedef struct { const char *name; void (*fn)(void); } vc_mode_t;
/* hook H1: `cap=N` on the command line caps the RTCD feature level of every codec object created afterwards */
extern int opus_verif_arch_cap __attribute__((weak));
static void vc_apply_arch_cap(void){ const char *c=vc_arg("cap",NULL); if(!c) return; if(&opus_verif_arch_cap) opus_verif_arch_cap=atoi(c); else { fprintf(stderr,"hook H1 (opus_verif_arch_cap) is missing from this tree\n"); exit(3); } }

static void vc_dump_results(long n){
  printf("N %ld\n",n);
  for(int i=0;i<VC_NT;i++) if(vc_tab[i].name[0]){ if(vc_tab[i].kind=='C') printf("C %s %ld\n",vc_tab[i].name,vc_tab[i].cnt); else if(vc_tab[i].kind=='D') printf("D %s %ld\n",vc_tab[i].name,vc_tab[i].cnt); else if(vc_tab[i].kind=='M') printf("M %s %.9g\n",vc_tab[i].name,vc_tab[i].mx); else printf("m %s %.9g\n",vc_tab[i].name,vc_tab[i].mn); }
  int k=0; for(size_t i=0;i<vc_sig_cap;i++) if(vc_sigs[i]){ if(k%16==0) printf("%sS",k?"\n":""); printf(" %llx",(unsigned long long)vc_sigs[i]); k++; } if(k) printf("\n");
  fflush(stdout);
}
#ifdef VERIF_FUZZ
/* libFuzzer drives the mode function: `h <mode> <seed> <shard> <nshards> <total-runs> [k=v...]` runs total/nshards
 * executions with libFuzzer seed derived from (seed, shard); `input=<hex>` replays one input.  The progress file
 * holds the input being executed (hex), so a crash is replayable from the replay file alone. */
extern int LLVMFuzzerRunDriver(int *argc,char ***argv,int (*cb)(const uint8_t *,size_t));
static const vc_mode_t *vc_fz_mode; static long vc_fz_execs; static long vc_fz_base;
static void vc_fz_progress(const uint8_t *d,size_t n){ if(vc_progress_fd<0) return; static char b[2*8192+200]; int o=snprintf(b,200,"%s:%llu:%ld:",vc_mode,(unsigned long long)vc_seed,vc_case); if(n>8192) n=8192; static const char hx[]="0123456789abcdef"; for(size_t i=0;i<n;i++){ b[o++]=hx[d[i]>>4]; b[o++]=hx[d[i]&15]; } if(n==0) b[o++]='-'; b[o++]='\n'; if(ftruncate(vc_progress_fd,0)<0){} if(pwrite(vc_progress_fd,b,o,0)<0){} }
static int vc_fz_cb(const uint8_t *d,size_t n){ vc_fz_data=d; vc_fz_len=n; vc_fz_pos=0; vc_case=vc_fz_base+vc_fz_execs; vc_fz_execs++; vc_fz_progress(d,n); vc_fz_mode->fn(); vc_count("fuzz_executions",1); vc_count("fuzz_input_bytes_consumed",(long)(vc_fz_pos<n?vc_fz_pos:n)); return 0; }
static void vc_fz_atexit(void){ vc_dump_results(vc_fz_execs); }
static int vc_main(int argc,char **argv,const char *prop,const vc_mode_t *modes){
  if(argc<6){ fprintf(stderr,"usage: %s <mode> <seed> <shard> <nshards> <total-runs> [k=v...]\n",argv[0]); return 3; }
  vc_prop=prop; vc_mode=argv[1]; vc_seed=strtoull(argv[2],0,10); long shard=atol(argv[3]), nsh=atol(argv[4]), total=atol(argv[5]);
  vc_argc=argc-6; vc_argv=argv+6; vc_verbose=getenv("VERIF_VERBOSE")?atoi(getenv("VERIF_VERBOSE"))+(atoi(getenv("VERIF_VERBOSE"))==0):0;
  const char *pf=getenv("VERIF_PROGRESS"); if(pf) vc_progress_fd=open(pf,O_CREAT|O_WRONLY|O_TRUNC,0644);
  const vc_mode_t *m=modes; while(m->name&&strcmp(m->name,vc_mode)) m++;
  if(!m->name){ fprintf(stderr,"unknown mode %s\n",vc_mode); return 3; }
  vc_apply_arch_cap(); vc_fz_mode=m; if(nsh<1) nsh=1;
  const char *hexin=vc_arg("input",NULL);
  if(hexin){ static uint8_t buf[8192]; size_t n=0; if(hexin[0]!='-') for(;hexin[2*n]&&hexin[2*n+1]&&n<sizeof buf;n++){ unsigned v; sscanf(hexin+2*n,"%2x",&v); buf[n]=(uint8_t)v; } uint8_t *ex=(uint8_t*)malloc(n?n:1); memcpy(ex,buf,n); vc_fz_cb(ex,n); free(ex); vc_dump_results(1); return (vc_verbose&&vc_nviol)?1:0; }
  /* `shard` doubles as the restart offset verif.py passes after a crash (start index of the resumed shard): any value
     gives a distinct libFuzzer seed */
  long runs=total/nsh; if(runs<1) runs=1; vc_fz_base=shard*1000000000L;
  /* seed corpus: a few byte strings of different lengths from the (seed, shard) PRNG */
  char dir[64]; snprintf(dir,sizeof dir,"corpus.%ld",shard); mkdir(dir,0755); { vc_rng r; vc_rng_seed(&r,vc_hash64(vc_hash64(0xF022,vc_seed),(uint64_t)shard)); for(int i=0;i<24;i++){ char fn[96]; snprintf(fn,sizeof fn,"%s/seed%02d",dir,i); FILE *f=fopen(fn,"wb"); if(!f) continue; int len=i<4?i*8:(int)vc_below(&r,i<16?400:3000); for(int k=0;k<len;k++) fputc((int)(vc_next(&r)>>56),f); fclose(f); } }
  char a_runs[40],a_seed[40],a_maxlen[40],a_art[80]; snprintf(a_runs,sizeof a_runs,"-runs=%ld",runs); snprintf(a_seed,sizeof a_seed,"-seed=%u",(unsigned)(vc_hash64(vc_hash64(0x11BF,vc_seed),(uint64_t)shard)%2147483647u)+1); snprintf(a_maxlen,sizeof a_maxlen,"-max_len=%ld",vc_argl("maxlen",4096)); snprintf(a_art,sizeof a_art,"-artifact_prefix=./artifact.%ld.",shard);
  char *fargv[]={argv[0],a_runs,a_seed,a_maxlen,a_art,"-detect_leaks=0","-timeout=600","-rss_limit_mb=6000","-use_value_profile=1","-print_final_stats=1","-verbosity=1","-reduce_inputs=1",dir,NULL}; int fargc=13; char **fa=fargv;
  atexit(vc_fz_atexit);
  return LLVMFuzzerRunDriver(&fargc,&fa,vc_fz_cb);
}
#else
static int vc_main(int argc,char **argv,const char *prop,const vc_mode_t *modes){
  if(argc<6){ fprintf(stderr,"usage: %s <mode> <seed> <start> <step> <count> [k=v...]\n",argv[0]); return 3; }
  vc_prop=prop; vc_mode=argv[1]; vc_seed=strtoull(argv[2],0,10); long start=atol(argv[3]), step=atol(argv[4]), count=atol(argv[5]);
  vc_argc=argc-6; vc_argv=argv+6; vc_verbose=getenv("VERIF_VERBOSE")?atoi(getenv("VERIF_VERBOSE"))+(atoi(getenv("VERIF_VERBOSE"))==0):0;
  const char *pf=getenv("VERIF_PROGRESS"); if(pf) vc_progress_fd=open(pf,O_CREAT|O_WRONLY|O_TRUNC,0644);
  const vc_mode_t *m=modes; while(m->name&&strcmp(m->name,vc_mode)) m++;
  if(!m->name){ fprintf(stderr,"unknown mode %s\n",vc_mode); return 3; }
  vc_apply_arch_cap(); if(step<1) step=1; long n=0;
  for(long i=start;i<count;i+=step){ vc_begin_case(i); m->fn(); n++; }
  vc_dump_results(n);
  if(vc_verbose && vc_nviol) return 1;
  return 0;
}
#endif

/* ---------------------------------------------------------------- guarded buffers
 * Layout: [64-byte canary][payload of exactly n bytes][64-byte canary]; the block is malloc'ed with the
 * exact total so ASan's red zones sit right behind the trailing canary.  For read-only inputs use
 * vc_exact_copy(): the block ends on the last byte, so any over-read is a red-zone hit. */
#define VC_CAN 64
typedef struct { unsigned char *base; unsigned char *p; size_t n; } vc_gbuf;
static vc_gbuf vc_galloc(size_t n){ vc_gbuf g; g.base=(unsigned char*)malloc(n+2*VC_CAN); if(!g.base){ fprintf(stderr,"oom\n"); exit(3);} g.p=g.base+VC_CAN; g.n=n; for(int i=0;i<VC_CAN;i++){ g.base[i]=(unsigned char)(0xC5^i); g.p[n+i]=(unsigned char)(0x5C^i); } return g; }
static int vc_gcheck(const vc_gbuf *g){ for(int i=0;i<VC_CAN;i++){ if(g->base[i]!=(unsigned char)(0xC5^i)) return -1-i; if(g->p[g->n+i]!=(unsigned char)(0x5C^i)) return 1+i; } return 0; }
static void vc_gfree(vc_gbuf *g){ free(g->base); g->base=g->p=NULL; }
static unsigned char *vc_exact_copy(const unsigned char *src,size_t n){ unsigned char *p=(unsigned char*)malloc(n?n:1); if(n) memcpy(p,src,n); return p; }

/* ---------------------------------------------------------------- signal families
 * A generator with persistent phase so consecutive frames form one continuous signal. */
enum { VS_SILENCE, VS_SQUARE, VS_WHITE, VS_BANDNOISE, VS_MULTITONE, VS_SWEEP, VS_VOICED, VS_CLICKS, VS_LEVELDIFF,
       VS_MONO_IN_STEREO, VS_ANTIPHASE, VS_DC, VS_DITHER, VS_SPEECHLIKE, VS_HFTONE, VS_NFINITE /* count of finite families */,
       VS_DENORMAL=VS_NFINITE, VS_NAN, VS_INF, VS_HUGE, VS_NALL };
static const char *vs_names[]={"silence","square","white","bandnoise","multitone","sweep","voiced","clicks","leveldiff","monoinstereo","antiphase","dc","dither","speechlike","hftone","denormal","nan","inf","huge"};
typedef struct { int kind, Fs, ch; double t; double ph[8]; double f[8]; float lp[2]; float amp; vc_rng r; double f0; double env; long nsamp; } vc_siggen;
static void vs_init(vc_siggen *g,int kind,int Fs,int ch,float amp,uint64_t seed){ memset(g,0,sizeof *g); g->kind=kind; g->Fs=Fs; g->ch=ch; g->amp=amp; vc_rng_seed(&g->r,seed); for(int i=0;i<8;i++){ g->f[i]=60.0*pow(1.9,i)*(0.8+0.4*vc_unit(&g->r)); if(g->f[i]>0.45*Fs) g->f[i]=0.45*Fs*vc_unit(&g->r); } g->f0=90+vc_unit(&g->r)*200; if(kind==VS_HFTONE) g->f[7]=(0.27+0.19*vc_unit(&g->r))*Fs; }
/* fills n frames (interleaved ch) of float in nominal [-1,1]*amp */
static void vs_fill(vc_siggen *g,float *out,int n){ int ch=g->ch; double Fs=g->Fs; const double TP=6.283185307179586;
  for(int i=0;i<n;i++){ double t=g->t; float v=0, v2=0; int k=g->kind;
    switch(k){
    case VS_SILENCE: v=v2=0; break;
    case VS_SQUARE: v=(fmod(t*g->f[2],1.0)<0.5)?1.f:-1.f; v2=-v; break;
    case VS_WHITE: v=(float)(2*vc_unit(&g->r)-1); v2=(float)(2*vc_unit(&g->r)-1); break;
    case VS_BANDNOISE: { float w=(float)(2*vc_unit(&g->r)-1); g->lp[0]+=0.15f*(w-g->lp[0]); v=3*g->lp[0]; w=(float)(2*vc_unit(&g->r)-1); g->lp[1]+=0.15f*(w-g->lp[1]); v2=3*g->lp[1]; } break;
    case VS_MULTITONE: for(int j=0;j<6;j++){ v+=(float)(0.16*sin(TP*g->f[j]*t)); v2+=(float)(0.16*sin(TP*g->f[j]*t+0.7*j)); } break;
    case VS_SWEEP: { double T=3.0, f1=50, f2=0.45*Fs; double tt=fmod(t,T); double phs=TP*f1*T/log(f2/f1)*(pow(f2/f1,tt/T)-1); v=(float)(0.7*sin(phs)); v2=(float)(0.7*sin(phs+1.0)); } break;
    case VS_VOICED: case VS_SPEECHLIKE: { double f0=g->f0*(1+0.15*sin(TP*0.7*t)); g->ph[0]+=f0/Fs; if(g->ph[0]>=1) g->ph[0]-=1; double s=0; for(int h=1;h<=12;h++){ double fh=h*f0; if(fh>0.45*Fs) break; double a=1.0/(1+pow((fh-600)/500,2))+0.5/(1+pow((fh-1800)/700,2)); s+=a*sin(TP*h*g->ph[0]); }
        double env=1; if(k==VS_SPEECHLIKE){ double sy=fmod(t*4.0,1.0); env=0.15+0.85*pow(sin(3.14159265*sy),2); } v=(float)(0.3*s*env)+(float)(0.001*(2*vc_unit(&g->r)-1)); v2=0.8f*v+(float)(0.001*(2*vc_unit(&g->r)-1)); } break;
    case VS_HFTONE: /* one loud isolated tone near the top of the band over a very quiet floor */ v=(float)sin(TP*g->f[7]*t)+0.0005f*(float)(2*vc_unit(&g->r)-1); v2=(float)sin(TP*g->f[7]*t+0.3)+0.0005f*(float)(2*vc_unit(&g->r)-1); break;
    case VS_CLICKS: v=(vc_below(&g->r,(uint32_t)(Fs/7))==0)?((vc_u32(&g->r)&1)?1.f:-1.f):0.002f*(float)(2*vc_unit(&g->r)-1); v2=v; break;
    case VS_LEVELDIFF: v=(float)(0.8*sin(TP*g->f[3]*t)); v2=0.1f*v; break;
    case VS_MONO_IN_STEREO: for(int j=0;j<4;j++) v+=(float)(0.2*sin(TP*g->f[j+1]*t)); v2=v; break;
    case VS_ANTIPHASE: for(int j=0;j<4;j++) v+=(float)(0.2*sin(TP*g->f[j+1]*t)); v2=-v; break;
    case VS_DC: v=0.5f; v2=-0.25f; break;
    case VS_DITHER: v=((int)vc_below(&g->r,3)-1)/32768.f; v2=((int)vc_below(&g->r,3)-1)/32768.f; break;
    case VS_DENORMAL: v=1e-40f*(float)(2*vc_unit(&g->r)-1); v2=-v; break;
    case VS_NAN: v=(vc_below(&g->r,50)==0)?NAN:(float)(0.3*sin(TP*440*t)); v2=v; break;
    case VS_INF: v=(vc_below(&g->r,50)==0)?((vc_u32(&g->r)&1)?INFINITY:-INFINITY):0.1f; v2=v; break;
    case VS_HUGE: v=1e30f*((vc_u32(&g->r)&1)?1.f:-1.f); v2=-v; break;
    }
    float a=g->amp; if(k>=VS_DENORMAL||k==VS_DITHER) a=1.f;
    for(int c=0;c<ch;c++) out[i*ch+c]=a*((c&1)?v2:v)*((c>=2)?(1.f/(1+c/2)):1.f);
    g->t+=1.0/Fs; g->nsamp++; }
}
static inline short vc_f2s(float x){ if(!(x==x)) return 0; x*=32768.f; if(x>32767.f) x=32767.f; if(x<-32768.f) x=-32768.f; return (short)lrintf(x); }

#endif
