/* C08 -- range coder: the decoder inverts the encoder symbol for symbol, within budget.
 * Shadow log of a generated operation sequence; mirrored decoder; per-operation tell / tell_frac / rng
 * equality; budget and canary checks.   Modes:
 *   seq        random operation sequences (one case = 8 sequences)
 *   tellfrac   exhaustive: fast ec_tell_frac == iterative reference for every rng class   [9 cases = ilog 24..32]
 */
#include "entenc.h"
#include "entdec.h"
#include "vcommon.h"

typedef struct { int kind; unsigned a,b,c; int tab; } Op;
enum { K_ENCODE, K_BIN, K_LOGP, K_ICDF, K_ICDF16, K_UINT, K_BITS, K_SHRINK, K_PATCH, K_NK };
static const char *knames[]={"encode","encode_bin","bit_logp","icdf","icdf16","uint","bits","shrink","patch"};
#define MAXOPS 4100
static Op ops[MAXOPS];
static unsigned tf[MAXOPS+1], rg[MAXOPS+1]; static int tl[MAXOPS+1];
static unsigned char tabs8[MAXOPS][20]; static opus_uint16 tabs16[MAXOPS][20];

static opus_uint32 ref_tell_frac(opus_uint32 nbits_total, opus_uint32 rng){
  opus_uint32 nbits=nbits_total<<3; int l=EC_ILOG(rng); opus_uint32 r=rng>>(l-16);
  for(int i=3;i-->0;){ int b; r=r*r>>15; b=(int)(r>>16); l=l<<1|b; r>>=b; }
  return nbits-l;
}

static int gen_table8(vc_rng *r,unsigned char *t,unsigned ftb){ int top=1<<ftb; int maxlen=top<16?top:16; int len=vc_range(r,2,maxlen<2?2:maxlen); if(len>top) len=top; if(len<1) len=1;
  /* strictly decreasing, t[len-1]==0, t[0]<=top-1 ... (icdf[s-1] for s=0 is implicit 2^ftb) */
  int cur=top; for(int q=0;q<len-1;q++){ int rem=len-1-q; int room=cur-rem; int step=1+(room>1?(int)vc_below(r,vc_chance(r,1,3)?room:(room/rem+1)):0); if(step>room) step=room; if(step<1) step=1; cur-=step; t[q]=(unsigned char)cur; } t[len-1]=0; return len; }
static int gen_table16(vc_rng *r,opus_uint16 *t,unsigned ftb){ int top=1<<ftb; int maxlen=top<16?top:16; int len=vc_range(r,2,maxlen<2?2:maxlen); if(len>top) len=top;
  int cur=top; for(int q=0;q<len-1;q++){ int rem=len-1-q; int room=cur-rem; int step=1+(room>1?(int)vc_below(r,vc_chance(r,1,3)?room:(room/rem+1)):0); if(step>room) step=room; if(step<1) step=1; cur-=step; t[q]=(opus_uint16)cur; } t[len-1]=0; return len; }

static void one_sequence(vc_rng *r,int sub){
  int size=vc_chance(r,1,4)?vc_range(r,1,1275):vc_range(r,1,48);
  int maxops=vc_chance(r,1,6)?4000:(vc_chance(r,1,2)?300:40);
  int nops=vc_range(r,1,maxops);
  /* bias towards nearly-full buffers: expected bits/op ~ 8 -> choose nops around size */
  if(vc_chance(r,1,2)){ nops=size+vc_range(r,-4,12); if(nops<1) nops=1; if(nops>4000) nops=4000; }
  int skew=vc_below(r,4); /* 0 uniform, 1 high symbols (long carry chains), 2 low-probability symbols, 3 raw heavy */
  vc_gbuf g=vc_galloc(size); memset(g.p,0xCD,size);
  ec_enc enc; ec_enc_init(&enc,g.p,size);
  int n=0; tf[0]=ec_tell_frac(&enc); tl[0]=ec_tell(&enc); rg[0]=enc.rng;
  int npatch=0; int cursize=size; int prefix_bits=0; unsigned kinds_seen=0;
  if(vc_chance(r,1,5)){ prefix_bits=vc_range(r,1,8); for(int i=0;i<prefix_bits;i++){ Op o; o.kind=K_LOGP; o.a=vc_u32(r)&1; o.b=1; ec_enc_bit_logp(&enc,o.a,1); ops[n++]=o; tf[n]=ec_tell_frac(&enc); tl[n]=ec_tell(&enc); rg[n]=enc.rng; } }
  for(int j=0;j<nops && n<MAXOPS-2 && !enc.error;j++){
    Op o; memset(&o,0,sizeof o); int kk=vc_below(r,skew==3?10:8); o.kind= kk==0?K_ENCODE: kk==1?K_BIN: kk==2?K_LOGP: kk==3?K_ICDF: kk==4?K_ICDF16: kk==5?K_UINT: K_BITS;
    if(vc_chance(r,1,200)) o.kind=K_SHRINK; if(prefix_bits && vc_chance(r,1,40)) o.kind=K_PATCH;
    switch(o.kind){
    case K_ENCODE:{ unsigned ft=vc_chance(r,1,2)?vc_range(r,1,65536):vc_range(r,1,300); unsigned fl,fh; if(skew==1){ fl=ft-1; fh=ft; } else if(skew==2&&ft>2){ fl=vc_below(r,ft); fh=fl+1; } else { fl=vc_below(r,ft); fh=fl+1+vc_below(r,ft-fl); } o.a=fl;o.b=fh;o.c=ft; ec_encode(&enc,fl,fh,ft);}break;
    case K_BIN:{ unsigned bits=vc_range(r,1,16); unsigned ft=1u<<bits; unsigned fl,fh; if(skew==1){ fl=ft-1; fh=ft; } else { fl=vc_below(r,ft); fh=fl+1+vc_below(r,ft-fl); } o.a=fl;o.b=fh;o.c=bits; ec_encode_bin(&enc,fl,fh,bits);}break;
    case K_LOGP:{ unsigned logp=vc_range(r,1,15); unsigned v= skew==2?1:(vc_below(r,1u<<vc_range(r,0,logp))==0); o.a=v;o.b=logp; ec_enc_bit_logp(&enc,v,logp);}break;
    case K_ICDF:{ unsigned ftb=vc_range(r,1,8); int len=gen_table8(r,tabs8[n],ftb); int s=skew==1?len-1:vc_below(r,len); o.a=s;o.b=ftb;o.c=len; ec_enc_icdf(&enc,s,tabs8[n],ftb);}break;
    case K_ICDF16:{ unsigned ftb=vc_range(r,1,15); int len=gen_table16(r,tabs16[n],ftb); int s=skew==1?len-1:vc_below(r,len); o.a=s;o.b=ftb;o.c=len; ec_enc_icdf16(&enc,s,tabs16[n],ftb);}break;
    case K_UINT:{ unsigned ft; int c=vc_below(r,6); ft= c==0?0xFFFFFFFFu: c==1?(2u+vc_u32(r)%0xFFFFFFFEu): c==2?(1u<<vc_range(r,1,31))+vc_range(r,-1,1): c==3?vc_range(r,2,256)+(vc_chance(r,1,2)?0:255): 2+vc_below(r,100000); if(ft<2) ft=2; unsigned v= skew==1?ft-1:(unsigned)(((uint64_t)vc_u32(r)*ft)>>32); o.a=v;o.b=ft; ec_enc_uint(&enc,v,ft);}break;
    case K_BITS:{ unsigned bits=vc_range(r,1,25); unsigned v=vc_u32(r)&((1u<<bits)-1); if(skew==1) v=(1u<<bits)-1; o.a=v;o.b=bits; ec_enc_bits(&enc,v,bits);}break;
    case K_SHRINK:{ unsigned need=enc.offs+enc.end_offs; /* precondition of ec_enc_shrink */ if(need>(unsigned)cursize) break; unsigned ns=need+vc_below(r,(unsigned)(cursize-need)+1); if(vc_chance(r,1,2)&&ns+8<(unsigned)cursize) ns=cursize-vc_below(r,8); if(ns<1) ns=1; if(ns<need) ns=need; o.a=ns; ec_enc_shrink(&enc,ns); cursize=ns; }break;
    case K_PATCH:{ unsigned nb=vc_range(r,1,prefix_bits); unsigned v=vc_u32(r)&((1u<<nb)-1); o.a=v;o.b=nb; if(enc.offs==0&&enc.rem<0&&enc.ext>0) vc_count("patch_first_byte_ff_pending",1); ec_enc_patch_initial_bits(&enc,v,nb); if(!enc.error){ for(unsigned i=0;i<nb;i++) ops[i].a=(v>>(nb-1-i))&1; npatch++; } }break;
    }
    kinds_seen|=1u<<o.kind;
    ops[n++]=o; tf[n]=ec_tell_frac(&enc); tl[n]=ec_tell(&enc); rg[n]=enc.rng;
    if(!enc.error||o.kind!=K_PATCH){
      if(tf[n]<tf[n-1]) vc_viol("tell_frac:decreased","after op %d (%s): %u -> %u",n-1,knames[o.kind],tf[n-1],tf[n]);
      if(!(tf[n]<=8u*(unsigned)tl[n] && tf[n]+7>=8u*(unsigned)tl[n])) vc_viol("tell:inconsistent","after op %d (%s): tell=%d tell_frac=%u",n-1,knames[o.kind],tl[n],tf[n]);
    }
  }
  int patch_err=0; if(enc.error&&n>0&&ops[n-1].kind==K_PATCH) patch_err=1;
  int tell_end=ec_tell(&enc); int err_before=enc.error;
  ec_enc_done(&enc);
  int cz=vc_gcheck(&g); if(cz) vc_viol("buffer:outside-write","canary %d damaged, size=%d nops=%d",cz,size,n);
  if(!err_before && tell_end<=8*cursize && enc.error) vc_viol("done:failed-within-budget","tell=%d <= 8*%d but ec_enc_done set error; nops=%d",tell_end,cursize,n);
  vc_count("sequences",1); vc_count("ops",n);
  if(enc.error){ vc_count("sequences_enc_error",1); vc_sig3(0xE,kinds_seen,size<8?size:(size<64?8:9)); vc_gfree(&g); (void)patch_err; return; }
  /* ---- mirrored decode ---- */
  unsigned char *d=vc_exact_copy(g.p,cursize);
  ec_dec dec; ec_dec_init(&dec,d,cursize);
  if(ec_tell_frac(&dec)!=tf[0]||dec.rng!=rg[0]) vc_viol("init:mismatch","fresh decoder tell_frac=%u rng=%u vs encoder %u %u",ec_tell_frac(&dec),dec.rng,tf[0],rg[0]);
  int bad=0;
  for(int i=0;i<n&&!bad;i++){ Op *o=&ops[i]; unsigned got=0,exp=o->a; int cmp=1;
    switch(o->kind){
    case K_ENCODE:{ unsigned fs=ec_decode(&dec,o->c); if(!(fs>=o->a&&fs<o->b)){ vc_viol("decode:wrong-symbol","op %d encode(fl=%u,fh=%u,ft=%u) decoded fs=%u",i,o->a,o->b,o->c,fs); bad=1; } ec_dec_update(&dec,o->a,o->b,o->c); cmp=0; }break;
    case K_BIN:{ unsigned fs=ec_decode_bin(&dec,o->c); if(!(fs>=o->a&&fs<o->b)){ vc_viol("decode:wrong-symbol","op %d encode_bin(fl=%u,fh=%u,bits=%u) decoded fs=%u",i,o->a,o->b,o->c,fs); bad=1; } ec_dec_update(&dec,o->a,o->b,1u<<o->c); cmp=0; }break;
    case K_LOGP: got=ec_dec_bit_logp(&dec,o->b); break;
    case K_ICDF: got=ec_dec_icdf(&dec,tabs8[i],o->b); break;
    case K_ICDF16: got=ec_dec_icdf16(&dec,tabs16[i],o->b); break;
    case K_UINT: got=ec_dec_uint(&dec,o->b); break;
    case K_BITS: got=ec_dec_bits(&dec,o->b); break;
    default: cmp=0; break;
    }
    if(cmp&&got!=exp){ vc_viol("decode:wrong-value","op %d %s param=%u encoded %u decoded %u (size=%d nops=%d)",i,knames[o->kind],o->b,exp,got,cursize,n); bad=1; }
    if(o->kind==K_SHRINK||o->kind==K_PATCH) continue;
    /* a patch rewrites the first byte: rng/tell are unaffected, value path differs only in val */
    if(ec_tell(&dec)!=tl[i+1]||ec_tell_frac(&dec)!=tf[i+1]){ vc_viol("tell:enc-dec-mismatch","after op %d (%s): enc tell=%d/%u dec tell=%d/%u",i,knames[o->kind],tl[i+1],tf[i+1],ec_tell(&dec),ec_tell_frac(&dec)); bad=1; }
    if(dec.rng!=rg[i+1]){ vc_viol("rng:enc-dec-mismatch","after op %d (%s): enc rng=%u dec rng=%u",i,knames[o->kind],rg[i+1],dec.rng); bad=1; }
  }
  if(bad&&vc_verbose){ fprintf(stderr,"size=%d cursize=%d prefix=%d\n",size,cursize,prefix_bits); for(int i=0;i<n;i++) fprintf(stderr,"%d %s a=%u b=%u c=%u tell=%d\n",i,knames[ops[i].kind],ops[i].a,ops[i].b,ops[i].c,tl[i+1]); }
  if(dec.error && !bad) vc_viol("decode:error-flag","decoder error flag set on a stream the encoder finished without error");
  vc_count("sequences_ok",1); if(npatch) vc_count("patched_ok",1); if(cursize!=size) vc_count("shrunk_ok",1);
  { int fill=(int)((8.0*cursize-tell_end)); int fc= fill<0?0: fill<8?1: fill<32?2: fill<256?3:4; vc_sig3(kinds_seen, (uint64_t)fc|((uint64_t)(npatch>0)<<4)|((uint64_t)(cursize!=size)<<5)|((uint64_t)skew<<6), (cursize<4?cursize:(cursize<16?4:(cursize<128?5:6)))|((n<8?n:(n<64?8:(n<512?9:10)))<<4)); }
  if(sub==0&&vc_want_sample()){ char s[600]; int o=0; for(int i=0;i<n&&i<10;i++) o+=snprintf(s+o,sizeof s-o,"%s%s(%u,%u,%u)",i?",":"",knames[ops[i].kind],ops[i].a,ops[i].b,ops[i].c); vc_sample("{\"mode\":\"seq\",\"buffer\":%d,\"nops\":%d,\"tell_end_bits\":%d,\"first_ops\":\"%s\"}",cursize,n,tell_end,s); }
  free(d); vc_gfree(&g);
}

static void mode_seq(void){ vc_rng r; vc_case_rng(&r,8); for(int s=0;s<8;s++) one_sequence(&r,s); }

static void mode_tellfrac(void){
  int l=24+(int)(vc_case%9); ec_ctx c; memset(&c,0,sizeof c); long n=0;
  for(unsigned top=32768; top<65536; top++){
    /* rng with ilog==l whose top 16 bits are `top`; low bits all-0, all-1, and alternating */
    for(int v=0;v<3;v++){ opus_uint32 low= l>16? (v==0?0u: v==1?((1u<<(l-16))-1u): (0x55555555u&((1u<<(l-16))-1u))):0; opus_uint32 rng=((opus_uint32)top<<(l-16))|low; if(rng<=(1u<<23)) continue; /* rng > EC_CODE_BOT always holds in a live coder */
      for(int nb=0;nb<2;nb++){ c.rng=rng; c.nbits_total= nb?4321:40; opus_uint32 a=ec_tell_frac(&c), b=ref_tell_frac(c.nbits_total,rng); n++; if(a!=b){ vc_viol("tell_frac:formula","rng=%u nbits_total=%d fast=%u reference=%u",rng,c.nbits_total,a,b); return; } } }
    if((top&255)==0) vc_sig3(l,top>>8,1);
  }
  vc_count("tellfrac_points",n);
}

int main(int argc,char **argv){
  static const vc_mode_t modes[]={{"seq",mode_seq},{"tellfrac",mode_tellfrac},{0,0}};
  return vc_main(argc,argv,"C08",modes);
}
