import random, subprocess, sys
sys.path.insert(0,'/tmp/probe')
from rfcmodel import parse
random.seed(int(sys.argv[1])); N=int(sys.argv[2])
def gen():
    k=random.random()
    L=random.choice([0,1,2,3,4,5,6,8,10,20,50,100,252,253,254,255,256,257,300,510,600,1000,1275,1276,1277,1278,1300,1500,2000,2551,2552,2553])+random.randint(-2,2)
    L=max(0,L)
    b=bytearray(random.getrandbits(8) for _ in range(L))
    if L>0 and k<0.9:
        b[0]=(random.getrandbits(6)<<2)|random.choice([0,1,2,3,3,3])
        if L>1 and (b[0]&3)==3:
            M=random.choice([0,1,2,3,4,5,6,12,24,47,48,49,63]); b[1]=M|random.choice([0,0x40,0x80,0xC0])
            pos=2
            if b[1]&0x40:
                for _ in range(random.choice([0,0,1,2,3,11])):
                    if pos<L: b[pos]=255; pos+=1
                if pos<L: b[pos]=random.choice([0,1,2,5,253,254,random.getrandbits(8)%255]); pos+=1
            for _ in range(M):
                if pos<L:
                    b[pos]=random.choice([0,1,2,10,251,252,253,254,255,random.getrandbits(8)])
                    if b[pos]>=252 and pos+1<L: b[pos+1]=random.choice([0,1,2,255,random.getrandbits(8)]); pos+=1
                    pos+=1
        elif L>1:
            b[1]=random.choice([0,1,2,10,251,252,253,254,255,random.getrandbits(8)])
            if L>2: b[2]=random.choice([0,1,2,255,random.getrandbits(8)])
    return bytes(b)
cases=[(random.randint(0,1),gen()) for _ in range(N)]
inp="".join("%d %s\n"%(sd,b.hex()) for sd,b in cases)
out=subprocess.run(['/tmp/probe/p17'],input=inp.encode(),capture_output=True,env={'ASAN_OPTIONS':'detect_leaks=0'}).stdout.decode().split('\n')
bad=0; acc=0
for (sd,b),o in zip(cases,out):
    m=parse(b,bool(sd)); f=o.split()
    r=int(f[0])
    if m is None:
        if r>0:
            bad+=1; print("CODE ACCEPTS, MODEL REJECTS",sd,b[:12].hex(),len(b),o[:80])
    else:
        acc+=1
        exp=[m['count'],m['toc'],m['payload_offset'],m['consumed'],m['padding_off'],m['pad']]+["%d:%d"%(a,s) for a,s in zip(m['offsets'],m['sizes'])]
        got=[int(x) if ':' not in x else x for x in f]
        if r<=0 or got!=exp:
            bad+=1
            if bad<15: print("MISMATCH sd=%d len=%d head=%s code=%s model=%s"%(sd,len(b),b[:8].hex(),o[:100],exp[:8]))
print("cases",N,"model-accepted",acc,"bad",bad)
