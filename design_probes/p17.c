#include <stdio.h>
#include <stdlib.h>
#include <string.h>
#include "opus.h"
#include "opus_private.h"
/* reads hex packets from stdin "sd hex", prints parse result */
int main(){ char line[8000]; while(fgets(line,sizeof line,stdin)){ int sd=line[0]-'0'; unsigned char b[3000]; int n=0; char*p=line+2; while(p[0]&&p[1]&&p[0]!='\n'){ unsigned v; sscanf(p,"%2x",&v); b[n++]=v; p+=2; }
  unsigned char*h=malloc(n?n:1); memcpy(h,b,n); unsigned char toc=0; const unsigned char*fr[48]; short sz[48]; int po=-1; opus_int32 pko=-1; const unsigned char*pad=NULL; opus_int32 padlen=-1;
  int r=opus_packet_parse_impl(h,n,sd,&toc,fr,sz,&po,&pko,&pad,&padlen);
  printf("%d",r); if(r>0){ printf(" %d %d %d %d %d",toc,po,(int)pko,(int)(pad-h),(int)padlen); for(int i=0;i<r;i++) printf(" %d:%d",(int)(fr[i]-h),sz[i]); } printf("\n"); free(h);} return 0; }
