#include <stdio.h>
#include <stdlib.h>
#include <string.h>
#include <math.h>
#include "opus.h"
static unsigned rs=1; static unsigned rnd(void){ rs=rs*1664525u+1013904223u; return rs>>8; }
int main(int argc,char**argv){
  int err; int N=atoi(argv[1]); rs=atoi(argv[2]);
  int rates[5]={8000,12000,16000,24000,48000}; int apps[3]={OPUS_APPLICATION_VOIP,OPUS_APPLICATION_AUDIO,OPUS_APPLICATION_RESTRICTED_LOWDELAY};
  long calls=0, fails=0, mism=0, durm=0;
  for(int it=0; it<N; it++){
    int Fs=rates[rnd()%5], ch=1+rnd()%2;
    OpusEncoder*e=opus_encoder_create(Fs,ch,apps[rnd()%3],&err);
    OpusDecoder*d=opus_decoder_create(Fs,ch,&err);
    for(int k=0;k<40;k++){
      if(rnd()%4==0) opus_encoder_ctl(e,OPUS_SET_BITRATE(500+rnd()%200000));
      if(rnd()%8==0) opus_encoder_ctl(e,OPUS_SET_VBR(rnd()%2));
      if(rnd()%8==0) opus_encoder_ctl(e,OPUS_SET_COMPLEXITY(rnd()%11));
      if(rnd()%8==0) opus_encoder_ctl(e,OPUS_SET_INBAND_FEC(rnd()%3));
      if(rnd()%8==0) opus_encoder_ctl(e,OPUS_SET_PACKET_LOSS_PERC(rnd()%101));
      if(rnd()%8==0) opus_encoder_ctl(e,OPUS_SET_DTX(rnd()%2));
      if(rnd()%8==0) opus_encoder_ctl(e,OPUS_SET_FORCE_CHANNELS(rnd()%2?OPUS_AUTO:1+rnd()%ch));
      if(rnd()%8==0) opus_encoder_ctl(e,OPUS_SET_BANDWIDTH(rnd()%2?OPUS_AUTO:OPUS_BANDWIDTH_NARROWBAND+rnd()%5));
      static const int fsz[9]={400,200,100,50,25,  0,0,0,0};
      int durs[9]={Fs/400,Fs/200,Fs/100,Fs/50,Fs/25,3*Fs/50,4*Fs/50,5*Fs/50,6*Fs/50};
      int fs=durs[rnd()%9];
      static float in[5760*2]; int kind=rnd()%8;
      for(int i=0;i<fs*ch;i++){ float v;
        switch(kind){case 0: v=0; break; case 1: v=(rnd()%2)?1.f:-1.f; break; case 2: v=((int)(rnd()%65536)-32768)/32768.f; break;
         case 3: v=(rnd()%50==0)?NAN:0.3f*sinf(i*0.05f); break; case 4: v=(rnd()%50==0)?INFINITY:0.1f; break; case 5: v=1e30f*((rnd()%2)?1:-1); break; case 6: v=1e-40f; break; default: v=0.5f*sinf(i*0.02f*(1+k%5)); }
        in[i]=v; }
      unsigned char pkt[1600]; int maxb=(rnd()%3==0)?(2+rnd()%40):1500;
      int len=opus_encode_float(e,in,fs,pkt,maxb); calls++;
      if(len<0){ fails++; if(fails<10) printf("FAIL %d Fs=%d ch=%d fs=%d maxb=%d kind=%d\n",len,Fs,ch,fs,maxb,kind); continue; }
      unsigned er,dr; opus_encoder_ctl(e,OPUS_GET_FINAL_RANGE(&er));
      static float out[5760*2]; int r=opus_decode_float(d,pkt,len,out,5760,0); opus_decoder_ctl(d,OPUS_GET_FINAL_RANGE(&dr));
      if(r!=fs) { durm++; if(durm<10) printf("DUR r=%d fs=%d len=%d\n",r,fs,len);} if(er!=dr){ mism++; if(mism<10) printf("RNG mismatch len=%d fs=%d Fs=%d\n",len,fs,Fs);} 
    }
    opus_encoder_destroy(e); opus_decoder_destroy(d);
  }
  printf("calls=%ld fails=%ld rangemismatch=%ld durmismatch=%ld\n",calls,fails,mism,durm);
  return 0;
}
