/* C01 -- decoding is total and memory-safe for arbitrary packets and call histories.
 * Hostile call histories against every decode entry point and packet inspector, under ASan/UBSan with
 * ENABLE_ASSERTIONS+HARDENING, guarded output buffers, exact-size packet blocks.   Modes:
 *   single   OpusDecoder (opus_decode / opus_decode24 / opus_decode_float) + inspectors
 *   ms       OpusMSDecoder and OpusProjectionDecoder
 */
#include "vcodec.h"
#include "opus_private.h"

#define F_SENT 0x7FC0DEADu
static int allowed_err(int r){ return r==OPUS_BAD_ARG||r==OPUS_BUFFER_TOO_SMALL||r==OPUS_INVALID_PACKET; }

/* choose a frame_size for a call: need = samples the packet announces at Fs (or <=0 if unknown) */
static int pick_frame_size(vc_rng *r,int Fs,int need,int maxfs){ int k=vc_below(r,12); int q=Fs/400; int fs;
  switch(k){ case 0: fs=need>0?need:q*8; break; case 1: fs=Fs/25*3; break; case 2: fs=q*vc_range(r,1,48); break; case 3: fs=q*vc_range(r,1,400); break;
   case 4: fs=need>0?need-vc_range(r,1,need<q?1:q):q; break; case 5: fs=need>0?need+vc_range(r,1,q):q*3; break; case 6: fs=vc_below(r,3)==0?0:(int)vc_below(r,Fs); break; case 7: fs=Fs; break; case 8: fs=need>0?need:q*16; break;
   case 9: fs=need>0?need/2:q; break; case 10: fs=1; break; default: fs=Fs/25*3; break; }
  if(fs>maxfs) fs=maxfs; if(fs<0) fs=0; return fs; }

static void inspectors(const unsigned char *data,int len,OpusDecoder *d,int Fs){
  /* every inspector gets an exact-size private copy */
  unsigned char *p=vc_exact_copy(data,len); unsigned char toc; const unsigned char *fr[48]; opus_int16 sz[48]; int po;
  rfc_pkt m; rfc_parse(p,len,0,&m);
  int r=opus_packet_parse(p,len,&toc,fr,sz,&po); if(r<0&&!allowed_err(r)) vc_viol("inspect:parse:retcode","opus_packet_parse returned %d",r);
  if(len>=1){ int bw=opus_packet_get_bandwidth(p); if(bw<OPUS_BANDWIDTH_NARROWBAND||bw>OPUS_BANDWIDTH_FULLBAND) vc_viol("inspect:bandwidth","got %d",bw);
    int c=opus_packet_get_nb_channels(p); if(c!=1&&c!=2) vc_viol("inspect:channels","got %d",c);
    int spf=opus_packet_get_samples_per_frame(p,Fs); if(spf!=rfc_spf(p[0],Fs)) vc_viol("inspect:spf","got %d",spf);
    int nf=opus_packet_get_nb_frames(p,len); if(nf<0&&!allowed_err(nf)) vc_viol("inspect:nb_frames:retcode","%d",nf);
    int ns=opus_packet_get_nb_samples(p,len,Fs); if(ns<0&&!allowed_err(ns)) vc_viol("inspect:nb_samples:retcode","%d",ns); if(m.valid&&ns!=m.count*rfc_spf(p[0],Fs)) vc_viol("inspect:nb_samples:value","got %d expected %d",ns,m.count*rfc_spf(p[0],Fs));
    int ns2=opus_decoder_get_nb_samples(d,p,len); if(ns2!=ns) vc_viol("inspect:decoder_nb_samples","%d vs %d",ns2,ns);
    int hl=opus_packet_has_lbrr(p,len); if(hl<0&&!allowed_err(hl)) vc_viol("inspect:has_lbrr:retcode","%d",hl); if(hl>1) vc_viol("inspect:has_lbrr:value","%d",hl);
  }
  { int u=opus_packet_unpad(p,len); if(u<0&&!allowed_err(u)) vc_viol("inspect:unpad:retcode","opus_packet_unpad returned %d on len=%d valid=%d",u,len,m.valid); if(u>len) vc_viol("inspect:unpad:longer","%d > %d",u,len); }
  free(p);
}

static void mode_single(void){
  vc_rng r; vc_case_rng(&r,1); vk_pool_init(); int err;
  int Fs=VC_PICK(&r,vk_rates), ch=1+vc_below(&r,2);
  OpusDecoder *d; void *blk=NULL;
  if(vc_chance(&r,1,3)){ int sz=opus_decoder_get_size(ch); blk=malloc(sz); memset(blk,0xA5,sz); d=(OpusDecoder*)blk; err=opus_decoder_init(d,Fs,ch); if(err!=OPUS_OK){ vc_viol("init:failed","opus_decoder_init(%d,%d)=%d",Fs,ch,err); free(blk); return; } }
  else { d=opus_decoder_create(Fs,ch,&err); if(!d){ vc_viol("create:failed","opus_decoder_create(%d,%d) err=%d",Fs,ch,err); return; } }
  int ncalls=vc_range(&r,1,vc_chance(&r,1,4)?60:14); vk_stream *st=&vk_pool[vc_below(&r,vk_pool_n)]; int sp=vc_below(&r,st->n>0?st->n:1);
  static unsigned char pb[9000]; char hist[400]; int ho=0; hist[0]=0;
  for(int k=0;k<ncalls;k++){
    int what=vc_below(&r,16); int len=0; int havepkt=1; int fec=0;
    if(what<5&&st->n>0){ if(sp>=st->n||vc_chance(&r,1,10)){ st=&vk_pool[vc_below(&r,vk_pool_n)]; sp=0; } if(st->n==0){ len=vk_hostile(&r,pb,1500,0);} else { memcpy(pb,st->pkt[sp],st->len[sp]); len=st->len[sp]; sp++; } }
    else if(what<8&&st->n>0){ int i=vc_below(&r,st->n); memcpy(pb,st->pkt[i],st->len[i]); len=vk_mutate(&r,pb,st->len[i],1500); if(vc_chance(&r,1,3)) len=vk_mutate(&r,pb,len,1500); }
    else if(what<12){ len=vk_hostile(&r,pb,vc_chance(&r,1,10)?8500:1500,0); }
    else if(what==12){ havepkt=0; len=0; }
    else if(what==13){ opus_decoder_ctl(d,OPUS_RESET_STATE); if(ho<380) ho+=snprintf(hist+ho,sizeof hist-ho,"R "); continue; }
    else if(what==14){ static const int gs[6]={-32768,32767,0,-3000,3000,256}; int g=vc_chance(&r,1,2)?gs[vc_below(&r,6)]:vc_range(&r,-32768,32767); int e=opus_decoder_ctl(d,OPUS_SET_GAIN(g)); if(e!=OPUS_OK) vc_viol("ctl:gain","SET_GAIN(%d)=%d",g,e); if(ho<380) ho+=snprintf(hist+ho,sizeof hist-ho,"G%d ",g); continue; }
    else { len=vk_hostile(&r,pb,200,0); }
    if(havepkt&&vc_chance(&r,1,4)) fec=1;
    int nullwithlen=0, zerolen=0; if(havepkt&&vc_chance(&r,1,30)) nullwithlen=1; if(havepkt&&vc_chance(&r,1,30)) zerolen=1;
    rfc_pkt m; rfc_parse(pb,len,0,&m); int need=(havepkt&&m.valid)?m.count*rfc_spf(pb[0],Fs):-1;
    int api=vc_below(&r,3); int fs=pick_frame_size(&r,Fs,need,Fs);
    size_t ss=api==0?sizeof(float):(api==1?sizeof(opus_int16):sizeof(opus_int32));
    vc_gbuf g=vc_galloc((size_t)fs*ch*ss); if(api==0){ uint32_t *u=(uint32_t*)g.p; for(int i=0;i<fs*ch;i++) u[i]=F_SENT; } else memset(g.p,0x3C,g.n);
    const unsigned char *dp=NULL; int dl=len; unsigned char *ex=NULL;
    if(havepkt){ ex=vc_exact_copy(pb,len); dp=ex; if(nullwithlen){ dp=NULL; } if(zerolen) dl=0; } else { dp=vc_chance(&r,1,2)?NULL:pb; dl=0; }
    if(havepkt&&len>0&&vc_chance(&r,1,8)) inspectors(pb,len,d,Fs);
    int ret= api==0?opus_decode_float(d,dp,dl,(float*)g.p,fs,fec): api==1?opus_decode(d,dp,dl,(opus_int16*)g.p,fs,fec): opus_decode24(d,dp,dl,(opus_int32*)g.p,fs,fec);
    vc_count("decode_calls",1);
    int cz=vc_gcheck(&g); if(cz) vc_viol("write:outside-buffer","canary %d damaged: api=%d fs=%d ch=%d ret=%d len=%d",cz,api,fs,ch,ret,dl);
    char hx[48]; vc_hex(hx,sizeof hx,pb,len<16?len:16);
    if(ret<0){ if(!allowed_err(ret)) vc_viol(ret==OPUS_INTERNAL_ERROR?"retcode:internal-error":"retcode:undocumented","decode returned %d (api=%d Fs=%d ch=%d fs=%d fec=%d len=%d head=%s hist=%s)",ret,api,Fs,ch,fs,fec,dl,hx,hist); }
    else if(ret==0||ret>fs) vc_viol("retcode:count-out-of-range","decode returned %d with frame_size=%d (api=%d Fs=%d len=%d fec=%d head=%s)",ret,fs,api,Fs,dl,fec,hx);
    else { if(api==0){ float *o=(float*)g.p; for(int i=0;i<ret*ch;i++) if(!isfinite(o[i])){ vc_viol("output:non-finite","sample %d of %d not finite (Fs=%d ch=%d len=%d fec=%d head=%s hist=%s)",i,ret*ch,Fs,ch,dl,fec,hx,hist); break; } }
      opus_int32 lpd=-1; opus_decoder_ctl(d,OPUS_GET_LAST_PACKET_DURATION(&lpd));
      int isplc=(dp==NULL||dl==0);
      if(isplc||fec){ /* concealment / FEC: exactly the requested duration (multiples of 2.5 ms only get here) */
        if(ret!=fs) vc_viol("duration:plc-fec","%s call returned %d for frame_size=%d (Fs=%d)",isplc?"PLC":"FEC",ret,fs,Fs);
        else if(lpd!=ret) vc_viol("duration:last-packet-duration","after %s call ret=%d but LAST_PACKET_DURATION=%d",isplc?"PLC":"FEC",ret,lpd); }
      else { if(need>0&&ret!=need) vc_viol("duration:announced","valid framing announces %d samples, decode returned %d (fs=%d Fs=%d head=%s)",need,ret,fs,Fs,hx);
        else if(lpd!=ret) vc_viol("duration:last-packet-duration","ret=%d but LAST_PACKET_DURATION=%d",ret,lpd); }
    }
    /* model-predicted outcome classes */
    { int isplc=(dp==NULL||dl==0); int q=Fs/400;
      if(fs<=0){ if(ret!=OPUS_BAD_ARG) vc_viol("args:frame_size<=0","returned %d",ret); }
      else if(isplc||fec){ if(fs%q!=0){ if(ret!=OPUS_BAD_ARG) vc_viol("args:non-multiple","PLC/FEC frame_size %d not multiple of 2.5ms returned %d",fs,ret); }
        else if(isplc&&ret!=fs) vc_viol("duration:plc-fec","PLC returned %d for frame_size=%d",ret,fs);
        else if(!isplc&&m.valid&&ret!=fs) vc_viol("duration:plc-fec","FEC on valid framing returned %d for frame_size=%d",ret,fs);
        else if(!isplc&&!m.valid&&ret!=OPUS_INVALID_PACKET) vc_viol("accept:fec-invalid-framing","FEC on invalid framing returned %d",ret); }
      else { if(m.valid){ if(fs>=need&&ret!=need) vc_viol("duration:announced","valid framing need=%d fs=%d returned %d",need,fs,ret); if(fs<need&&ret!=OPUS_BUFFER_TOO_SMALL) vc_viol("args:buffer-too-small","need=%d fs=%d returned %d",need,fs,ret); }
        else if(ret!=OPUS_INVALID_PACKET) vc_viol("accept:invalid-framing","model-invalid packet returned %d (len=%d head=%s)",ret,dl,hx); }
      vc_sig3((uint64_t)(isplc?1:fec?2:3)|((uint64_t)api<<2)|((uint64_t)(ret<0?-ret:0)<<4)|((uint64_t)(m.valid)<<8)|((uint64_t)ch<<9), (havepkt&&len>0)?(pb[0]>>3)|((pb[0]&3)<<5):0x100, (uint64_t)Fs/4000|((uint64_t)(fs%q==0)<<5)|((uint64_t)(fs>Fs/25*3)<<6)|((uint64_t)(k>0)<<7));
      if(ret>0) vc_count(isplc?"ok_plc":fec?"ok_fec":"ok_decode",1); else vc_count("rejected",1);
    }
    if(ho<380) ho+=snprintf(hist+ho,sizeof hist-ho,"%c%d/%d>%d ",dp==NULL||dl==0?'P':fec?'F':'D',dl,fs,ret);
    free(ex); vc_gfree(&g);
  }
  if(vc_want_sample()) vc_sample("{\"mode\":\"single\",\"Fs\":%d,\"ch\":%d,\"history\":\"%s\"}",Fs,ch,hist);
  if(blk) free(blk); else opus_decoder_destroy(d);
}

/* ---------------------------------------------------------------- multistream / projection */
static void mode_ms(void){
  vc_rng r; vc_case_rng(&r,2); vk_pool_init(); int err;
  int Fs=VC_PICK(&r,vk_rates); int proj=vc_chance(&r,1,4);
  int channels, streams, coupled; unsigned char mapping[255];
  OpusMSDecoder *md=NULL; OpusProjectionDecoder *pd=NULL;
  if(!proj){ channels=vc_chance(&r,1,12)?vc_range(&r,9,255):vc_range(&r,1,8); streams=vc_range(&r,1,vc_chance(&r,1,10)?20:4); coupled=vc_range(&r,0,streams); if(streams+coupled>255) coupled=0;
    for(int i=0;i<channels;i++) mapping[i]=vc_chance(&r,1,8)?255:(unsigned char)vc_below(&r,streams+coupled);
    md=opus_multistream_decoder_create(Fs,channels,streams,coupled,mapping,&err); if(!md){ vc_viol("create:ms-failed","legal layout rejected err=%d ch=%d s=%d c=%d",err,channels,streams,coupled); return; } }
  else { int order=vc_range(&r,1,5); int nondiegetic=vc_chance(&r,1,3)?2:0; channels=(order+1)*(order+1)+nondiegetic; if(vc_chance(&r,1,4)){ channels=vc_range(&r,1,18); }
    streams=(channels+1)/2; coupled=channels/2; if(vc_chance(&r,1,3)){ streams=vc_range(&r,1,channels); coupled=vc_range(&r,0,streams); if(streams+coupled<channels) coupled=channels-streams<=streams?channels-streams:streams; if(streams+coupled>255) coupled=0; }
    int rows=channels, cols=streams+coupled; int sz=rows*cols*2; unsigned char *mtx=(unsigned char*)malloc(sz); for(int i=0;i<sz;i++) mtx[i]=vc_chance(&r,1,2)?vc_u32(&r):(i&1?0x20:0);
    pd=opus_projection_decoder_create(Fs,channels,streams,coupled,mtx,sz,&err); free(mtx); if(!pd){ vc_count("proj_create_rejected",1); return; /* creation rules are C10's business */ } }
  int ncalls=vc_range(&r,1,12); static unsigned char pb[30000], one[9000], sdp[9100];
  for(int k=0;k<ncalls;k++){
    int what=vc_below(&r,10); int len=0; int allvalid=1; int need=-2; int plc=0;
    if(what==0){ plc=1; }
    else if(what==1){ len=vc_below(&r,vc_chance(&r,1,3)?2000:60); for(int i=0;i<len;i++) pb[i]=vc_u32(&r); }
    else { /* concatenate per-stream packets; same pool position across streams so durations often agree */
      vk_stream *st=&vk_pool[vc_below(&r,vk_pool_n)]; for(int s=0;s<streams&&len<20000;s++){ int l1; if(st->n>0&&what<7){ int i=vc_below(&r,st->n); memcpy(one,st->pkt[i],st->len[i]); l1=st->len[i]; if(what>=5) l1=vk_mutate(&r,one,l1,1500); } else l1=vk_hostile(&r,one,1400,0);
        if(vc_chance(&r,1,6)) st=&vk_pool[vc_below(&r,vk_pool_n)];
        if(s<streams-1){ int l2=vk_to_selfdelim(one,l1,sdp); if(l2<0){ /* not valid: emit hostile self-delimited */ l2=vk_hostile(&r,sdp,1400,1); } memcpy(pb+len,sdp,l2); len+=l2; } else { memcpy(pb+len,one,l1); len+=l1; } } }
    /* model verdict on the concatenation */
    if(!plc){ int off=0; for(int s=0;s<streams;s++){ rfc_pkt m; rfc_parse(pb+off,len-off,s!=streams-1,&m); if(!m.valid||len-off<=0){ allvalid=0; break; } int ns=m.count*rfc_spf(pb[off],Fs); if(s&&ns!=need){ allvalid=0; break; } need=ns; off+=m.consumed; } }
    int api=vc_below(&r,3); int fs=pick_frame_size(&r,Fs,allvalid?need:-1,Fs/25*3+Fs/400*4); int fec=(!plc)&&vc_chance(&r,1,5);
    size_t ss=api==0?sizeof(float):(api==1?sizeof(opus_int16):sizeof(opus_int32));
    vc_gbuf g=vc_galloc((size_t)fs*channels*ss); if(api==0){ uint32_t *u=(uint32_t*)g.p; for(int i=0;i<fs*channels;i++) u[i]=F_SENT; } else memset(g.p,0x3C,g.n);
    unsigned char *ex=plc?NULL:vc_exact_copy(pb,len); int ret;
    if(md) ret= api==0?opus_multistream_decode_float(md,ex,len,(float*)g.p,fs,fec): api==1?opus_multistream_decode(md,ex,len,(opus_int16*)g.p,fs,fec): opus_multistream_decode24(md,ex,len,(opus_int32*)g.p,fs,fec);
    else ret= api==0?opus_projection_decode_float(pd,ex,len,(float*)g.p,fs,fec): api==1?opus_projection_decode(pd,ex,len,(opus_int16*)g.p,fs,fec): opus_projection_decode24(pd,ex,len,(opus_int32*)g.p,fs,fec);
    vc_count("ms_decode_calls",1);
    int cz=vc_gcheck(&g); if(cz) vc_viol("write:outside-buffer","ms canary %d damaged: proj=%d api=%d fs=%d ch=%d ret=%d len=%d",cz,proj,api,fs,channels,ret,len);
    if(ret<0){ if(!allowed_err(ret)) vc_viol(ret==OPUS_INTERNAL_ERROR?"retcode:internal-error":"retcode:undocumented","ms decode returned %d (proj=%d api=%d Fs=%d ch=%d streams=%d coupled=%d fs=%d fec=%d len=%d allvalid=%d)",ret,proj,api,Fs,channels,streams,coupled,fs,fec,len,allvalid); }
    else if(ret==0||ret>fs) vc_viol("retcode:count-out-of-range","ms decode returned %d frame_size=%d",ret,fs);
    else { if(api==0){ float *o=(float*)g.p; for(int i=0;i<ret*channels;i++) if(!isfinite(o[i])){ vc_viol("output:non-finite","ms sample %d not finite (proj=%d)",i,proj); break; } }
      if(!plc&&!fec&&len>0&&allvalid&&ret!=need) vc_viol("duration:announced","ms valid framing announces %d, returned %d (fs=%d)",need,ret,fs); }
    if(!plc&&!fec&&len>0){ if(fs>0&&allvalid&&len>=2*streams-1){ if(fs>=need&&ret!=need) vc_viol("duration:announced","ms valid need=%d fs=%d ret=%d",need,fs,ret); if(fs<need&&ret!=OPUS_BUFFER_TOO_SMALL) vc_viol("args:buffer-too-small","ms need=%d fs=%d ret=%d",need,fs,ret); } else if(fs>0&&!allvalid&&ret!=OPUS_INVALID_PACKET) vc_viol("accept:invalid-framing","ms model-invalid packet returned %d (streams=%d len=%d)",ret,streams,len); }
    vc_sig3((uint64_t)proj|((uint64_t)api<<1)|((uint64_t)(ret<0?-ret:0)<<3)|((uint64_t)allvalid<<7)|((uint64_t)plc<<8)|((uint64_t)fec<<9),(uint64_t)(streams<8?streams:8)|((uint64_t)(coupled<8?coupled:8)<<4)|((uint64_t)(channels<9?channels:9)<<8),(uint64_t)Fs/4000);
    if(ret>0) vc_count("ms_ok",1); else vc_count("ms_rejected",1);
    if(k==0&&vc_want_sample()){ char hx[64]; vc_hex(hx,sizeof hx,pb,len<24?len:24); vc_sample("{\"mode\":\"ms\",\"projection\":%d,\"Fs\":%d,\"channels\":%d,\"streams\":%d,\"coupled\":%d,\"len\":%d,\"head\":\"%s\",\"frame_size\":%d,\"ret\":%d}",proj,Fs,channels,streams,coupled,len,hx,fs,ret); }
    /* multistream unpad on a private copy */
    if(!plc&&len>0&&vc_chance(&r,1,4)){ unsigned char *c2=vc_exact_copy(pb,len); int u=opus_multistream_packet_unpad(c2,len,streams); if(u<0&&!allowed_err(u)) vc_viol("inspect:ms_unpad:retcode","returned %d (allvalid=%d)",u,allvalid); if(u>len) vc_viol("inspect:ms_unpad:longer","%d>%d",u,len); free(c2); }
    free(ex); vc_gfree(&g);
    if(vc_chance(&r,1,10)){ if(md) opus_multistream_decoder_ctl(md,OPUS_RESET_STATE); else opus_projection_decoder_ctl(pd,OPUS_RESET_STATE); }
  }
  if(md) opus_multistream_decoder_destroy(md); if(pd) opus_projection_decoder_destroy(pd);
}


/* ---------------------------------------------------------------- value-guided search for extreme decoder output
 * (1+1) hill climbing on the peak magnitude of the float output: steers payload bytes towards the symbol
 * extremes (largest energies / gains / pulse counts) that uniformly random payloads essentially never reach.
 * Oracle unchanged: every sample finite, also in the following concealment and after a benign packet. */
static double peak_of(OpusDecoder *d,const unsigned char *p,int len,int ch,float *out,int *ret,int *nonfinite){ unsigned char *ex=vc_exact_copy(p,len); opus_decoder_ctl(d,OPUS_RESET_STATE); *ret=opus_decode_float(d,ex,len,out,5760,0); free(ex); double mx=0; *nonfinite=0; if(*ret>0) for(int i=0;i<*ret*ch;i++){ if(!isfinite(out[i])){ *nonfinite=1; return 1e300; } double a=fabs(out[i]); if(a>mx) mx=a; } return mx; }
static void mode_climb(void){
  vc_rng r; vc_case_rng(&r,4); vk_pool_init(); int err; int Fs=VC_PICK(&r,vk_rates), ch=1+vc_below(&r,2);
  OpusDecoder *d=opus_decoder_create(Fs,ch,&err); static float out[5760*2]; static unsigned char best[1600], cand[1600];
  int len=vk_hostile(&r,best,vc_range(&r,30,400),0); if(len<8){ len=40; for(int i=0;i<len;i++) best[i]=vc_u32(&r); }
  if(vc_chance(&r,2,3)){ best[0]=(unsigned char)((vc_range(&r,12,31)<<3)|(vc_below(&r,2)<<2)); /* CELT / hybrid, code 0 */ }
  int ret,nf; double bp=peak_of(d,best,len,ch,out,&ret,&nf); int iters=(int)vc_argl("iters",80); int improved=0;
  for(int it=0;it<iters&&!nf;it++){ memcpy(cand,best,len); int cl=len; int op=vc_below(&r,8);
    if(op<3){ int a=1+vc_below(&r,cl-1), n=1+vc_below(&r,op==0?4:40); unsigned char v=vc_chance(&r,2,3)?0xFF:0x00; for(int i=a;i<a+n&&i<cl;i++) cand[i]=v; }
    else if(op==3){ cand[1+vc_below(&r,cl-1)]=vc_u32(&r); }
    else if(op==4){ int a=1+vc_below(&r,cl<12?cl-1:11); cand[a]^=1u<<vc_below(&r,8); }
    else if(op==5&&cl<1200){ int add=1+vc_below(&r,30); memset(cand+cl,vc_chance(&r,1,2)?0xFF:0,add); cl+=add; }
    else if(op==6&&cl>12){ cl-=1+vc_below(&r,8); }
    else { int a=1+vc_below(&r,cl-1); for(int i=a;i<cl;i++) cand[i]=0xFF; }
    int r2,nf2; double p2=peak_of(d,cand,cl,ch,out,&r2,&nf2);
    if(nf2){ memcpy(best,cand,cl); len=cl; nf=1; ret=r2; break; }
    if(r2>0&&p2>=bp){ if(p2>bp) improved++; memcpy(best,cand,cl); len=cl; bp=p2; ret=r2; } }
  vc_count("climb_decodes",iters+1); vc_max("climb_peak",bp<1e299?bp:-1);
  char hx[64]; vc_hex(hx,sizeof hx,best,len<24?len:24);
  if(nf) vc_viol("output:non-finite","hill-climbed packet decodes to non-finite samples: Fs=%d ch=%d len=%d head=%s",Fs,ch,len,hx);
  else { /* history clause: concealment and a benign packet after the extreme one */
    unsigned char *ex=vc_exact_copy(best,len); opus_decoder_ctl(d,OPUS_RESET_STATE); int r0=opus_decode_float(d,ex,len,out,5760,0); free(ex);
    if(r0>0){ int r1=opus_decode_float(d,NULL,0,out,r0,0); for(int i=0;r1>0&&i<r1*ch;i++) if(!isfinite(out[i])){ vc_viol("output:non-finite","concealment after extreme packet not finite (head=%s)",hx); break; }
      vk_stream *st=&vk_pool[vc_below(&r,vk_pool_n)]; if(st->n>0){ int r2=opus_decode_float(d,st->pkt[0],st->len[0],out,5760,0); for(int i=0;r2>0&&i<r2*ch;i++) if(!isfinite(out[i])){ vc_viol("output:non-finite","benign packet after extreme packet not finite (head=%s)",hx); break; } } }
    int pc= bp<1?0: bp<10?1: bp<1e3?2: bp<1e5?3: bp<3e6?4:5; vc_sig3(0xC11B,(uint64_t)(best[0]>>3)|((uint64_t)pc<<5),(uint64_t)ch|((uint64_t)(Fs/4000)<<2));
    if(pc>=4) vc_count("climb_extreme_gain_reached",1);
    if(vc_want_sample()) vc_sample("{\"mode\":\"climb\",\"Fs\":%d,\"ch\":%d,\"len\":%d,\"head\":\"%s\",\"peak\":%.4g,\"improvements\":%d}",Fs,ch,len,hx,bp,improved); }
  opus_decoder_destroy(d);
}

int main(int argc,char **argv){
  static const vc_mode_t modes[]={{"single",mode_single},{"ms",mode_ms},{"climb",mode_climb},{0,0}};
  return vc_main(argc,argv,"C01",modes);
}
