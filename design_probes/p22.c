#include <stdio.h>
#include "arch.h"
#include "opus.h"
#include "mapping_matrix.h"
#define D(n) do{ printf(#n " %d %d %d", mapping_matrix_##n##_mixing.rows, mapping_matrix_##n##_mixing.cols, mapping_matrix_##n##_demixing.gain); printf("\nM"); for(int i=0;i<mapping_matrix_##n##_mixing.rows*mapping_matrix_##n##_mixing.cols;i++) printf(" %d",mapping_matrix_##n##_mixing_data[i]); printf("\nD"); for(int i=0;i<mapping_matrix_##n##_demixing.rows*mapping_matrix_##n##_demixing.cols;i++) printf(" %d",mapping_matrix_##n##_demixing_data[i]); printf("\n"); }while(0)
int main(){ D(foa); D(soa); D(toa); D(fourthoa); D(fifthoa); return 0; }
