#include <stdio.h>
#include <stdlib.h>
#include <string.h>
#include <math.h>
#include "opus.h"
static unsigned long long rs=1; static unsigned rnd(void){ rs=rs*6364136223846793005ULL+1442695040888963407ULL; return (unsigned)(rs>>33); }
int main(int argc,char**argv){ int N=atoi(argv[1]); rs=atoi(argv[2]); int err; long pk=0,vbw=0,vch=0,vdur=0,vmode=0,noaudio=0,vlate=0;
 for(int it=0;it<N;it++){
  int Fs=(int[]){8000,12000,16000,24000,48000}[rnd()%5], ch=1+rnd()%2, app=(int[]){OPUS_APPLICATION_VOIP,OPUS_APPLICATION_AUDIO,OPUS_APPLICATION_RESTRICTED_LOWDELAY}[rnd()%3];
  OpusEncoder*e=opus_encoder_create(Fs,ch,app,&err);
  int fbw= rnd()%2? OPUS_AUTO : OPUS_BANDWIDTH_NARROWBAND+rnd()%5; int mbw= OPUS_BANDWIDTH_NARROWBAND+rnd()%5; int fch= rnd()%2?OPUS_AUTO:1+rnd()%ch;
  int br=(rnd()%5==0)?500+rnd()%5000: 6000+rnd()%200000; int vbr=rnd()%2; int cx=rnd()%11;
  opus_encoder_ctl(e,OPUS_SET_BANDWIDTH(fbw)); opus_encoder_ctl(e,OPUS_SET_MAX_BANDWIDTH(mbw)); opus_encoder_ctl(e,OPUS_SET_FORCE_CHANNELS(fch)); opus_encoder_ctl(e,OPUS_SET_BITRATE(br)); opus_encoder_ctl(e,OPUS_SET_VBR(vbr)); opus_encoder_ctl(e,OPUS_SET_COMPLEXITY(cx));
  if(rnd()%3==0) opus_encoder_ctl(e,OPUS_SET_INBAND_FEC(1)), opus_encoder_ctl(e,OPUS_SET_PACKET_LOSS_PERC(rnd()%40));
  int nyq = Fs<=8000?OPUS_BANDWIDTH_NARROWBAND: Fs<=12000?OPUS_BANDWIDTH_MEDIUMBAND: Fs<=16000?OPUS_BANDWIDTH_WIDEBAND: Fs<=24000?OPUS_BANDWIDTH_SUPERWIDEBAND:OPUS_BANDWIDTH_FULLBAND;
  static short in[5760*2]; unsigned char pkt[1500]; long n=0; int change_at=-1, newfch=fch;
  for(int k=0;k<40;k++){
    int fs=(int[]){Fs/400,Fs/200,Fs/100,Fs/50,Fs/25,3*Fs/50,4*Fs/50,5*Fs/50,6*Fs/50}[rnd()%9];
    if(k==20 && ch==2){ newfch = (fch==1)?2:1; opus_encoder_ctl(e,OPUS_SET_FORCE_CHANNELS(newfch)); change_at=k; }
    for(int i=0;i<fs;i++){ double tt=(n+i)/(double)Fs; double envl=0.5+0.5*sin(2*M_PI*4*tt); short v=(short)(7000*envl*sin(2*M_PI*(200+k*37)*tt)+(int)(rnd()%3000)-1500); for(int c=0;c<ch;c++) in[i*ch+c]= c? (short)(v*0.3+ (int)(rnd()%2000)-1000):v; } n+=fs;
    int maxb=(rnd()%6==0)?3+rnd()%30:1500; int len=opus_encode(e,in,fs,pkt,maxb); if(len<0) continue; pk++;
    const unsigned char*fr[48]; short sz[48]; unsigned char toc; int nf=opus_packet_parse(pkt,len,&toc,fr,sz,NULL); int audio=0; for(int i=0;i<nf;i++) if(sz[i]>1) audio=1;
    int dur=opus_packet_get_nb_samples(pkt,len,Fs); if(dur!=fs){ vdur++; printf("DUR %d vs %d\n",dur,fs);} 
    if(!audio){ noaudio++; continue; }
    int bw=opus_packet_get_bandwidth(pkt); int pc=opus_packet_get_nb_channels(pkt); int celt=(toc&0x80)!=0;
    int lim = (fbw!=OPUS_AUTO)? fbw : mbw; int eff=lim; if(celt && lim==OPUS_BANDWIDTH_MEDIUMBAND) eff=OPUS_BANDWIDTH_WIDEBAND; int nq=nyq; if(celt&&nq==OPUS_BANDWIDTH_MEDIUMBAND) nq=OPUS_BANDWIDTH_WIDEBAND;
    if(bw>eff || bw>nq){ vbw++; if(vbw<10) printf("BW bw=%d forced=%d max=%d nyq=%d celt=%d Fs=%d toc=%02x len=%d br=%d fs=%d k=%d\n",bw,fbw,mbw,nyq,celt,Fs,toc,len,br,fs,k); }
    int want = (k<20||change_at<0)? fch : newfch;
    if(want!=OPUS_AUTO && ch==2){ if(pc!=want){ if(change_at>=0 && k>=change_at && k<change_at+3) {} else { vch++; if(vch<10) printf("CH pc=%d want=%d k=%d toc=%02x len=%d fs=%d\n",pc,want,k,toc,len,fs);} } }
    if((app==OPUS_APPLICATION_RESTRICTED_LOWDELAY || fs<Fs/100) && !celt){ vmode++; printf("MODE toc=%02x\n",toc);} 
  }
  opus_encoder_destroy(e);
 }
 printf("pk=%ld noaudio=%ld vbw=%ld vch=%ld vdur=%ld vmode=%ld\n",pk,noaudio,vbw,vch,vdur,vmode); return 0; }
