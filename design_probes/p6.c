#include <stdio.h>
#include <stdlib.h>
#include <string.h>
#include <math.h>
#include "opus.h"
static unsigned rs=1; static unsigned rnd(void){ rs=rs*1664525u+1013904223u; return rs>>8; }
static void gen(short*in,int n,int ch,int k,int t0){ for(int i=0;i<n;i++){ double t=(t0+i); double v=8000*sin(t*0.03*(1+k%3))+3000*sin(t*0.21)+ ((k%4==0)? (double)((int)(rnd()%2001)-1000):0); for(int c=0;c<ch;c++) in[i*ch+c]=(short)(c? v*0.5: v); } }
static void cfg(OpusEncoder*e,int ch,unsigned s){ unsigned save=rs; rs=s;
  opus_encoder_ctl(e,OPUS_SET_BITRATE(6000+rnd()%120000)); opus_encoder_ctl(e,OPUS_SET_VBR(rnd()%2)); opus_encoder_ctl(e,OPUS_SET_COMPLEXITY(rnd()%11));
  opus_encoder_ctl(e,OPUS_SET_INBAND_FEC(rnd()%3)); opus_encoder_ctl(e,OPUS_SET_PACKET_LOSS_PERC(rnd()%30)); opus_encoder_ctl(e,OPUS_SET_DTX(rnd()%2));
  opus_encoder_ctl(e,OPUS_SET_SIGNAL(rnd()%3==0?OPUS_SIGNAL_VOICE:(rnd()%2?OPUS_SIGNAL_MUSIC:OPUS_AUTO))); rs=save; }
int main(int argc,char**argv){
  int err; int N=atoi(argv[1]); rs=atoi(argv[2]);
  int rates[5]={8000,12000,16000,24000,48000}; int apps[3]={OPUS_APPLICATION_VOIP,OPUS_APPLICATION_AUDIO,OPUS_APPLICATION_RESTRICTED_LOWDELAY};
  long cmp=0, diffreset=0, diffclone=0, difffmt=0;
  for(int it=0; it<N; it++){
    int Fs=rates[rnd()%5], ch=1+rnd()%2, app=apps[rnd()%3]; unsigned cs=rnd();
    int sz=opus_encoder_get_size(ch);
    OpusEncoder*a=opus_encoder_create(Fs,ch,app,&err); cfg(a,ch,cs);
    OpusEncoder*fresh=opus_encoder_create(Fs,ch,app,&err); cfg(fresh,ch,cs);
    OpusEncoder*clone=malloc(sz);
    OpusEncoder*f2=opus_encoder_create(Fs,ch,app,&err); cfg(f2,ch,cs); opus_encoder_ctl(f2,OPUS_SET_LSB_DEPTH(16));
    OpusEncoder*f3=opus_encoder_create(Fs,ch,app,&err); cfg(f3,ch,cs); opus_encoder_ctl(f3,OPUS_SET_LSB_DEPTH(16));
    int durs[6]={Fs/400,Fs/200,Fs/100,Fs/50,Fs/25,3*Fs/50}; int fs=durs[rnd()%6];
    static short in[2880*2]; static float inf_[2880*2]; static int in24[2880*2]; unsigned char p1[1500],p2[1500],p3[1500]; int t0=0;
    int pre=5+rnd()%30;
    for(int k=0;k<pre;k++){ gen(in,fs,ch,k,t0); t0+=fs; opus_encode(a,in,fs,p1,1500);} 
    memcpy(clone,a,sz);
    /* clone vs original */
    for(int k=0;k<10;k++){ gen(in,fs,ch,k,t0); t0+=fs; int l1=opus_encode(a,in,fs,p1,1500); int l2=opus_encode(clone,in,fs,p2,1500); cmp++; if(l1!=l2||memcmp(p1,p2,l1>0?l1:0)) {diffclone++; break;} }
    /* reset vs fresh */
    opus_encoder_ctl(a,OPUS_RESET_STATE); t0=0;
    for(int k=0;k<20;k++){ gen(in,fs,ch,k,t0); t0+=fs; int l1=opus_encode(a,in,fs,p1,1500); int l2=opus_encode(fresh,in,fs,p2,1500); cmp++; if(l1!=l2||memcmp(p1,p2,l1>0?l1:0)) {diffreset++; if(diffreset<6) printf("RESETDIFF it=%d k=%d Fs=%d ch=%d app=%d fs=%d l1=%d l2=%d pre=%d cs=%u\n",it,k,Fs,ch,app,fs,l1,l2,pre,cs); break;} }
    /* formats */
    t0=0; opus_encoder_ctl(fresh,OPUS_RESET_STATE); opus_encoder_ctl(fresh,OPUS_SET_LSB_DEPTH(16));
    for(int k=0;k<20;k++){ gen(in,fs,ch,k,t0); t0+=fs; for(int i=0;i<fs*ch;i++){ inf_[i]=in[i]/32768.f; in24[i]=in[i]*256; }
      int l1=opus_encode(fresh,in,fs,p1,1500); int l2=opus_encode_float(f2,inf_,fs,p2,1500); int l3=opus_encode24(f3,in24,fs,p3,1500); cmp++;
      if(l1!=l2||l1!=l3||memcmp(p1,p2,l1>0?l1:0)||memcmp(p1,p3,l1>0?l1:0)){ difffmt++; if(difffmt<6) printf("FMTDIFF it=%d k=%d Fs=%d ch=%d app=%d fs=%d l=%d %d %d\n",it,k,Fs,ch,app,fs,l1,l2,l3); break;} }
    opus_encoder_destroy(a); opus_encoder_destroy(fresh); free(clone); opus_encoder_destroy(f2); opus_encoder_destroy(f3);
  }
  printf("cmp=%ld diffclone=%ld diffreset=%ld difffmt=%ld\n",cmp,diffclone,diffreset,difffmt); return 0; }
