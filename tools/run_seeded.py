#!/usr/bin/env python3
"""run_seeded.py <seed-name> [<property-id> ...] [--tier quick|thorough]

Apply /verif/seeded/<name>/patch.diff to /repo's working tree, run the given checks (default: the property
the seed targets), undo the patch (git checkout), and record in meta.json which checks reported a violation.
/repo must be clean before and is clean afterwards."""
import sys, os, json, subprocess, time

def sh(cmd, **kw):
    return subprocess.run(cmd, shell=True, stdout=subprocess.PIPE, stderr=subprocess.STDOUT, **kw)

name = sys.argv[1]
tier = 'quick'
args = sys.argv[2:]
if '--tier' in args:
    i = args.index('--tier'); tier = args[i + 1]; del args[i:i + 2]
d = os.path.join('/verif/seeded', name)
meta = json.load(open(os.path.join(d, 'meta.json')))
props = args or [meta['property']]
st = sh('git -C /repo status --porcelain --untracked-files=no').stdout.decode().strip()
if st:
    print('/repo is not clean:\n' + st); sys.exit(2)
r = sh('git -C /repo apply --3way %s/patch.diff || git -C /repo apply %s/patch.diff' % (d, d))
if r.returncode:
    print('patch does not apply:', r.stdout.decode()); sh('git -C /repo checkout -- . ; git -C /repo reset -q'); sys.exit(2)
sh('git -C /repo reset -q')
res = {}
try:
    for p in props:
        t0 = time.time()
        r = sh('python3 /verif/verif.py check %s --tier %s' % (p, tier), cwd='/verif', env=dict(os.environ, VERIF_NO_EVIDENCE='1'))
        out = r.stdout.decode(errors='replace')
        keys = [l.strip() for l in out.splitlines() if l.strip().startswith('key=')]
        res[p] = dict(exit=r.returncode, wall_s=round(time.time() - t0), tier=tier, keys=keys[:6])
        print('%s on %s: exit %d (%ds) %s' % (p, name, r.returncode, time.time() - t0, '; '.join(keys[:3])))
finally:
    sh('git -C /repo checkout -- .')
st = sh('git -C /repo status --porcelain --untracked-files=no').stdout.decode().strip()
assert not st, st
meta.setdefault('runs', {}).update({'%s:%s' % (p, tier): v for p, v in res.items()})
meta['detected_by'] = sorted(set(meta.get('detected_by', [])) | {('%s(%s)' % (p, tier)) for p, v in res.items() if v['exit'] == 1})
json.dump(meta, open(os.path.join(d, 'meta.json'), 'w'), indent=1)
